//! kvmon — runtime monitors for jtroo/kanata (properties C01–C20). See /verif/DESIGN.md.

mod checks;
mod core;
mod gen;

use crate::core::runner::{self, RunOpts, WorkerArgs};
use crate::core::{Ctx, Tier};
use std::path::PathBuf;

fn arg_val(args: &[String], name: &str) -> Option<String> {
    args.iter().position(|a| a == name).and_then(|i| args.get(i + 1).cloned())
}

fn usage() -> ! {
    eprintln!(
        "usage:\n  kvmon run <Cxx> [--tier quick|thorough] [--seed N] [--workers N] [--root DIR] [--lane NAME] [--extra-lane name=exe:stride]... [--max-cases N]\n  kvmon replay <file> [--lane NAME]\n  kvmon describe <Cxx> --tier T --seed N --idx I\n  kvmon list"
    );
    std::process::exit(2)
}

fn main() {
    let args: Vec<String> = std::env::args().collect();
    if args.len() < 2 {
        usage();
    }
    let tier = arg_val(&args, "--tier").and_then(|s| Tier::parse(&s)).unwrap_or(Tier::Quick);
    let seed: u64 = arg_val(&args, "--seed").and_then(|s| s.parse().ok()).unwrap_or(0);
    let lane = arg_val(&args, "--lane").unwrap_or_else(|| "rel".into());
    match args[1].as_str() {
        "genstats" => {
            // generator diagnostics: top reject reasons of the full-grammar profile
            let n: u64 = arg_val(&args, "--n").and_then(|s| s.parse().ok()).unwrap_or(2000);
            let mut reasons: std::collections::BTreeMap<String, (u64, String)> = Default::default();
            let mut ok = 0;
            let p = if args.iter().any(|a| a == "--nonlatching") { gen::Profile::non_latching() } else { gen::Profile::full() };
            for i in 0..n {
                let mut rng = crate::core::rng::Rng::for_case(seed, "genstats", "case", i);
                let g = gen::generate(&mut rng, &p);
                match crate::core::sim::Sim::new(&g.text) {
                    Ok(_) => ok += 1,
                    Err(e) => {
                        let line = e.lines().find(|l| l.contains("help:") ).or_else(|| e.lines().nth(1)).unwrap_or("").trim().to_string();
                        let key: String = line.chars().filter(|c| !c.is_ascii_digit()).take(100).collect();
                        let ent = reasons.entry(key).or_insert((0, g.text.clone()));
                        ent.0 += 1;
                    }
                }
            }
            println!("accepted {ok}/{n}");
            let mut v: Vec<_> = reasons.into_iter().collect();
            v.sort_by_key(|x| std::cmp::Reverse(x.1 .0));
            for (k, (c, ex)) in v.iter().take(25) {
                println!("{c:5}  {k}");
                if args.iter().any(|a| a == "--examples") {
                    println!("{ex}\n");
                }
            }
        }
        "list" => {
            for c in checks::all() {
                println!("{}", c.id());
            }
        }
        "run" => {
            let id = args.get(2).cloned().unwrap_or_else(|| usage());
            let check = checks::by_id(&id).unwrap_or_else(|| {
                eprintln!("unknown check {id}");
                std::process::exit(2)
            });
            let workers = arg_val(&args, "--workers")
                .and_then(|s| s.parse().ok())
                .unwrap_or_else(|| std::thread::available_parallelism().map(|n| n.get()).unwrap_or(8));
            let root = arg_val(&args, "--root").unwrap_or_else(|| "/verif".into());
            let mut extra = vec![];
            let mut i = 0;
            while i < args.len() {
                if args[i] == "--extra-lane" {
                    if let Some(spec) = args.get(i + 1) {
                        // name=exe:stride
                        if let Some((name, rest)) = spec.split_once('=') {
                            let (exe, stride) = match rest.rsplit_once(':') {
                                Some((e, s)) => (e.to_string(), s.parse().unwrap_or(1)),
                                None => (rest.to_string(), 1),
                            };
                            extra.push((name.to_string(), PathBuf::from(exe), stride));
                        }
                    }
                }
                i += 1;
            }
            let opts = RunOpts {
                tier,
                seed,
                workers,
                root,
                lane,
                extra_lanes: extra,
                max_cases: arg_val(&args, "--max-cases").and_then(|s| s.parse().ok()),
            };
            std::process::exit(runner::coordinator(check, &opts));
        }
        "worker" => {
            let id = args.get(2).cloned().unwrap_or_else(|| usage());
            let check = checks::by_id(&id).expect("unknown check");
            let g = |n: &str, d: u64| arg_val(&args, n).and_then(|s| s.parse().ok()).unwrap_or(d);
            let wa = WorkerArgs {
                shard: g("--shard", 0),
                nshards: g("--nshards", 1),
                start: g("--start", 0),
                end: g("--end", u64::MAX),
                stride: g("--stride", 1),
                only: arg_val(&args, "--only").and_then(|s| s.parse().ok()),
            };
            let ctx = Ctx { tier, seed, verbose: false, lane };
            std::process::exit(runner::worker(check, &ctx, &wa));
        }
        "describe" => {
            let id = args.get(2).cloned().unwrap_or_else(|| usage());
            let check = checks::by_id(&id).expect("unknown check");
            let idx = arg_val(&args, "--idx").and_then(|s| s.parse().ok()).unwrap_or(0);
            let ctx = Ctx { tier, seed, verbose: false, lane };
            println!("{}", check.describe(&ctx, idx));
        }
        "sim" => {
            // kvmon sim <cfg-file> "<history>" : run and print the trace (debugging aid)
            let cfg = std::fs::read_to_string(args.get(2).expect("cfg file")).expect("read cfg");
            let h = checks::c01::parse_hist(args.get(3).map(|s| s.as_str()).unwrap_or(""));
            let mut sim = crate::core::sim::Sim::new(&cfg).unwrap_or_else(|e| {
                eprintln!("rejected: {e}");
                std::process::exit(2)
            });
            let extra: u64 = arg_val(&args, "--drain").and_then(|s| s.parse().ok()).unwrap_or(300);
            for e in &h {
                sim.apply(e);
                if !matches!(e, crate::core::sim::Ev::T(_)) {
                    println!("{:>6} in  {}", sim.now, crate::core::sim::render_hist(std::slice::from_ref(e)));
                }
            }
            for _ in 0..extra {
                let _ = sim.k.can_block_update_idle_waiting(1);
                sim.tick();
            }
            for o in &sim.trace {
                println!("{:>6} out {}", o.at, o.short());
            }
            let l = sim.k.layout.b();
            println!("end: now={} idle={} os={} queue={} action_queue={} waiting={} states={:?}", sim.now, sim.is_idle(), sim.os.describe(), l.queue.len(), l.action_queue.len(), l.waiting.is_some(), l.states);
        }
        "triage" => {
            let path = args.get(2).cloned().unwrap_or_else(|| usage());
            let doc: serde_json::Value = serde_json::from_str(&std::fs::read_to_string(&path).expect("read")).expect("json");
            checks::c01::triage(&doc);
        }
        "replay" => {
            let path = args.get(2).cloned().unwrap_or_else(|| usage());
            let text = std::fs::read_to_string(&path).unwrap_or_else(|e| {
                eprintln!("cannot read {path}: {e}");
                std::process::exit(2)
            });
            let doc: serde_json::Value = serde_json::from_str(&text).expect("replay file is not JSON");
            let id = doc["property"].as_str().unwrap_or("").to_string();
            let check = checks::by_id(&id).expect("unknown check in replay file");
            let lane = doc["lane"].as_str().map(|s| s.to_string()).unwrap_or(lane);
            std::process::exit(runner::replay(check, &doc, &lane));
        }
        _ => usage(),
    }
}
