//! C15 helper: the key-NAME dimension of a live reload.
//!
//! What a key name means (`-`, `;`, `[`, `0`, a name of the user's own ...) is decided by a
//! process-global table of the parser that `deflocalkeys-<platform>` rewrites. A freshly started
//! kanata begins with the default table; a live reload parses the new file in a process in which
//! the previous file has already been parsed. "Behaves exactly like a freshly started instance of
//! the new configuration" therefore includes: every name the new file uses (in defsrc and in
//! actions) means what the new file alone says it means, whatever the file before it defined.
//!
//! This module generates, per configuration of a case, an optional `deflocalkeys-linux` block
//! (redefinitions of default names, of built-in names, and names of its own), optional blocks for
//! other platforms (decoys: they must not matter here), extra `defsrc` entries written with those
//! names and first-layer actions written with those names; and the probe piece of a continuation:
//! taps (some with an OS repeat) of every physical key that any configuration of the case can mean
//! by one of the names. The expected meaning is never computed: reloaded and fresh instance are
//! compared. The small model below (`resolve`) is only used to build files that a fresh start
//! accepts (no physical key twice in defsrc) and for the evidence counters.

use crate::core::rng::Rng;
use crate::core::sim::Ev;

/// names that every configuration may use without defining them, with the key code the
/// configuration guide gives them (default names that locales.adoc tells users to redefine, and two
/// built-in names); none of them is used by the rest of the C15 generator or by the harness
pub const LK_NAMES: &[(&str, u16)] = &[("-", 12), ("=", 13), ("[", 26), ("]", 27), (";", 39), ("'", 40), (",", 51), (".", 52), ("/", 53), ("+", 78), ("0", 11), ("9", 10)];
/// names that only exist where a block defines them
pub const LK_OWN_NAMES: &[&str] = &["\u{f6}", "\u{fc}", "lk1", "hash"];
/// physical keys the blocks map names to: the default codes above plus grave, backslash, 102nd;
/// disjoint from every key the rest of the generator presses
pub const LK_CODES: &[u16] = &[12, 13, 26, 27, 39, 40, 51, 52, 53, 78, 11, 10, 41, 43, 86];

#[derive(Clone, Debug, Default, PartialEq)]
pub struct LkSpec {
    /// `(deflocalkeys-linux name code ...)`; None: the file has no such block
    pub block: Option<Vec<(String, u16)>>,
    /// blocks for platforms that do not apply here: (variant, pairs)
    pub decoys: Vec<(String, Vec<(String, u16)>)>,
    /// the blocks are written at the end of the file instead of at its start
    pub block_last: bool,
    /// extra defsrc entries (names), after the reload keys
    pub src: Vec<String>,
    /// first-layer action of each of them (`_` on the other layers)
    pub acts: Vec<String>,
}

pub fn default_code(name: &str) -> Option<u16> {
    LK_NAMES.iter().find(|x| x.0 == name).map(|x| x.1)
}

/// what `name` means in a freshly started instance of a file with this spec
pub fn resolve(s: &LkSpec, name: &str) -> Option<u16> {
    if let Some(b) = &s.block {
        if let Some(x) = b.iter().find(|x| x.0 == name) {
            return Some(x.1);
        }
    }
    default_code(name)
}

/// key names (of this dimension) that the file uses in defsrc or in an action
pub fn names_used(s: &LkSpec) -> Vec<String> {
    let mut v: Vec<String> = s.src.clone();
    for a in &s.acts {
        if (default_code(a).is_some() || LK_OWN_NAMES.contains(&a.as_str())) && !v.contains(a) {
            v.push(a.clone());
        }
    }
    v
}

fn pairs_text(p: &[(String, u16)]) -> String {
    p.iter().map(|(n, c)| format!(" {n} {c}")).collect::<String>()
}

pub fn blocks_text(s: &LkSpec) -> String {
    let mut t = String::new();
    if let Some(b) = &s.block {
        t.push_str(&format!("(deflocalkeys-linux{})\n", pairs_text(b)));
    }
    for (v, p) in &s.decoys {
        t.push_str(&format!("({v}{})\n", pairs_text(p)));
    }
    t
}

fn rand_block(lr: &mut Rng, names: &[&str]) -> Vec<(String, u16)> {
    let mut b: Vec<(String, u16)> = vec![];
    for n in names {
        if lr.chance(3, 4) {
            b.push((n.to_string(), *lr.pick(LK_CODES)));
        }
    }
    for n in LK_OWN_NAMES {
        if lr.chance(1, 4) {
            b.push((n.to_string(), *lr.pick(LK_CODES)));
        }
    }
    if b.is_empty() {
        b.push((names[0].to_string(), *lr.pick(LK_CODES)));
    }
    lr.shuffle(&mut b);
    b
}

/// Fill in what the file does with the names: defsrc entries with pairwise different physical keys
/// (under the file's own table), and what each of them does on the first layer.
pub fn use_names(lr: &mut Rng, s: &mut LkSpec, names: &[&str], letters: &[&str]) {
    let mut cand: Vec<String> = names.iter().map(|n| n.to_string()).collect();
    if let Some(b) = &s.block {
        for (n, _) in b {
            if !cand.contains(n) {
                cand.push(n.clone());
            }
        }
    }
    lr.shuffle(&mut cand);
    let mut codes: Vec<u16> = vec![];
    s.src.clear();
    s.acts.clear();
    for (i, n) in cand.iter().enumerate() {
        let Some(c) = resolve(s, n) else { continue };
        if codes.contains(&c) || !(i == 0 || lr.chance(3, 4)) {
            continue;
        }
        codes.push(c);
        s.src.push(n.clone());
    }
    let usable: Vec<String> = cand.iter().filter(|n| resolve(s, n).is_some()).cloned().collect();
    for _ in 0..s.src.len() {
        let a = if !usable.is_empty() && lr.chance(3, 5) { lr.pick(&usable).clone() } else { lr.pick(letters).to_string() };
        s.acts.push(a);
    }
}

/// One configuration's share of the dimension. `with_block`: None = decide here.
pub fn rand_lk(lr: &mut Rng, names: &[&str], letters: &[&str], with_block: bool) -> LkSpec {
    let mut s = LkSpec::default();
    if with_block {
        s.block = Some(rand_block(lr, names));
    }
    if lr.chance(1, 3) {
        for v in ["deflocalkeys-win", "deflocalkeys-winiov2", "deflocalkeys-wintercept", "deflocalkeys-macos"] {
            if lr.chance(1, 2) {
                s.decoys.push((v.to_string(), rand_block(lr, names)));
            }
        }
    }
    s.block_last = lr.chance(1, 3);
    use_names(lr, &mut s, names, letters);
    s
}

/// every physical key that some configuration of the case can mean by one of the names
pub fn relevant_codes(all: &[&LkSpec], names: &[&str]) -> Vec<u16> {
    let mut v: Vec<u16> = vec![];
    let mut add = |c: u16| {
        if !v.contains(&c) {
            v.push(c);
        }
    };
    for n in names {
        if let Some(c) = default_code(n) {
            add(c);
        }
    }
    for s in all {
        if let Some(b) = &s.block {
            for (_, c) in b {
                add(*c);
            }
        }
        for n in &s.src {
            if let Some(c) = resolve(s, n) {
                add(c);
            }
        }
    }
    v.sort();
    v
}

/// Probe piece: every relevant physical key is tapped once (a quarter of them with an OS repeat
/// while held, a fifth overlapping with the next one), in random order. Returns the number of taps.
pub fn probe_piece(lr: &mut Rng, codes: &[u16]) -> (Vec<Ev>, u64) {
    let mut order = codes.to_vec();
    lr.shuffle(&mut order);
    let mut c: Vec<Ev> = vec![];
    let mut pending_release: Option<u16> = None;
    for k in &order {
        c.extend([Ev::P(*k), Ev::T(*lr.pick(&[2u32, 8, 25]))]);
        if let Some(p) = pending_release.take() {
            c.extend([Ev::R(p), Ev::T(*lr.pick(&[1u32, 6]))]);
        }
        if lr.chance(1, 4) {
            c.extend([Ev::Rep(*k), Ev::T(*lr.pick(&[1u32, 30]))]);
        }
        if lr.chance(1, 5) {
            pending_release = Some(*k);
        } else {
            c.extend([Ev::R(*k), Ev::T(*lr.pick(&[1u32, 6, 30]))]);
        }
    }
    if let Some(p) = pending_release.take() {
        c.extend([Ev::R(p), Ev::T(5)]);
    }
    c.push(Ev::T(*lr.pick(&[5u32, 40, 300])));
    (c, order.len() as u64)
}

/// put the parser's process-global key-name table into the state a newly started process has
pub fn reset_name_table() {
    kanata_parser::keys::replace_custom_str_oscode_mapping(&Default::default());
}
