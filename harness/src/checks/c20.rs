//! C20 — not implemented yet (stub so that the registry compiles).

use crate::core::{CaseOut, Check, Ctx};

pub struct C20Check;
pub static C20: C20Check = C20Check;

impl Check for C20Check {
    fn id(&self) -> &'static str {
        "C20"
    }
    fn n_cases(&self, _ctx: &Ctx) -> u64 {
        0
    }
    fn run_case(&self, _ctx: &Ctx, _idx: u64) -> CaseOut {
        CaseOut::new()
    }
    fn rule(&self) -> String {
        "not implemented".into()
    }
    fn assumptions(&self) -> Vec<String> {
        vec![]
    }
}
