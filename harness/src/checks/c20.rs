//! C20 — zippychord leaves exactly the expansion on screen.
//!
//! Oracle: a text-buffer model of the receiving application replays the OS stream (printable keys
//! append a character honouring the shift / altgr state at press time, backspace deletes, space
//! appends). After a completed dictionary entry (every chord of the line pressed together within
//! the deadline, in any order, then released) the buffer must hold exactly the entry's expansion
//! (plus the smart space when enabled); typing that forms no chord must pass through unchanged;
//! shift / altgr must be back to what the user holds.
//!
//! Scenario families (all judged by the same text-buffer model):
//! * every entry, every permutation of its last chord, with / without modifiers, with further typing;
//! * typing that forms no chord; a too-slow chord; deadline restart by an activation; slow follow-ups;
//! * a top-level chord typed right after another line was completed and fully released — in particular
//!   a chord whose keys are a strict part of a multi-key follow-up chord that is still pending
//!   ("dy abc" pending, "ab" typed): the earlier text stays, the chord expands as if typed alone;
//! * a chord activates, SOME of its keys are released, then a longer chord containing it is completed
//!   in the same hold ("pr" / "pra", "12" / "1234"): only the longer expansion remains;
//! * a line that has follow-up lines is completed and released, the user types something else (a lone
//!   tap of a key that is only a part of some chord, a key that is in no chord, several taps, space,
//!   punctuation, a rolled pair, a different chord), waits (shorter / longer than idle-reactivate-time)
//!   and presses the keys of a follow-up chord of that line: what was typed in between stays on screen,
//!   nothing of it is erased, the keys are what they are on their own;
//! * activation - soft reset in the same hold - pause - activation again: a top-level chord X activates
//!   and, while its keys are still down, zippy gives up on the hold (held longer than the deadline the
//!   activation restarted / a further key after which the held keys match nothing / a further key toward
//!   a longer chord that is then abandoned); everything is released, the user pauses longer than
//!   idle-reactivate-time (far below the 10 s watchdog) and types a chord Y (X again, a chord whose
//!   expansion starts like X's, another chord): the earlier text stays, Y expands completely ("dayday",
//!   "hi3hi"), nothing of the earlier hold is re-used or left unerased.
//!
//! Modifiers: every family is also driven with lsft, rsft or BOTH shift keys (either press order) held,
//! the entry family also with altgr. With shift the text is compared exactly, not only ignoring case:
//! the first character of the expansion is typed under the user's shift (a capital letter), the rest as
//! configured (all held shift keys lifted, pressed again afterwards); before the user releases them
//! exactly the held modifiers must be down at the OS. Where the final expansion may re-use the beginning
//! of the text it replaces (same first character) the comparison ignores case as before.
//!
//! Known findings are keyed on the exact structural precondition of the defect of the unchanged tree and,
//! where the defect's outcome can be stated in one line (#18: zippy resets, keys appear literally;
//! second completion of a chord in one hold: erase counter forgotten), ALSO on that outcome: a different
//! wrong text in the same structure gets the suffix `:other-outcome` and is not covered.

use crate::core::rng::Rng;
use crate::core::sim::{code_name, osc, render_hist, Ev, FileMap, Out, OutKind, Sim};
use crate::core::{CaseOut, Check, Ctx};
use serde_json::{json, Value};
use std::collections::{BTreeMap, BTreeSet};

pub struct C20Check;
pub static C20: C20Check = C20Check;

/// keys that chords are made of
const POOL: [char; 8] = ['a', 'b', 'c', 'd', 'e', 'f', 'g', 'h'];
/// keys that only ever occur in follow-up chords
const FPOOL: [char; 3] = ['m', 'n', 'o'];
/// never part of any chord
const FOREIGN: [char; 3] = ['x', 'z', 'q'];
const SENTINEL: &str = "#";

#[derive(Clone, Debug)]
struct Entry {
    chords: Vec<Vec<char>>,
    out: String,
}
impl Entry {
    fn line(&self) -> String {
        let ins: Vec<String> = self.chords.iter().map(|c| c.iter().collect()).collect();
        format!("{}\t{}", ins.join(" "), self.out)
    }
    fn path(&self) -> Vec<BTreeSet<char>> {
        self.chords.iter().map(|c| c.iter().copied().collect()).collect()
    }
}

#[derive(Clone, Debug)]
struct Dict {
    entries: Vec<Entry>,
}

#[derive(Clone, Copy, Debug, PartialEq, Eq)]
enum Smart {
    None,
    AddOnly,
    Full,
}
impl Smart {
    fn name(self) -> &'static str {
        match self {
            Smart::None => "none",
            Smart::AddOnly => "add-space-only",
            Smart::Full => "full",
        }
    }
}

impl Dict {
    fn file(&self) -> String {
        let mut s = String::from("// generated\n");
        for e in &self.entries {
            s.push_str(&e.line());
            s.push('\n');
        }
        s
    }
    fn has_path(&self, p: &[BTreeSet<char>]) -> bool {
        self.entries.iter().any(|e| e.path() == p)
    }
    /// output of the dictionary line whose chord path is exactly `p` ("" for an implied node)
    fn out_of(&self, p: &[BTreeSet<char>]) -> Option<String> {
        if let Some(e) = self.entries.iter().find(|e| e.path() == p) {
            return Some(e.out.clone());
        }
        // implied node with empty output: a longer line goes through it
        if self.entries.iter().any(|e| e.chords.len() > p.len() && e.path()[..p.len()] == *p) {
            return Some(String::new());
        }
        None
    }
    fn toplevel_sets(&self) -> Vec<BTreeSet<char>> {
        let mut v: Vec<BTreeSet<char>> = self.entries.iter().map(|e| e.path()[0].clone()).collect();
        v.sort();
        v.dedup();
        v
    }
}

fn gen_out(rng: &mut Rng, base: Option<&str>) -> String {
    let mut s = String::new();
    if let Some(b) = base {
        // share a prefix with another expansion
        let n = 1 + rng.usize(b.chars().count().max(1));
        s.extend(b.chars().take(n));
    }
    let n = 1 + rng.usize(6);
    for i in 0..n {
        let c = (b'a' + rng.below(26) as u8) as char;
        if rng.chance(1, 7) && i > 0 && !s.ends_with(' ') {
            s.push(' ');
        }
        if rng.chance(1, 6) {
            s.push(c.to_ascii_uppercase());
        } else {
            s.push(c);
        }
    }
    if rng.chance(1, 8) {
        s.push(' ');
    }
    s
}

fn gen_chord(rng: &mut Rng, pool: &[char], n: usize) -> Vec<char> {
    rng.subset(pool.len(), n).into_iter().map(|i| pool[i]).collect()
}

fn gen_dict(rng: &mut Rng) -> Dict {
    let mut d = Dict { entries: vec![] };
    let n_top = 2 + rng.usize(3);
    let mut guard = 0;
    while d.entries.len() < n_top && guard < 50 {
        guard += 1;
        let n = *rng.pick(&[2usize, 2, 2, 3, 3, 4]);
        let c = gen_chord(rng, &POOL, n);
        let p = vec![c.iter().copied().collect::<BTreeSet<char>>()];
        if !d.has_path(&p) {
            d.entries.push(Entry { chords: vec![c], out: gen_out(rng, None) });
        }
    }
    // chords that extend other chords (one or two levels)
    for _ in 0..rng.usize(4) {
        let bi = rng.usize(d.entries.len());
        let b = d.entries[bi].clone();
        if b.chords.len() != 1 || b.chords[0].len() >= 5 {
            continue;
        }
        let mut c = b.chords[0].clone();
        let extra: Vec<char> = POOL.iter().copied().filter(|k| !c.contains(k)).collect();
        if extra.is_empty() {
            continue;
        }
        c.push(*rng.pick(&extra));
        // sometimes two keys at once, so that there is no chord in between ("12" / "1234")
        if rng.chance(1, 3) && c.len() < 5 {
            let extra2: Vec<char> = POOL.iter().copied().filter(|k| !c.contains(k)).collect();
            if !extra2.is_empty() {
                c.push(*rng.pick(&extra2));
            }
        }
        let p = vec![c.iter().copied().collect::<BTreeSet<char>>()];
        if !d.has_path(&p) {
            let out = if rng.chance(1, 2) { gen_out(rng, Some(&b.out)) } else { gen_out(rng, None) };
            d.entries.push(Entry { chords: vec![c], out });
        }
    }
    // follow-up chords
    for _ in 0..rng.usize(5) {
        let bi = rng.usize(d.entries.len());
        let b = d.entries[bi].clone();
        if b.chords.len() >= 3 {
            continue;
        }
        let n = *rng.pick(&[1usize, 2, 2, 2, 3]);
        let mut pool: Vec<char> = POOL.to_vec();
        if rng.chance(1, 3) {
            pool.extend_from_slice(&FPOOL);
        }
        let c = gen_chord(rng, &pool, n);
        let mut chords = b.chords.clone();
        chords.push(c);
        // sometimes skip the intermediate line so that the node has an empty output
        let share = rng.chance(1, 3);
        let e = Entry { chords, out: gen_out(rng, if share { Some(&b.out) } else { None }) };
        if !d.has_path(&e.path()) {
            d.entries.push(e);
            if rng.chance(1, 6) {
                // ... by removing the line the follow-up was attached to (if nothing else needs it)
                let bp = b.path();
                let others_need_it = d.entries.iter().any(|x| x.path() == bp) && d.entries.iter().filter(|x| x.path().len() > bp.len() && x.path()[..bp.len()] == bp[..]).count() == 0;
                if !others_need_it && b.chords.len() == 1 {
                    d.entries.retain(|x| x.path() != bp);
                }
            }
        }
    }
    // a multi-key follow-up chord that strictly contains a top-level chord of the dictionary
    // ("dy abc" next to "ab"): after "dy" the keys a+b are at the same time the complete top-level
    // chord and a part of the pending follow-up
    if rng.chance(2, 5) {
        let tops: Vec<Entry> = d.entries.iter().filter(|e| e.chords.len() == 1 && e.chords[0].len() <= 3).cloned().collect();
        let parents: Vec<Entry> = d.entries.iter().filter(|e| e.chords.len() <= 2).cloned().collect();
        if !tops.is_empty() && !parents.is_empty() {
            let t = rng.pick(&tops).clone();
            let b = rng.pick(&parents).clone();
            let mut c = t.chords[0].clone();
            let extra: Vec<char> = POOL.iter().chain(FPOOL.iter()).copied().filter(|k| !c.contains(k)).collect();
            c.push(*rng.pick(&extra));
            if rng.chance(1, 4) {
                let extra2: Vec<char> = POOL.iter().copied().filter(|k| !c.contains(k)).collect();
                c.push(*rng.pick(&extra2));
            }
            let mut chords = b.chords.clone();
            chords.push(c);
            let share = rng.chance(1, 3);
            let e = Entry { chords, out: gen_out(rng, if share { Some(&t.out) } else { None }) };
            if !d.has_path(&e.path()) {
                d.entries.push(e);
            }
        }
    }
    // a line that starts with a single key ("r df")
    if rng.chance(1, 5) {
        let k = *rng.pick(&FPOOL);
        let c2 = gen_chord(rng, &POOL, 2);
        let e = Entry { chords: vec![vec![k], c2], out: gen_out(rng, None) };
        if !d.has_path(&e.path()) {
            d.entries.push(e);
        }
    }
    d
}

fn fixed_dicts() -> Vec<Dict> {
    let e = |ins: &str, out: &str| Entry { chords: ins.split(' ').map(|c| c.chars().collect()).collect(), out: out.to_string() };
    vec![
        // the repository's own sample (letters only)
        Dict { entries: vec![e("dy", "day"), e("dy h", "Monday"), e("abc", "Alphabet"), e("pr", "pre "), e("pra", "partner"), e("pr q", "pull request"), e("r df", "recipient"), e("gh", "hi"), e("ghef", "bye")] },
        Dict { entries: vec![e("gi", "git "), e("gi s", "git status"), e("gi c", "git checkout "), e("gi c b", "git checkout b "), e("gi c a", "git commit amend ")] },
        // known finding #18
        Dict { entries: vec![e("af", "Vip"), e("af gf", "her")] },
        Dict { entries: vec![e("ab", "one"), e("ab mn", "two")] },
        // known finding #19
        Dict { entries: vec![e("gef", "o whi"), e("gefb", "orx z v"), e("gefbd", "y")] },
        Dict { entries: vec![e("fbe", "M"), e("fbeh", "Mqjf q w"), e("fbehc", "Abgf")] },
        // found by this check: follow-up chord containing its parent, sibling follow-ups, implied node above a chord
        Dict { entries: vec![e("ab", "q"), e("ab abc", "w"), e("abcd", "s")] },
        Dict { entries: vec![e("ab", "one"), e("ab c", "two"), e("ab cd", "three")] },
        Dict { entries: vec![e("df", "v"), e("dfa gh", "tq")] },
        // chains without a shared prefix
        Dict { entries: vec![e("ab", "xyz"), e("abc", "pqr"), e("abcd", "lmn")] },
        Dict { entries: vec![e("gh", "hi"), e("ghef", "bye"), e("rq", "request"), e("rqa", "request assistance")] },
        Dict { entries: vec![e("ab", "Hello"), e("cd", "World"), e("ab cd", "both"), e("cd ab", "htob")] },
        // a top-level chord that is a strict part of a pending follow-up chord
        Dict { entries: vec![e("dy", "day"), e("dy abc", "alphabet"), e("ab", "abba")] },
        Dict { entries: vec![e("gh", "go"), e("gh cde", "code"), e("cd", "seedy"), e("de", "dee"), e("gh cde f", "coffee")] },
        // a chord and a longer one two keys apart, nothing in between ("12" / "1234" of the repository's tests)
        Dict { entries: vec![e("ab", "hi"), e("abcd", "bye"), e("ef", "pre"), e("efg", "partner"), e("ef h", "pull request")] },
    ]
}

// ---------------------------------------------------------------- text buffer model

struct Keymap {
    names: BTreeMap<String, char>,
}
impl Keymap {
    fn new() -> Keymap {
        let mut names = BTreeMap::new();
        for c in 'a'..='z' {
            names.insert(code_name(osc(&c.to_string())), c);
        }
        names.insert(code_name(osc("spc")), ' ');
        names.insert(code_name(osc(".")), '.');
        names.insert(code_name(osc(",")), ',');
        names.insert(code_name(osc(";")), ';');
        Keymap { names }
    }
}

#[derive(Default, Clone)]
struct Screen {
    cells: Vec<String>,
    ate_sentinel: bool,
    backspaces: u64,
}

fn replay(trace: &[Out], km: &Keymap) -> (Screen, BTreeSet<String>) {
    let mut sc = Screen { cells: vec![SENTINEL.to_string()], ..Default::default() };
    let mut down: BTreeSet<String> = BTreeSet::new();
    for o in trace {
        match o.kind {
            OutKind::Down => {
                down.insert(o.name.clone());
                if o.name == "BSpace" {
                    sc.backspaces += 1;
                    if sc.cells.len() <= 1 {
                        sc.ate_sentinel = true;
                    }
                    sc.cells.pop();
                } else if let Some(c) = km.names.get(&o.name) {
                    let shift = down.contains("LShift") || down.contains("RShift");
                    let altgr = down.contains("RAlt");
                    let ch = if shift { c.to_ascii_uppercase() } else { *c };
                    sc.cells.push(if altgr { format!("⌥{ch}") } else { ch.to_string() });
                }
            }
            OutKind::Up => {
                down.remove(&o.name);
            }
            _ => {}
        }
    }
    (sc, down)
}

fn text(sc: &Screen) -> String {
    sc.cells.concat()
}

// ---------------------------------------------------------------- scenarios

#[derive(Clone, Copy, Debug, PartialEq, Eq)]
enum Held {
    None,
    LShift,
    RShift,
    /// both shift keys, lsft pressed first
    BothLR,
    /// both shift keys, rsft pressed first
    BothRL,
    AltGr,
}
impl Held {
    /// the modifier keys the user holds, in press order
    fn keys(self) -> &'static [&'static str] {
        match self {
            Held::None => &[],
            Held::LShift => &["lsft"],
            Held::RShift => &["rsft"],
            Held::BothLR => &["lsft", "rsft"],
            Held::BothRL => &["rsft", "lsft"],
            Held::AltGr => &["ralt"],
        }
    }
    fn shifted(self) -> bool {
        matches!(self, Held::LShift | Held::RShift | Held::BothLR | Held::BothRL)
    }
    fn name(self) -> &'static str {
        match self {
            Held::None => "none",
            Held::LShift => "lsft",
            Held::RShift => "rsft",
            Held::BothLR | Held::BothRL => "lsft+rsft",
            Held::AltGr => "ralt",
        }
    }
    /// names of the OS keys that must be down while the user holds the modifier(s), sorted
    fn os_names(self) -> Vec<String> {
        let mut v: Vec<String> = self.keys().iter().map(|k| code_name(osc(k))).collect();
        v.sort();
        v
    }
    fn push_press(self, h: &mut Vec<Ev>, rng: &mut Rng) {
        for m in self.keys() {
            h.push(Ev::P(osc(m)));
            h.push(Ev::T(1 + rng.below(3) as u32));
        }
    }
    fn push_release(self, h: &mut Vec<Ev>, rng: &mut Rng) {
        let mut ks: Vec<&str> = self.keys().to_vec();
        if ks.len() > 1 && rng.chance(1, 2) {
            ks.reverse();
        }
        for m in ks {
            h.push(Ev::R(osc(m)));
            h.push(Ev::T(1 + rng.below(3) as u32));
        }
    }
}

/// one of the shift variants, for the families that hold a modifier only now and then
fn pick_shift(rng: &mut Rng) -> Held {
    *rng.pick(&[Held::LShift, Held::RShift, Held::BothLR, Held::BothRL])
}

/// What a held shift does to an expansion: the first character is typed while the user's shift is
/// still down (so a letter comes out as a capital), the rest exactly as configured.
fn cap_first(out: &str) -> String {
    let mut cs = out.chars();
    match cs.next() {
        Some(c) => c.to_ascii_uppercase().to_string() + cs.as_str(),
        None => String::new(),
    }
}

/// With shift held the exact case of the text is judged unless the final expansion starts with the
/// same character (ignoring case) as the expansion activated just before it: then a part of the
/// earlier text may be re-used and neither the statement nor the guide says which character counts
/// as "the first".
fn case_exact_judged(prev_out: Option<&str>, out: &str) -> bool {
    match (prev_out.and_then(|p| p.chars().next()), out.chars().next()) {
        (Some(a), Some(b)) => !a.eq_ignore_ascii_case(&b),
        (_, Some(_)) => true,
        (_, None) => false,
    }
}

#[derive(Clone, Copy, Debug, PartialEq, Eq)]
enum Tail {
    None,
    Letter,
    Dot,
    LetterDot,
}

fn keyname(c: char) -> String {
    match c {
        ' ' => "spc".into(),
        c => c.to_string(),
    }
}

struct Built {
    hist: Vec<Ev>,
    /// index into hist after which the chord keys are all released but the modifier is still held
    check_mod_at: usize,
}

/// orders: one press order per chord of the entry
fn build_entry(orders: &[Vec<char>], held: Held, tail: Tail, rng: &mut Rng) -> Built {
    build_entry_timed(orders, held, tail, rng, None, None)
}

/// `slow`: (number of keys of the last chord after which to pause, pause in ms);
/// `chord_gap`: pause between the chords of a line instead of a short one
fn build_entry_timed(orders: &[Vec<char>], held: Held, tail: Tail, rng: &mut Rng, slow: Option<(usize, u32)>, chord_gap: Option<u32>) -> Built {
    let mut h = vec![Ev::T(3)];
    held.push_press(&mut h, rng);
    for (ci, order) in orders.iter().enumerate() {
        for (i, k) in order.iter().enumerate() {
            h.push(Ev::P(osc(&keyname(*k))));
            if i + 1 < order.len() {
                match slow {
                    Some((after, gap)) if ci + 1 == orders.len() && i + 1 == after => h.push(Ev::T(gap)),
                    // fixed pace around a timed pause: 4 ms before it (so that the first press lies well
                    // before the activation), 1 ms after it
                    Some((after, _)) if ci + 1 == orders.len() => h.push(Ev::T(if i + 1 < after { 4 } else { 1 })),
                    _ => h.push(Ev::T(*rng.pick(&[1u32, 1, 2, 3]))),
                }
            }
        }
        h.push(Ev::T(*rng.pick(&[2u32, 5, 8])));
        let mut rel = order.clone();
        rng.shuffle(&mut rel);
        for k in rel {
            h.push(Ev::R(osc(&keyname(k))));
            h.push(Ev::T(*rng.pick(&[0u32, 1, 2])));
        }
        if ci + 1 < orders.len() {
            h.push(Ev::T(chord_gap.unwrap_or(*rng.pick(&[2u32, 6]))));
        }
    }
    h.push(Ev::T(4));
    let check_mod_at = h.len();
    held.push_release(&mut h, rng);
    h.push(Ev::T(2));
    let tap = |h: &mut Vec<Ev>, k: &str| {
        h.push(Ev::P(osc(k)));
        h.push(Ev::T(3));
        h.push(Ev::R(osc(k)));
        h.push(Ev::T(3));
    };
    match tail {
        Tail::None => {}
        Tail::Letter => tap(&mut h, &FOREIGN[0].to_string()),
        Tail::Dot => tap(&mut h, "."),
        Tail::LetterDot => {
            tap(&mut h, &FOREIGN[1].to_string());
            tap(&mut h, ".");
        }
    }
    h.push(Ev::T(10));
    Built { hist: h, check_mod_at }
}

fn expected_entry(out: &str, smart: Smart, tail: Tail) -> String {
    let mut s = format!("{SENTINEL}{out}");
    let auto_space = smart != Smart::None && !out.is_empty() && !out.ends_with(' ');
    if auto_space {
        s.push(' ');
    }
    match tail {
        Tail::None => {}
        Tail::Letter => s.push(FOREIGN[0]),
        Tail::Dot => {
            if auto_space && smart == Smart::Full {
                s.pop();
            }
            s.push('.');
        }
        Tail::LetterDot => {
            s.push(FOREIGN[1]);
            s.push('.');
        }
    }
    s
}

/// What the press order of the last chord means structurally (for classifying a failure).
struct Structure {
    /// a follow-up chord of >= 2 keys pressed in an order in which some proper part of it (the first
    /// key in the simplest case) is not contained in any top-level chord (#18)
    followup_part_not_in_toplevel: bool,
    /// a follow-up chord contains all keys of the chord it follows, so that pressing its remaining
    /// keys while the parent chord is still held completes it without the release the guide describes
    followup_within_hold: bool,
    /// a node without an output of its own (it only exists because a longer line goes through it) is
    /// reached by pressing further keys while a smaller chord / node that already activated is still held
    empty_node_after_activation: bool,
    /// while the keys of a follow-up chord go down, a smaller follow-up chord of the same parent
    /// ("ab c" while typing "ab cd") completes first
    followup_extends_sibling: bool,
    /// >= 3 activations within one hold and two consecutive non-final ones share an output prefix (#19)
    chain_shared_prefix: bool,
    /// an intermediate key set of a follow-up chord is itself a top-level chord: the guide does not
    /// say which wins
    ambiguous: bool,
    chain_len: usize,
    shape: &'static str,
    /// outputs of all nodes completed while the line is typed, in order ("" for an implied node)
    activations: Vec<String>,
}
impl Structure {
    /// output of the last non-empty expansion activated before the final one
    fn prev_out(&self) -> Option<&str> {
        let n = self.activations.len();
        if n < 2 {
            return None;
        }
        self.activations[..n - 1].iter().rev().find(|o| !o.is_empty()).map(|o| o.as_str())
    }
    fn known_structure(&self) -> bool {
        self.followup_part_not_in_toplevel || self.followup_within_hold || self.followup_extends_sibling || self.empty_node_after_activation || self.chain_shared_prefix
    }
}

fn analyse(d: &Dict, e: &Entry, orders: &[Vec<char>]) -> Structure {
    let mut st = Structure { followup_part_not_in_toplevel: false, followup_within_hold: false, empty_node_after_activation: false, followup_extends_sibling: false, chain_shared_prefix: false, ambiguous: false, chain_len: 0, shape: if e.chords.len() > 1 { "followup" } else { "single-chord" }, activations: vec![] };
    let top = d.toplevel_sets();
    let mut prefix_path: Vec<BTreeSet<char>> = vec![];
    for (ci, order) in orders.iter().enumerate() {
        // activations while the keys of this chord go down one by one
        let mut chain: Vec<String> = vec![];
        let mut heldset: BTreeSet<char> = BTreeSet::new();
        let mut activated: Vec<Vec<BTreeSet<char>>> = vec![];
        for (i, k) in order.iter().enumerate() {
            heldset.insert(*k);
            let mut p = prefix_path.clone();
            p.push(heldset.clone());
            let last = i + 1 == order.len();
            for q in &activated {
                let mut q2 = q.clone();
                q2.push(heldset.clone());
                if d.out_of(&q2).is_some() {
                    st.followup_within_hold = true;
                }
            }
            if let Some(o) = d.out_of(&p) {
                if o.is_empty() && !chain.is_empty() {
                    st.empty_node_after_activation = true;
                }
                if ci > 0 && !last {
                    st.followup_extends_sibling = true;
                }
                st.activations.push(o.clone());
                chain.push(o);
                activated.push(p.clone());
            } else if ci > 0 && !last && top.contains(&heldset) {
                st.ambiguous = true;
            }
            if ci > 0 && !last && !top.iter().any(|t| heldset.is_subset(t)) {
                st.followup_part_not_in_toplevel = true;
            }
        }
        if chain.len() >= 3 {
            for w in 0..chain.len() - 2 {
                let (a, b) = (&chain[w], &chain[w + 1]);
                if !a.is_empty() && !b.is_empty() && a.chars().next() == b.chars().next() {
                    st.chain_shared_prefix = true;
                }
            }
        }
        if chain.len() >= 2 && st.shape == "single-chord" {
            st.shape = "superset-chain";
        }
        st.chain_len = st.chain_len.max(chain.len());
        prefix_path.push(order.iter().copied().collect());
    }
    st
}


/// Idealised walk of one hold over the top-level chords (keys go down and up, nothing else is held at
/// the start): which top-level nodes are completed on the way, and whether the walk touches one of the
/// structures that are known to misbehave on their own.
struct HoldWalk {
    /// outputs of the top-level nodes whose key set was exactly held after some press, in order
    chain: Vec<String>,
    /// key sets of those nodes
    chain_sets: Vec<BTreeSet<char>>,
    /// after some press the held keys are exactly a follow-up chord of a node completed in this hold
    followup_within_hold: bool,
    /// an output-less (implied) node is completed after another node of this hold
    empty_node_after_activation: bool,
    /// the same node is completed twice in a row (its released keys are pressed again before any other)
    reactivation: bool,
}
impl HoldWalk {
    /// >= 3 activations and two consecutive non-final ones start with the same character (#19)
    fn chain_shared_prefix(&self) -> bool {
        let c = &self.chain;
        c.len() >= 3 && (0..c.len() - 2).any(|w| !c[w].is_empty() && !c[w + 1].is_empty() && c[w].chars().next() == c[w + 1].chars().next())
    }
}

impl HoldWalk {
    /// output of the last non-empty expansion completed in this hold before the final one
    fn prev_out(&self) -> Option<&str> {
        let n = self.chain.len();
        if n < 2 {
            return None;
        }
        self.chain[..n - 1].iter().rev().find(|o| !o.is_empty()).map(|o| o.as_str())
    }
}

fn mods_down(keys: &BTreeSet<String>) -> Vec<String> {
    let mut v: Vec<String> = keys.iter().filter(|k| matches!(k.as_str(), "LShift" | "RShift" | "RAlt")).cloned().collect();
    v.sort();
    v
}

/// `evs`: (true = press / false = release, key)
fn walk_hold(d: &Dict, evs: &[(bool, char)]) -> HoldWalk {
    let mut w = HoldWalk { chain: vec![], chain_sets: vec![], followup_within_hold: false, empty_node_after_activation: false, reactivation: false };
    let mut held: BTreeSet<char> = BTreeSet::new();
    for (press, k) in evs {
        if !*press {
            held.remove(k);
            continue;
        }
        held.insert(*k);
        for q in &w.chain_sets {
            if d.out_of(&[q.clone(), held.clone()]).is_some() {
                w.followup_within_hold = true;
            }
        }
        if let Some(o) = d.out_of(&[held.clone()]) {
            if o.is_empty() && !w.chain.is_empty() {
                w.empty_node_after_activation = true;
            }
            if w.chain_sets.last() == Some(&held) {
                w.reactivation = true;
            }
            w.chain.push(o);
            w.chain_sets.push(held.clone());
        }
    }
    w
}

fn push_presses(h: &mut Vec<Ev>, keys: &[char], gaps: &[u32], rng: &mut Rng) {
    for (i, k) in keys.iter().enumerate() {
        h.push(Ev::P(osc(&keyname(*k))));
        if i + 1 < keys.len() {
            h.push(Ev::T(*rng.pick(gaps)));
        }
    }
}

fn push_releases(h: &mut Vec<Ev>, keys: &[char], gaps: &[u32], rng: &mut Rng) {
    let mut rel = keys.to_vec();
    rng.shuffle(&mut rel);
    for k in rel {
        h.push(Ev::R(osc(&keyname(k))));
        h.push(Ev::T(*rng.pick(gaps)));
    }
}

fn push_tail(h: &mut Vec<Ev>, tail: Tail) {
    let tap = |h: &mut Vec<Ev>, k: &str| {
        h.push(Ev::P(osc(k)));
        h.push(Ev::T(3));
        h.push(Ev::R(osc(k)));
        h.push(Ev::T(3));
    };
    match tail {
        Tail::None => {}
        Tail::Letter => tap(h, &FOREIGN[0].to_string()),
        Tail::Dot => tap(h, "."),
        Tail::LetterDot => {
            tap(h, &FOREIGN[1].to_string());
            tap(h, ".");
        }
    }
}


fn tail_text(tail: Tail) -> String {
    match tail {
        Tail::None => String::new(),
        Tail::Letter => FOREIGN[0].to_string(),
        Tail::Dot => ".".to_string(),
        Tail::LetterDot => format!("{}.", FOREIGN[1]),
    }
}

/// Outcome that defect #18 (findings/C20-followup-part-not-in-toplevel.md) predicts for a follow-up
/// line, used ONLY to keep that known class narrow: zippy resets at the first key after which the held
/// part of the last chord lies in no top-level chord, so the last chord's keys and everything typed
/// afterwards appear literally behind the text of the line's earlier chords. `None` when that simple
/// prediction does not apply (an earlier chord already touches a known structure, the node before the
/// last chord has no output of its own, or a part of the last chord completes something on the way).
fn predicted_reset_outcome(d: &Dict, e: &Entry, orders: &[Vec<char>], held_mod: Held, smart: Smart, tail: Tail) -> Option<String> {
    let n = e.chords.len();
    if n < 2 {
        return None;
    }
    let pre_entry = Entry { chords: e.chords[..n - 1].to_vec(), out: String::new() };
    let pst = analyse(d, &pre_entry, &orders[..n - 1]);
    if pst.ambiguous || pst.followup_part_not_in_toplevel || pst.followup_within_hold || pst.followup_extends_sibling || pst.empty_node_after_activation || pst.chain_shared_prefix {
        return None;
    }
    let pre_path: Vec<BTreeSet<char>> = e.path()[..n - 1].to_vec();
    let pre_out = d.out_of(&pre_path)?;
    if pre_out.is_empty() {
        return None;
    }
    let top = d.toplevel_sets();
    let order = orders.last()?;
    let mut held: BTreeSet<char> = BTreeSet::new();
    let mut reset = false;
    for (i, k) in order.iter().enumerate() {
        held.insert(*k);
        if i + 1 == order.len() {
            break;
        }
        let mut p = pre_path.clone();
        p.push(held.clone());
        if d.out_of(&p).is_some() || top.contains(&held) {
            return None;
        }
        if !top.iter().any(|t| held.is_subset(t)) {
            reset = true;
            break;
        }
    }
    if !reset {
        return None;
    }
    let mut s = expected_entry(&pre_out, smart, Tail::None);
    for k in order {
        if held_mod == Held::AltGr {
            s.push('⌥');
        }
        s.push(*k);
    }
    s.push_str(&tail_text(tail));
    Some(s)
}

/// Outcome that findings/C20-chord-completed-again-in-hold.md predicts for "S completed, part of S
/// released, the released keys pressed again (S complete a second time), then the other keys of L",
/// used ONLY to keep that known class narrow. `rest` = the keys pressed after the partial release.
fn predicted_reactivation_outcome(s_out: &str, l_out: &str, n_s_keys_repressed: usize, rest: &[char], smart: Smart, tail: Tail) -> Option<String> {
    if s_out.is_empty() || l_out.is_empty() || rest.len() <= n_s_keys_repressed {
        return None;
    }
    let auto = |o: &str| smart != Smart::None && !o.is_empty() && !o.ends_with(' ');
    // after the second completion the screen shows S's text (and its smart space) again, the erase
    // counter only knows about the smart space
    let mut screen: Vec<char> = s_out.chars().collect();
    let mut counter: i64 = 0;
    if auto(s_out) {
        screen.push(' ');
        counter += 1;
    }
    let others = &rest[n_s_keys_repressed..];
    for k in &others[..others.len() - 1] {
        screen.push(*k);
        counter += 1;
    }
    let common = s_out.chars().zip(l_out.chars()).take_while(|(a, b)| a == b).count();
    let erase = (counter - common as i64).max(0) as usize;
    for _ in 0..erase {
        screen.pop();
    }
    screen.extend(l_out.chars().skip(common));
    let auto_l = auto(l_out);
    if auto_l {
        screen.push(' ');
    }
    match tail {
        Tail::Dot => {
            if auto_l && smart == Smart::Full {
                screen.pop();
            }
        }
        _ => {}
    }
    let mut t: String = SENTINEL.to_string();
    t.extend(screen.iter());
    t.push_str(&tail_text(tail));
    Some(t)
}

fn perms(keys: &[char], cap: usize, rng: &mut Rng) -> Vec<Vec<char>> {
    fn rec(cur: &mut Vec<char>, rest: &mut Vec<char>, out: &mut Vec<Vec<char>>) {
        if rest.is_empty() {
            out.push(cur.clone());
            return;
        }
        for i in 0..rest.len() {
            let k = rest.remove(i);
            cur.push(k);
            rec(cur, rest, out);
            cur.pop();
            rest.insert(i, k);
        }
    }
    let mut out = vec![];
    rec(&mut vec![], &mut keys.to_vec(), &mut out);
    if out.len() > cap {
        rng.shuffle(&mut out);
        out.truncate(cap);
    }
    out
}

fn config(smart: Smart, deadline: u32) -> String {
    format!("(defcfg process-unmapped-keys yes)\n(defsrc)\n(deflayer base)\n(defzippy dict.txt on-first-press-chord-deadline {deadline} idle-reactivate-time {} smart-space {})\n", deadline, smart.name())
}

fn run(cfg: &str, file: &str, hist: &[Ev], check_mod_at: Option<usize>) -> Result<(Vec<Out>, Option<BTreeSet<String>>), String> {
    let mut fm = FileMap::default();
    fm.insert("dict.txt".to_string(), file.to_string());
    let mut sim = Sim::new_with_files(cfg, fm)?;
    let mut mods_mid = None;
    for (i, e) in hist.iter().enumerate() {
        if Some(i) == check_mod_at {
            mods_mid = Some(sim.os.keys_down.clone());
        }
        sim.apply(e);
    }
    Ok((sim.normalized(), mods_mid))
}

const N_FIXED: u64 = 45;

fn case_dict(ctx: &Ctx, idx: u64) -> (Dict, Rng) {
    if idx < N_FIXED {
        let f = fixed_dicts();
        (f[(idx as usize) % f.len()].clone(), Rng::for_case(0x5eed, "C20", "fixed", idx))
    } else {
        let mut rng = Rng::for_case(ctx.seed, "C20", "case", idx);
        (gen_dict(&mut rng), rng)
    }
}

impl Check for C20Check {
    fn id(&self) -> &'static str {
        "C20"
    }
    fn n_cases(&self, ctx: &Ctx) -> u64 {
        N_FIXED + ctx.tier.sel(5_000, 40_000)
    }
    fn describe(&self, ctx: &Ctx, idx: u64) -> Value {
        let (d, _) = case_dict(ctx, idx);
        json!({"dictionary": d.file()})
    }
    fn run_case(&self, ctx: &Ctx, idx: u64) -> CaseOut {
        let mut out = CaseOut::new();
        let (d, mut rng) = case_dict(ctx, idx);
        let smart = [Smart::None, Smart::AddOnly, Smart::Full][(idx % 3) as usize];
        let deadline = if idx % 2 == 0 { 30 } else { 500 };
        let cfg = config(smart, deadline);
        let file = d.file();
        let km = Keymap::new();
        out.inc("dictionaries");
        {
            let mut fm = FileMap::default();
            fm.insert("dict.txt".to_string(), file.clone());
            if let Err(e) = kanata_parser::cfg::new_from_str(&cfg, fm) {
                out.inc("dictionaries_rejected");
                if ctx.verbose {
                    eprintln!("rejected: {e:?}\n{file}");
                }
                return out;
            }
        }
        out.inc("dictionaries_accepted");
        if ctx.verbose {
            eprintln!("{cfg}--- dict.txt\n{file}");
        }
        let perm_cap = ctx.tier.sel(24, 120);
        for (ei, e) in d.entries.iter().enumerate() {
            let last = e.chords.last().expect("entry has a chord");
            let ps = perms(last, perm_cap, &mut rng);
            for (pi, p) in ps.iter().enumerate() {
                let mut variants: Vec<Held> = vec![Held::None];
                if pi % 2 == 0 {
                    variants.push(Held::LShift);
                }
                if pi % 5 == 1 {
                    variants.push(Held::RShift);
                }
                if pi % 5 == 3 {
                    variants.push(Held::AltGr);
                }
                // both shift keys, in either press order
                match (pi + ei) % 3 {
                    0 => variants.push(if (pi / 3 + ei) % 2 == 0 { Held::BothLR } else { Held::BothRL }),
                    _ => {}
                }
                for held in variants {
                    let mut orders: Vec<Vec<char>> = e.chords[..e.chords.len() - 1]
                        .iter()
                        .map(|c| {
                            let mut c = c.clone();
                            rng.shuffle(&mut c);
                            c
                        })
                        .collect();
                    orders.push(p.clone());
                    let tail = *rng.pick(&[Tail::None, Tail::None, Tail::Letter, Tail::Dot, Tail::LetterDot]);
                    let st = analyse(&d, e, &orders);
                    if st.ambiguous {
                        out.inc("scenarios_skipped_followup_vs_toplevel");
                        continue;
                    }
                    if st.followup_part_not_in_toplevel && (held != Held::None || pi % 2 == 1) {
                        // known finding #18 fails in every such scenario: a sample (no modifier, every
                        // second press order) keeps the class and its ':other-outcome' split observed
                        out.inc("scenarios_not_run_known_18_structure_sampled");
                        continue;
                    }
                    let b = build_entry(&orders, held, tail, &mut rng);
                    out.inc("entry_scenarios");
                    let (trace, mods_mid) = match run(&cfg, &file, &b.hist, Some(b.check_mod_at)) {
                        Ok(x) => x,
                        Err(err) => {
                            out.inconclusive = Some(format!("accepted by the parser, refused by Kanata: {}", err.lines().next().unwrap_or("")));
                            return out;
                        }
                    };
                    let (screen, down_end) = replay(&trace, &km);
                    let got = text(&screen);
                    let shifted = held.shifted();
                    // with shift the exact case is judged too (first character typed under the user's
                    // shift, the rest as configured) unless an earlier text may be re-used
                    let case_judged = shifted && !st.known_structure() && case_exact_judged(st.prev_out(), &e.out);
                    let want = if case_judged { expected_entry(&cap_first(&e.out), smart, tail) } else { expected_entry(&e.out, smart, tail) };
                    let same_nocase = got.to_lowercase() == want.to_lowercase();
                    let same = if shifted && !case_judged { same_nocase } else { got == want };
                    if shifted {
                        out.inc(if case_judged { "shift_scenarios_case_judged" } else { "shift_scenarios_case_not_judged" });
                    }
                    out.count("backspaces_counted", screen.backspaces);
                    out.max("followup_depth", e.chords.len() as u64);
                    out.max("superset_chain", st.chain_len as u64);
                    out.tag(format!("{}:{}:k{}:{:?}:{:?}:{}", st.shape, e.chords.len(), last.len(), held, tail, smart.name()));
                    let _ = ei;
                    let witness = |extra: Value| {
                        json!({"config": cfg, "files": {"dict.txt": file}, "entry": e.line(), "press_orders": orders.iter().map(|o| o.iter().collect::<String>()).collect::<Vec<_>>(), "held_modifier": format!("{held:?}"), "tail": format!("{tail:?}"),
                            "history": render_hist(&b.hist), "observed": {"text": got, "os_stream": trace.iter().map(|o| o.short()).collect::<Vec<_>>()}, "expected": extra})
                    };
                    for (flag, name) in [
                        (st.followup_part_not_in_toplevel, "followup-part-not-in-toplevel-chord"),
                        (st.followup_within_hold, "followup-chord-completed-within-parent-hold"),
                        (st.followup_extends_sibling, "followup-chord-extends-sibling-followup"),
                        (st.empty_node_after_activation, "empty-output-node-extends-activated-chord"),
                        (st.chain_shared_prefix, "superset-chain-shared-prefix"),
                    ] {
                        if flag {
                            out.inc(&format!("structure:{name}:{}", if same { "text-exact" } else { "text-wrong" }));
                        }
                    }
                    if same {
                        out.inc("entries_text_exact");
                        match st.shape {
                            "followup" => out.inc("followup_entries_exact"),
                            "superset-chain" => out.inc("superset_chain_entries_exact"),
                            _ => {}
                        }
                        if shifted {
                            out.inc("entries_with_shift_exact");
                            if case_judged {
                                out.inc("entries_with_shift_case_exact");
                                match held {
                                    Held::RShift => out.inc("entries_with_rsft_alone_case_exact"),
                                    Held::BothLR | Held::BothRL => out.inc("entries_with_both_shifts_case_exact"),
                                    _ => {}
                                }
                            }
                        }
                        if tail != Tail::None {
                            out.inc("entries_with_tail_exact");
                        }
                    } else if case_judged && same_nocase {
                        // right letters, wrong case: what the user's shift key(s) did to the expansion
                        out.violate(format!("C20:wrong-case-with-shift-held:{}:{}", held.name(), st.shape), format!("after completing the entry {:?} (press order {:?}) with {} held the application shows {:?} instead of {:?} (first character under shift, the rest as configured)", e.line(), orders.last().map(|o| o.iter().collect::<String>()).unwrap_or_default(), held.name(), got, want), witness(json!({"text": want, "case_insensitive": false})));
                    } else {
                        let class = if st.followup_part_not_in_toplevel {
                            // the known class covers only the outcome the defect produces (zippy resets,
                            // the chord's keys appear literally); anything else in the same structure is new
                            match predicted_reset_outcome(&d, e, &orders, held, smart, tail) {
                                Some(p) if (shifted && p.to_lowercase() == got.to_lowercase()) || p == got => {
                                    out.inc("known_18_outcome_as_predicted");
                                    "followup-part-not-in-toplevel-chord"
                                }
                                Some(_) => "followup-part-not-in-toplevel-chord:other-outcome",
                                None => {
                                    out.inc("known_18_outcome_not_predictable");
                                    "followup-part-not-in-toplevel-chord"
                                }
                            }
                        } else if st.followup_within_hold {
                            "followup-chord-completed-within-parent-hold"
                        } else if st.followup_extends_sibling {
                            "followup-chord-extends-sibling-followup"
                        } else if st.empty_node_after_activation {
                            "empty-output-node-extends-activated-chord"
                        } else if st.chain_shared_prefix {
                            "superset-chain-shared-prefix"
                        } else {
                            st.shape
                        };
                        out.violate(format!("C20:wrong-text:{class}"), format!("after completing the entry {:?} (press order {:?}, {:?} held, smart-space {}) the application shows {:?} instead of {:?}", e.line(), orders.last().map(|o| o.iter().collect::<String>()).unwrap_or_default(), held, smart.name(), got, want), witness(json!({"text": want, "case_insensitive": shifted && !case_judged})));
                    }
                    // modifiers: while the user still holds the modifier it must be down, afterwards everything is up
                    let mid = mods_mid.unwrap_or_default();
                    let mut mid_mods: Vec<String> = mid.iter().filter(|k| matches!(k.as_str(), "LShift" | "RShift" | "RAlt")).cloned().collect();
                    mid_mods.sort();
                    let want_mid: Vec<String> = held.os_names();
                    let mid_ok = mid_mods == want_mid;
                    if !mid_ok && same {
                        out.violate("C20:modifier-not-restored", format!("after the expansion the OS has {mid_mods:?} down while the user holds {want_mid:?}"), witness(json!({"modifiers_down_after_expansion": want_mid})));
                    } else if !down_end.is_empty() && same {
                        out.violate("C20:keys-left-down", format!("after everything was released the OS still has {down_end:?} down"), witness(json!({"keys_down_at_end": []})));
                    } else if same {
                        out.inc("modifier_state_restored");
                        if matches!(held, Held::BothLR | Held::BothRL) {
                            out.inc("both_shifts_restored");
                        }
                    }
                }
            }
        }
        // ---- typing that forms no chord passes through unchanged
        let sets: Vec<BTreeSet<char>> = d.entries.iter().flat_map(|e| e.path()).collect();
        let single_key_chords: BTreeSet<char> = sets.iter().filter(|s| s.len() == 1).flat_map(|s| s.iter().copied()).collect();
        for _ in 0..ctx.tier.sel(4, 8) {
            let mut h = vec![Ev::T(3)];
            let mut want = String::from(SENTINEL);
            let n = 3 + rng.usize(8);
            let mut shift = false;
            for _ in 0..n {
                let c = match rng.below(10) {
                    0..=4 => *rng.pick(&POOL),
                    5 | 6 => *rng.pick(&FOREIGN),
                    7 => ' ',
                    8 => *rng.pick(&['.', ',', ';']),
                    _ => *rng.pick(&FPOOL),
                };
                if single_key_chords.contains(&c) {
                    continue;
                }
                if rng.chance(1, 6) {
                    h.push(if shift { Ev::R(osc("lsft")) } else { Ev::P(osc("lsft")) });
                    shift = !shift;
                    h.push(Ev::T(2));
                }
                // rolled pair of two keys that are together not part of any chord
                let partner = *rng.pick(&POOL);
                let pair: BTreeSet<char> = [c, partner].into_iter().collect();
                let can_roll = c.is_ascii_lowercase() && partner != c && !single_key_chords.contains(&partner) && !sets.iter().any(|s| pair.is_subset(s) || s.is_subset(&pair));
                let up = |c: char| if shift { c.to_ascii_uppercase() } else { c };
                if can_roll && rng.chance(1, 3) {
                    h.extend([Ev::P(osc(&keyname(c))), Ev::T(2), Ev::P(osc(&keyname(partner))), Ev::T(2), Ev::R(osc(&keyname(c))), Ev::T(1), Ev::R(osc(&keyname(partner))), Ev::T(*rng.pick(&[2u32, 40]))]);
                    want.push(up(c));
                    want.push(up(partner));
                } else {
                    h.extend([Ev::P(osc(&keyname(c))), Ev::T(*rng.pick(&[1u32, 3, 6])), Ev::R(osc(&keyname(c))), Ev::T(*rng.pick(&[1u32, 3, 40]))]);
                    want.push(up(c));
                }
            }
            if shift {
                h.push(Ev::R(osc("lsft")));
            }
            h.push(Ev::T(10));
            out.inc("passthrough_scenarios");
            match run(&cfg, &file, &h, None) {
                Ok((trace, _)) => {
                    let (screen, down_end) = replay(&trace, &km);
                    let got = text(&screen);
                    if got != want || screen.backspaces > 0 {
                        out.violate("C20:passthrough-altered", format!("typing that forms no chord shows {got:?} instead of {want:?}"), json!({"config": cfg, "files": {"dict.txt": file}, "history": render_hist(&h), "observed": {"text": got, "os_stream": trace.iter().map(|o| o.short()).collect::<Vec<_>>()}, "expected": {"text": want, "backspaces": 0}}));
                    } else if !down_end.is_empty() {
                        out.violate("C20:keys-left-down", format!("after everything was released the OS still has {down_end:?} down"), json!({"config": cfg, "files": {"dict.txt": file}, "history": render_hist(&h), "observed": {"keys_down": down_end}, "expected": {"keys_down": []}}));
                    } else {
                        out.inc("passthrough_unchanged");
                    }
                }
                Err(err) => out.inconclusive = Some(format!("accepted by the parser, refused by Kanata: {}", err.lines().next().unwrap_or(""))),
            }
        }
        // ---- too slow: the second key arrives after the deadline, nothing activates
        if let Some(e) = d.entries.iter().find(|e| e.chords.len() == 1 && e.chords[0].len() == 2) {
            let (a, b) = (e.chords[0][0], e.chords[0][1]);
            let solo = |k: char| sets.iter().any(|s| s.len() == 1 && s.contains(&k));
            if !solo(a) && !solo(b) {
                let h = vec![Ev::T(3), Ev::P(osc(&keyname(a))), Ev::T(deadline + 5), Ev::P(osc(&keyname(b))), Ev::T(5), Ev::R(osc(&keyname(a))), Ev::R(osc(&keyname(b))), Ev::T(10)];
                out.inc("too_slow_scenarios");
                if let Ok((trace, _)) = run(&cfg, &file, &h, None) {
                    let (screen, _) = replay(&trace, &km);
                    let got = text(&screen);
                    let want = format!("{SENTINEL}{a}{b}");
                    if got != want {
                        out.violate("C20:activated-after-deadline", format!("keys pressed {} ms apart with a deadline of {deadline} show {got:?} instead of {want:?}", deadline + 5), json!({"config": cfg, "files": {"dict.txt": file}, "history": render_hist(&h), "observed": {"text": got}, "expected": {"text": want}}));
                    } else {
                        out.inc("too_slow_passed_through");
                    }
                }
            }
        }
        // ---- an activation restarts the deadline ("If, after the first press, a chord activates, this
        // deadline will reset to enable further chord activations"): a chord F is completed quickly, the
        // keys that extend it to the entry E follow deadline-5 ms after F's activation (more than the
        // deadline after the very first press) -> E; deadline+5 ms -> zippy is disabled, the keys pass through
        for e in d.entries.iter() {
            let last: BTreeSet<char> = e.chords.last().expect("chord").iter().copied().collect();
            let pre = &e.path()[..e.chords.len() - 1];
            let subs: Vec<&Entry> = d
                .entries
                .iter()
                .filter(|f| f.chords.len() == e.chords.len() && f.path()[..f.chords.len() - 1] == *pre && {
                    let fs: BTreeSet<char> = f.chords.last().expect("chord").iter().copied().collect();
                    fs.len() >= 2 && fs.is_subset(&last) && fs != last
                })
                .collect();
            if subs.is_empty() {
                continue;
            }
            let f = *rng.pick(&subs);
            let mut first: Vec<char> = f.chords.last().expect("chord").clone();
            rng.shuffle(&mut first);
            let mut rest: Vec<char> = last.iter().copied().filter(|k| !first.contains(k)).collect();
            rng.shuffle(&mut rest);
            let mut orders: Vec<Vec<char>> = e.chords[..e.chords.len() - 1]
                .iter()
                .map(|c| {
                    let mut c = c.clone();
                    rng.shuffle(&mut c);
                    c
                })
                .collect();
            let mut full = first.clone();
            full.extend(rest.iter().copied());
            orders.push(full);
            let st = analyse(&d, e, &orders);
            if st.ambiguous {
                continue;
            }
            // within: the last extending key arrives deadline-3 ms after the activation of the smaller chord,
            // i.e. more than the deadline after the very first press
            for (gap, within) in [(deadline - 3 - (rest.len() as u32 - 1), true), (deadline + 5, false)] {
                let b = build_entry_timed(&orders, Held::None, Tail::None, &mut rng, Some((first.len(), gap)), None);
                let Ok((trace, _)) = run(&cfg, &file, &b.hist, None) else { continue };
                let (screen, _) = replay(&trace, &km);
                let got = text(&screen);
                let want_e = expected_entry(&e.out, smart, Tail::None);
                let mut want_f = expected_entry(&f.out, smart, Tail::None);
                want_f.extend(rest.iter());
                let want = if within { &want_e } else { &want_f };
                out.inc("deadline_restart_scenarios");
                let known_class = if st.followup_part_not_in_toplevel {
                    Some("followup-part-not-in-toplevel-chord")
                } else if st.followup_within_hold {
                    Some("followup-chord-completed-within-parent-hold")
                } else if st.followup_extends_sibling {
                    Some("followup-chord-extends-sibling-followup")
                } else if st.empty_node_after_activation {
                    Some("empty-output-node-extends-activated-chord")
                } else if st.chain_shared_prefix {
                    Some("superset-chain-shared-prefix")
                } else {
                    None
                };
                if got == *want {
                    out.inc(if within { "extended_within_restarted_deadline_exact" } else { "extension_after_deadline_passed_through" });
                } else {
                    let w = json!({"config": cfg, "files": {"dict.txt": file}, "entry": e.line(), "sub_entry": f.line(), "press_orders": orders.iter().map(|o| o.iter().collect::<String>()).collect::<Vec<_>>(), "pause_after_sub_entry_ms": gap, "deadline": deadline,
                        "history": render_hist(&b.hist), "observed": {"text": got, "os_stream": trace.iter().map(|o| o.short()).collect::<Vec<_>>()}, "expected": {"text": want}});
                    let sig = match (known_class, within) {
                        (Some(c), _) => format!("C20:wrong-text:{c}"),
                        (None, true) => "C20:deadline-not-restarted-by-activation".to_string(),
                        (None, false) if got == want_e => "C20:activated-after-deadline".to_string(),
                        (None, false) => "C20:wrong-text:extension-after-deadline".to_string(),
                    };
                    out.violate(sig, format!("{:?} completed, then the keys extending it to {:?} {gap} ms later (deadline {deadline}): the application shows {got:?} instead of {want:?}", f.line(), e.line()), w);
                }
            }
        }
        // ---- a long pause between the chords of a line does not lose the follow-up
        for e in d.entries.iter().filter(|e| e.chords.len() >= 2) {
            let orders: Vec<Vec<char>> = e
                .chords
                .iter()
                .map(|c| {
                    let mut c = c.clone();
                    rng.shuffle(&mut c);
                    c
                })
                .collect();
            let st = analyse(&d, e, &orders);
            if st.ambiguous || st.followup_part_not_in_toplevel || st.followup_within_hold || st.followup_extends_sibling || st.empty_node_after_activation || st.chain_shared_prefix {
                continue;
            }
            let b = build_entry_timed(&orders, Held::None, Tail::None, &mut rng, None, Some(deadline + 20));
            let Ok((trace, _)) = run(&cfg, &file, &b.hist, None) else { continue };
            let (screen, _) = replay(&trace, &km);
            let got = text(&screen);
            let want = expected_entry(&e.out, smart, Tail::None);
            out.inc("slow_followup_scenarios");
            if got == want {
                out.inc("slow_followup_exact");
            } else {
                out.violate("C20:wrong-text:followup-after-pause", format!("chords of {:?} typed {} ms apart: the application shows {got:?} instead of {want:?}", e.line(), deadline + 20), json!({"config": cfg, "files": {"dict.txt": file}, "entry": e.line(), "history": render_hist(&b.hist), "observed": {"text": got}, "expected": {"text": want}}));
            }
        }

        // ---- a top-level chord typed right after another line was completed and fully released: the
        // earlier line stays on screen and the chord expands as if typed alone, also when its keys are at
        // the same time a strict part of a follow-up chord that is still pending ("dy abc" pending, "ab" typed)
        {
            let tops: Vec<&Entry> = d.entries.iter().filter(|e| e.chords.len() == 1 && e.chords[0].len() >= 2).collect();
            let mut with_fups: Vec<&Entry> = vec![];
            let mut without: Vec<&Entry> = vec![];
            for e in d.entries.iter() {
                let pl = e.chords.len();
                let ep = e.path();
                if d.entries.iter().any(|x| x.chords.len() > pl && x.path()[..pl] == ep[..]) {
                    with_fups.push(e);
                } else {
                    without.push(e);
                }
            }
            let mut parents = with_fups.clone();
            if !without.is_empty() {
                parents.push(*rng.pick(&without));
            }
            let tcap = ctx.tier.sel(4, 12);
            for parent in parents {
                let pl = parent.chords.len();
                let pp = parent.path();
                let fups: Vec<BTreeSet<char>> = d.entries.iter().filter(|x| x.chords.len() > pl && x.path()[..pl] == pp[..]).map(|x| x.path()[pl].clone()).collect();
                let porders: Vec<Vec<char>> = parent
                    .chords
                    .iter()
                    .map(|c| {
                        let mut c = c.clone();
                        rng.shuffle(&mut c);
                        c
                    })
                    .collect();
                let pst = analyse(&d, parent, &porders);
                if pst.ambiguous || pst.followup_part_not_in_toplevel || pst.followup_within_hold || pst.followup_extends_sibling || pst.empty_node_after_activation || pst.chain_shared_prefix {
                    continue;
                }
                for t in tops.iter() {
                    let tset: BTreeSet<char> = t.chords[0].iter().copied().collect();
                    let part_of_pending = fups.iter().any(|f| tset.is_subset(f) && tset != *f);
                    for order in perms(&t.chords[0], tcap, &mut rng) {
                        // the keys of the chord must not complete a follow-up chord of the earlier line on the
                        // way (then the follow-up is meant), and typing the chord alone must be free of the
                        // known structures
                        let evs: Vec<(bool, char)> = order.iter().map(|k| (true, *k)).collect();
                        let w = walk_hold(&d, &evs);
                        let mut hs: BTreeSet<char> = BTreeSet::new();
                        let hits_followup = order.iter().any(|k| {
                            hs.insert(*k);
                            fups.contains(&hs)
                        });
                        if hits_followup {
                            out.inc("after_line_skipped_keys_complete_a_followup");
                            continue;
                        }
                        if w.followup_within_hold || w.empty_node_after_activation || w.chain_shared_prefix() {
                            out.inc("after_line_skipped_known_structure");
                            continue;
                        }
                        let held = if rng.chance(1, 4) { pick_shift(&mut rng) } else { Held::None };
                        let tail = *rng.pick(&[Tail::None, Tail::None, Tail::Letter, Tail::Dot]);
                        let pause = *rng.pick(&[3u32, 8, deadline + 20]);
                        let pb = build_entry_timed(&porders, Held::None, Tail::None, &mut rng, None, None);
                        let mut h = pb.hist.clone();
                        h.push(Ev::T(pause));
                        held.push_press(&mut h, &mut rng);
                        push_presses(&mut h, &order, &[1, 1, 2, 3], &mut rng);
                        h.push(Ev::T(*rng.pick(&[2u32, 5, 8])));
                        push_releases(&mut h, &order, &[0, 1, 2], &mut rng);
                        h.push(Ev::T(4));
                        let mod_at = h.len();
                        held.push_release(&mut h, &mut rng);
                        h.push(Ev::T(2));
                        push_tail(&mut h, tail);
                        h.push(Ev::T(10));
                        let Ok((trace, mods_mid)) = run(&cfg, &file, &h, Some(mod_at)) else { continue };
                        let (screen, down_end) = replay(&trace, &km);
                        let got = text(&screen);
                        let case_judged = held.shifted() && case_exact_judged(w.prev_out(), &t.out);
                        let first = expected_entry(&parent.out, smart, Tail::None);
                        let second = if case_judged { expected_entry(&cap_first(&t.out), smart, tail) } else { expected_entry(&t.out, smart, tail) };
                        let want = format!("{first}{}", &second[SENTINEL.len()..]);
                        let same_nocase = got.to_lowercase() == want.to_lowercase();
                        let same = if held.shifted() && !case_judged { same_nocase } else { got == want };
                        let mid_mods = mods_down(&mods_mid.unwrap_or_default());
                        let mods_ok = mid_mods == held.os_names();
                        out.inc("after_line_scenarios");
                        out.tag(format!("after-line:{}:{}:k{}:{:?}:{:?}:{}", pl, if part_of_pending { "part-of-pending-followup" } else if fups.is_empty() { "nothing-pending" } else { "unrelated-to-pending" }, order.len(), held, tail, smart.name()));
                        if same && down_end.is_empty() && mods_ok {
                            out.inc("toplevel_chord_after_line_exact");
                            if case_judged {
                                out.inc("other_families_with_shift_case_exact");
                                if matches!(held, Held::BothLR | Held::BothRL) {
                                    out.inc("other_families_with_both_shifts_case_exact");
                                }
                            }
                            if !fups.is_empty() {
                                out.inc("toplevel_chord_after_line_with_pending_followups_exact");
                            }
                            if part_of_pending {
                                out.inc("toplevel_chord_part_of_pending_followup_exact");
                            }
                        } else {
                            let w = json!({"config": cfg, "files": {"dict.txt": file}, "earlier_line": parent.line(), "entry": t.line(), "pending_followup_chords": fups.iter().map(|f| f.iter().collect::<String>()).collect::<Vec<_>>(), "press_order": order.iter().collect::<String>(), "held_modifier": format!("{held:?}"),
                                "history": render_hist(&h), "observed": {"text": got, "keys_down_at_end": down_end, "modifiers_down_before_their_release": mid_mods, "os_stream": trace.iter().map(|o| o.short()).collect::<Vec<_>>()}, "expected": {"text": want, "case_insensitive": held.shifted() && !case_judged, "keys_down_at_end": [], "modifiers_down_before_their_release": held.os_names()}});
                            let case_sig = format!("C20:wrong-case-with-shift-held:{}:toplevel-chord-after-line", held.name());
                            let sig = if !same && case_judged && same_nocase {
                                case_sig.as_str()
                            } else if !same {
                                if part_of_pending {
                                    "C20:wrong-text:toplevel-chord-after-line:part-of-pending-followup"
                                } else if !fups.is_empty() {
                                    "C20:wrong-text:toplevel-chord-after-line:followups-pending"
                                } else {
                                    "C20:wrong-text:toplevel-chord-after-line"
                                }
                            } else if !mods_ok {
                                "C20:modifier-not-restored"
                            } else {
                                "C20:keys-left-down"
                            };
                            out.violate(sig, format!("{:?} completed and released, then the chord {:?} (press order {:?}, {:?} held, smart-space {}): the application shows {got:?} instead of {want:?}", parent.line(), t.line(), order.iter().collect::<String>(), held, smart.name()), w);
                        }
                    }
                }
            }
        }
        // ---- a chord activates, SOME of its keys are released, then the keys of a longer chord that
        // contains it are completed within the same hold: only the longer chord's expansion remains
        {
            let tops: Vec<&Entry> = d.entries.iter().filter(|e| e.chords.len() == 1).collect();
            let draws = ctx.tier.sel(6, 16);
            for s_e in tops.iter().filter(|e| e.chords[0].len() >= 2) {
                let sset: BTreeSet<char> = s_e.chords[0].iter().copied().collect();
                for l_e in tops.iter() {
                    let lset: BTreeSet<char> = l_e.chords[0].iter().copied().collect();
                    if !(sset.is_subset(&lset) && sset != lset) {
                        continue;
                    }
                    let mut seen: BTreeSet<String> = BTreeSet::new();
                    for _ in 0..draws {
                        let mut first = s_e.chords[0].clone();
                        rng.shuffle(&mut first);
                        let nrel = 1 + rng.usize(first.len() - 1);
                        let rel: Vec<char> = rng.subset(first.len(), nrel).into_iter().map(|i| first[i]).collect();
                        let mut rest: Vec<char> = lset.iter().copied().filter(|k| !sset.contains(k) || rel.contains(k)).collect();
                        rng.shuffle(&mut rest);
                        let key = format!("{}|{}|{}", first.iter().collect::<String>(), { let mut r = rel.clone(); r.sort(); r.iter().collect::<String>() }, rest.iter().collect::<String>());
                        if !seen.insert(key) {
                            continue;
                        }
                        let mut evs: Vec<(bool, char)> = first.iter().map(|k| (true, *k)).collect();
                        evs.extend(rel.iter().map(|k| (false, *k)));
                        evs.extend(rest.iter().map(|k| (true, *k)));
                        let w = walk_hold(&d, &evs);
                        let rest_after = rest.clone();
                        if w.followup_within_hold || w.empty_node_after_activation {
                            out.inc("partial_release_skipped_known_structure");
                            continue;
                        }
                        let held = if rng.chance(1, 4) { pick_shift(&mut rng) } else { Held::None };
                        let tail = *rng.pick(&[Tail::None, Tail::None, Tail::Letter, Tail::Dot]);
                        let mut h = vec![Ev::T(3)];
                        held.push_press(&mut h, &mut rng);
                        push_presses(&mut h, &first, &[1, 2], &mut rng);
                        h.push(Ev::T(*rng.pick(&[2u32, 4])));
                        let mut r2 = rel.clone();
                        rng.shuffle(&mut r2);
                        for k in &r2 {
                            h.push(Ev::R(osc(&keyname(*k))));
                            h.push(Ev::T(*rng.pick(&[0u32, 1])));
                        }
                        h.push(Ev::T(*rng.pick(&[1u32, 3])));
                        push_presses(&mut h, &rest, &[1, 2], &mut rng);
                        h.push(Ev::T(*rng.pick(&[2u32, 5, 8])));
                        let all: Vec<char> = lset.iter().copied().collect();
                        push_releases(&mut h, &all, &[0, 1, 2], &mut rng);
                        h.push(Ev::T(4));
                        let mod_at = h.len();
                        held.push_release(&mut h, &mut rng);
                        h.push(Ev::T(2));
                        push_tail(&mut h, tail);
                        h.push(Ev::T(10));
                        let Ok((trace, mods_mid)) = run(&cfg, &file, &h, Some(mod_at)) else { continue };
                        let (screen, down_end) = replay(&trace, &km);
                        let got = text(&screen);
                        let case_judged = held.shifted() && case_exact_judged(w.prev_out(), &l_e.out);
                        let want = if case_judged { expected_entry(&cap_first(&l_e.out), smart, tail) } else { expected_entry(&l_e.out, smart, tail) };
                        let same_nocase = got.to_lowercase() == want.to_lowercase();
                        let same = if held.shifted() && !case_judged { same_nocase } else { got == want };
                        let mid_mods = mods_down(&mods_mid.unwrap_or_default());
                        let mods_ok = mid_mods == held.os_names();
                        out.inc("partial_release_scenarios");
                        let shape = if w.reactivation {
                            "chord-completed-again"
                        } else if w.chain_shared_prefix() {
                            "chain-shared-prefix"
                        } else if w.chain.len() > 2 {
                            "via-intermediate-chord"
                        } else {
                            "direct"
                        };
                        out.tag(format!("partial-release:{shape}:k{}:k{}:rel{}:{:?}:{:?}:{}", sset.len(), lset.len(), rel.len(), held, tail, smart.name()));
                        out.inc(&format!("structure:partial-release:{shape}:{}", if same { "text-exact" } else { "text-wrong" }));
                        if same && down_end.is_empty() && mods_ok {
                            out.inc("longer_chord_after_partial_release_exact");
                            if case_judged {
                                out.inc("other_families_with_shift_case_exact");
                                if matches!(held, Held::BothLR | Held::BothRL) {
                                    out.inc("other_families_with_both_shifts_case_exact");
                                }
                            }
                            if lset.len() >= sset.len() + 2 && w.chain.len() == 2 {
                                out.inc("longer_chord_two_keys_apart_after_partial_release_exact");
                            }
                        } else {
                            let wj = json!({"config": cfg, "files": {"dict.txt": file}, "shorter_entry": s_e.line(), "entry": l_e.line(), "press_order": first.iter().collect::<String>(), "released": r2.iter().collect::<String>(), "then_pressed": rest.iter().collect::<String>(), "held_modifier": format!("{held:?}"),
                                "completed_on_the_way": w.chain, "history": render_hist(&h), "observed": {"text": got, "keys_down_at_end": down_end, "modifiers_down_before_their_release": mid_mods, "os_stream": trace.iter().map(|o| o.short()).collect::<Vec<_>>()}, "expected": {"text": want, "case_insensitive": held.shifted() && !case_judged, "keys_down_at_end": [], "modifiers_down_before_their_release": held.os_names()}});
                            let mut shape = shape.to_string();
                            let case_only = !same && case_judged && same_nocase;
                            if w.reactivation && !same && !case_only {
                                // the known class covers only the outcome that defect produces
                                let pred = if w.chain.len() == 3 { predicted_reactivation_outcome(&s_e.out, &l_e.out, rel.len(), &rest_after, smart, tail) } else { None };
                                match pred {
                                    Some(p) if (held.shifted() && p.to_lowercase() == got.to_lowercase()) || p == got => out.inc("known_reactivation_outcome_as_predicted"),
                                    Some(_) => shape.push_str(":other-outcome"),
                                    None => out.inc("known_reactivation_outcome_not_predictable"),
                                }
                            }
                            let sig = if case_only {
                                format!("C20:wrong-case-with-shift-held:{}:longer-chord-after-partial-release", held.name())
                            } else if !same {
                                format!("C20:wrong-text:longer-chord-after-partial-release:{shape}")
                            } else if !mods_ok {
                                "C20:modifier-not-restored".to_string()
                            } else {
                                "C20:keys-left-down".to_string()
                            };
                            out.violate(sig, format!("{:?} completed ({:?}), {:?} released, then {:?} pressed so that all keys of {:?} are held ({:?} held, smart-space {}): the application shows {got:?} instead of {want:?}", s_e.line(), first.iter().collect::<String>(), r2.iter().collect::<String>(), rest.iter().collect::<String>(), l_e.line(), held, smart.name()), wj);
                        }
                    }
                }
            }
        }
        // ---- ordinary typing between a line that has follow-up lines and a later follow-up chord: the line
        // is completed and fully released, the user types something that forms no chord (or a different
        // chord), waits, and then presses the keys of a follow-up chord of that line. A follow-up continues
        // the expansion it directly follows; after other typing it would have to erase text the user typed,
        // so everything typed in between stays and the keys are what they are on their own (plain typing, or
        // a top-level chord of their own).
        {
            let top = d.toplevel_sets();
            let part_keys: Vec<char> = {
                let mut v: BTreeSet<char> = BTreeSet::new();
                for t in top.iter().filter(|t| t.len() >= 2) {
                    v.extend(t.iter().copied());
                }
                v.into_iter().filter(|k| !top.iter().any(|t| t.len() == 1 && t.contains(k))).collect()
            };
            let tops: Vec<&Entry> = d.entries.iter().filter(|e| e.chords.len() == 1 && e.chords[0].len() >= 2).collect();
            // keys that occur in no chord of the dictionary at all (the fixed dictionaries use some of FOREIGN)
            let foreign: Vec<char> = FOREIGN.iter().copied().filter(|k| !sets.iter().any(|x| x.contains(k))).collect();
            let fcap = ctx.tier.sel(3, 6);
            for parent in d.entries.iter() {
                let pl = parent.chords.len();
                let pp = parent.path();
                let mut fups: Vec<BTreeSet<char>> = d.entries.iter().filter(|x| x.chords.len() > pl && x.path()[..pl] == pp[..]).map(|x| x.path()[pl].clone()).collect();
                fups.sort();
                fups.dedup();
                if fups.is_empty() {
                    continue;
                }
                let porders: Vec<Vec<char>> = parent
                    .chords
                    .iter()
                    .map(|c| {
                        let mut c = c.clone();
                        rng.shuffle(&mut c);
                        c
                    })
                    .collect();
                let pst = analyse(&d, parent, &porders);
                if pst.ambiguous || pst.known_structure() {
                    continue;
                }
                let mut fsel = fups.clone();
                rng.shuffle(&mut fsel);
                fsel.truncate(fcap);
                for f in fsel.iter() {
                    for kind in ["lone-tap-of-chord-part", "foreign-key-tap", "several-taps", "space", "punctuation", "rolled-pair", "other-chord"] {
                        let idle = deadline; // idle-reactivate-time is configured equal to the deadline
                        let after_idle = !rng.chance(1, 4);
                        let wait = if after_idle { idle + 20 } else { 6 };
                        let mut iv: Vec<Ev> = vec![];
                        let mut typed = String::new();
                        let mut erases_smart_space = false;
                        let mut t_fups: Vec<BTreeSet<char>> = vec![];
                        let mut detail = String::new();
                        let tap = |iv: &mut Vec<Ev>, k: char, hold: u32, after: u32| {
                            iv.push(Ev::P(osc(&keyname(k))));
                            iv.push(Ev::T(hold));
                            iv.push(Ev::R(osc(&keyname(k))));
                            iv.push(Ev::T(after));
                        };
                        let single_fup = |k: char| fups.iter().any(|x| x.len() == 1 && x.contains(&k));
                        match kind {
                            "lone-tap-of-chord-part" => {
                                let cands: Vec<char> = part_keys.iter().copied().filter(|k| !single_fup(*k)).collect();
                                if cands.is_empty() {
                                    continue;
                                }
                                let k = *rng.pick(&cands);
                                let hold = *rng.pick(&[2u32, 2, 5, deadline + 10]);
                                tap(&mut iv, k, hold, 2);
                                typed.push(k);
                                detail = format!("{k}");
                            }
                            "foreign-key-tap" => {
                                if foreign.is_empty() {
                                    continue;
                                }
                                let k = *rng.pick(&foreign);
                                tap(&mut iv, k, *rng.pick(&[2u32, 5]), 2);
                                typed.push(k);
                                detail = format!("{k}");
                            }
                            "several-taps" => {
                                let mut cands: Vec<char> = part_keys.iter().copied().filter(|k| !single_fup(*k)).collect();
                                cands.extend_from_slice(&foreign);
                                if cands.is_empty() {
                                    continue;
                                }
                                for _ in 0..2 + rng.usize(3) {
                                    let k = *rng.pick(&cands);
                                    tap(&mut iv, k, *rng.pick(&[1u32, 3, 6]), *rng.pick(&[1u32, 3, 40]));
                                    typed.push(k);
                                }
                                detail = typed.clone();
                            }
                            "space" => {
                                tap(&mut iv, ' ', 3, 2);
                                typed.push(' ');
                            }
                            "punctuation" => {
                                let k = *rng.pick(&['.', ',', ';']);
                                tap(&mut iv, k, 3, 2);
                                typed.push(k);
                                erases_smart_space = smart == Smart::Full;
                            }
                            "rolled-pair" => {
                                let mut found = None;
                                for _ in 0..8 {
                                    let a = *rng.pick(&POOL);
                                    let b = *rng.pick(&POOL);
                                    let pair: BTreeSet<char> = [a, b].into_iter().collect();
                                    if a != b && !sets.iter().any(|x| pair.is_subset(x) || x.is_subset(&pair)) {
                                        found = Some((a, b));
                                        break;
                                    }
                                }
                                let Some((a, b)) = found else { continue };
                                iv.extend([Ev::P(osc(&keyname(a))), Ev::T(2), Ev::P(osc(&keyname(b))), Ev::T(2), Ev::R(osc(&keyname(a))), Ev::T(1), Ev::R(osc(&keyname(b))), Ev::T(2)]);
                                typed.push(a);
                                typed.push(b);
                                detail = typed.clone();
                            }
                            _ => {
                                // a different top-level chord, typed on its own
                                if tops.is_empty() {
                                    continue;
                                }
                                let t = *rng.pick(&tops);
                                let tp = t.path();
                                if tp[..] == pp[..1] {
                                    continue;
                                }
                                let mut order = t.chords[0].clone();
                                rng.shuffle(&mut order);
                                let evs: Vec<(bool, char)> = order.iter().map(|k| (true, *k)).collect();
                                let w = walk_hold(&d, &evs);
                                let mut hs: BTreeSet<char> = BTreeSet::new();
                                let hits_followup = order.iter().any(|k| {
                                    hs.insert(*k);
                                    fups.contains(&hs)
                                });
                                if hits_followup || w.chain.len() != 1 || w.followup_within_hold || w.empty_node_after_activation || t.out.is_empty() {
                                    continue;
                                }
                                t_fups = d.entries.iter().filter(|x| x.chords.len() > 1 && x.path()[..1] == tp[..]).map(|x| x.path()[1].clone()).collect();
                                push_presses(&mut iv, &order, &[1, 2, 3], &mut rng);
                                iv.push(Ev::T(3));
                                push_releases(&mut iv, &order, &[0, 1, 2], &mut rng);
                                iv.push(Ev::T(2));
                                typed.push_str(&expected_entry(&t.out, smart, Tail::None)[SENTINEL.len()..]);
                                detail = t.line();
                            }
                        }
                        // the follow-up chord's keys, and what they are on their own
                        let mut forder: Vec<char> = f.iter().copied().collect();
                        rng.shuffle(&mut forder);
                        let fevs: Vec<(bool, char)> = forder.iter().map(|k| (true, *k)).collect();
                        let fw = walk_hold(&d, &fevs);
                        let mut hs: BTreeSet<char> = BTreeSet::new();
                        let hits_other_followup = forder.iter().any(|k| {
                            hs.insert(*k);
                            t_fups.contains(&hs)
                        });
                        if hits_other_followup {
                            out.inc("followup_after_typing_skipped_keys_follow_the_other_chord");
                            continue;
                        }
                        let own: String = if fw.chain.is_empty() {
                            forder.iter().collect()
                        } else if after_idle && fw.chain.len() == 1 && fw.chain_sets[0] == *f && !fw.chain[0].is_empty() && !fw.followup_within_hold {
                            expected_entry(&fw.chain[0], smart, Tail::None)[SENTINEL.len()..].to_string()
                        } else {
                            out.inc("followup_after_typing_skipped_keys_touch_toplevel_chords");
                            continue;
                        };
                        let own_is_chord = !fw.chain.is_empty();
                        let pb = build_entry_timed(&porders, Held::None, Tail::None, &mut rng, None, None);
                        let mut h = pb.hist.clone();
                        h.push(Ev::T(*rng.pick(&[0u32, 5, deadline + 20])));
                        h.extend(iv.iter().cloned());
                        h.push(Ev::T(wait));
                        push_presses(&mut h, &forder, &[1, 2, 3], &mut rng);
                        h.push(Ev::T(*rng.pick(&[2u32, 5])));
                        push_releases(&mut h, &forder, &[0, 1, 2], &mut rng);
                        h.push(Ev::T(10));
                        let Ok((trace, _)) = run(&cfg, &file, &h, None) else { continue };
                        let (screen, down_end) = replay(&trace, &km);
                        let got = text(&screen);
                        let mut want = expected_entry(&parent.out, smart, Tail::None);
                        if erases_smart_space && want.ends_with(' ') && !parent.out.ends_with(' ') {
                            want.pop();
                        }
                        want.push_str(&typed);
                        want.push_str(&own);
                        out.inc("followup_after_typing_scenarios");
                        let when = if after_idle { "after-idle" } else { "before-idle" };
                        out.tag(format!("followup-after-typing:{kind}:{when}:{}:k{}:{}:{}", pl, f.len(), if own_is_chord { "own-chord" } else { "plain" }, smart.name()));
                        if got == want && down_end.is_empty() {
                            out.inc("followup_after_typing_exact");
                            out.inc(&format!("followup_after_typing_exact:{kind}:{when}"));
                        } else {
                            let wj = json!({"config": cfg, "files": {"dict.txt": file}, "earlier_line": parent.line(), "followup_chord": f.iter().collect::<String>(), "typed_in_between": {"kind": kind, "what": detail, "text": typed}, "pause_before_followup_keys_ms": wait, "press_order": forder.iter().collect::<String>(),
                                "history": render_hist(&h), "observed": {"text": got, "keys_down_at_end": down_end, "backspaces": screen.backspaces, "os_stream": trace.iter().map(|o| o.short()).collect::<Vec<_>>()}, "expected": {"text": want, "keys_down_at_end": []}});
                            let sig = if got != want { format!("C20:wrong-text:followup-chord-after-typing:{kind}") } else { "C20:keys-left-down".to_string() };
                            out.violate(sig, format!("{:?} completed and released, then {kind} ({detail:?}), {wait} ms pause, then the keys {:?} of its follow-up chord: the application shows {got:?} instead of {want:?}", parent.line(), forder.iter().collect::<String>()), wj);
                        }
                    }
                }
            }
        }
        // ---- activation - soft reset within the same hold - pause - activation again: a top-level chord X
        // activates; while its keys are still down zippy gives up on the hold (the hold outlasts the
        // deadline that the activation restarted / a further key makes the held keys match nothing / a
        // further key goes toward a longer chord that is then abandoned); everything is released, the user
        // pauses for longer than idle-reactivate-time (far less than the 10 s watchdog) and types a chord Y
        // (X again, a chord whose expansion starts like X's, any other chord). Nothing of the earlier hold
        // may leak into the new one: earlier text stays, Y expands as if typed alone.
        {
            let top = d.toplevel_sets();
            let tops: Vec<&Entry> = d.entries.iter().filter(|e| e.chords.len() == 1 && e.chords[0].len() >= 2 && !e.out.is_empty()).collect();
            let ycap = ctx.tier.sel(2, 4);
            let idle = deadline; // idle-reactivate-time is configured equal to the deadline
            for x in tops.iter() {
                let xset: BTreeSet<char> = x.chords[0].iter().copied().collect();
                for kind in ["hold-past-deadline", "stray-key", "abandoned-longer-chord"] {
                    let mut xorder = x.chords[0].clone();
                    rng.shuffle(&mut xorder);
                    let xevs: Vec<(bool, char)> = xorder.iter().map(|k| (true, *k)).collect();
                    let xw = walk_hold(&d, &xevs);
                    if xw.followup_within_hold || xw.empty_node_after_activation || xw.chain_shared_prefix() {
                        out.inc("soft_reset_in_hold_skipped_known_structure");
                        continue;
                    }
                    // the further key pressed while X is held
                    let extra: Option<char> = match kind {
                        "hold-past-deadline" => None,
                        _ => {
                            let cands: Vec<char> = POOL
                                .iter()
                                .chain(FPOOL.iter())
                                .chain(FOREIGN.iter())
                                .copied()
                                .filter(|k| !xset.contains(k))
                                .filter(|k| {
                                    let mut s = xset.clone();
                                    s.insert(*k);
                                    // the held keys must neither be a node themselves nor a follow-up chord of
                                    // something completed in this hold
                                    if d.out_of(&[s.clone()]).is_some() || xw.chain_sets.iter().any(|q| d.out_of(&[q.clone(), s.clone()]).is_some()) {
                                        return false;
                                    }
                                    let toward_longer = top.iter().any(|t| s.is_subset(t));
                                    if kind == "stray-key" { !toward_longer } else { toward_longer }
                                })
                                .collect();
                            if cands.is_empty() {
                                out.inc(&format!("soft_reset_in_hold_no_candidate_key:{kind}"));
                                continue;
                            }
                            Some(*rng.pick(&cands))
                        }
                    };
                    // the chords typed after the pause: X again, then chords whose expansion starts with the
                    // same character as X's, then any other
                    let mut ys: Vec<&Entry> = vec![*x];
                    {
                        let mut shared: Vec<&Entry> = tops.iter().copied().filter(|y| y.path() != x.path() && y.out.chars().next() == x.out.chars().next()).collect();
                        let mut other: Vec<&Entry> = tops.iter().copied().filter(|y| y.path() != x.path() && y.out.chars().next() != x.out.chars().next()).collect();
                        rng.shuffle(&mut shared);
                        rng.shuffle(&mut other);
                        ys.extend(shared);
                        ys.extend(other);
                        ys.truncate(ycap);
                    }
                    for y in ys {
                        let mut yorder = y.chords[0].clone();
                        rng.shuffle(&mut yorder);
                        let yevs: Vec<(bool, char)> = yorder.iter().map(|k| (true, *k)).collect();
                        let yw = walk_hold(&d, &yevs);
                        if yw.followup_within_hold || yw.empty_node_after_activation || yw.chain_shared_prefix() {
                            out.inc("soft_reset_in_hold_skipped_known_structure");
                            continue;
                        }
                        let held = if rng.chance(1, 5) { pick_shift(&mut rng) } else { Held::None };
                        let tail = *rng.pick(&[Tail::None, Tail::None, Tail::Letter, Tail::Dot]);
                        let mut h = vec![Ev::T(3)];
                        push_presses(&mut h, &xorder, &[1, 2, 3], &mut rng);
                        let mut down: Vec<char> = xorder.clone();
                        match extra {
                            None => h.push(Ev::T(deadline + *rng.pick(&[5u32, 20, 60]))),
                            Some(k) => {
                                h.push(Ev::T(*rng.pick(&[2u32, 4, 7])));
                                h.push(Ev::P(osc(&keyname(k))));
                                h.push(Ev::T(*rng.pick(&[2u32, 5, 9])));
                                down.push(k);
                            }
                        }
                        push_releases(&mut h, &down, &[0, 1, 2], &mut rng);
                        let pause = idle + *rng.pick(&[10u32, 20, 150]);
                        h.push(Ev::T(pause));
                        held.push_press(&mut h, &mut rng);
                        push_presses(&mut h, &yorder, &[1, 1, 2, 3], &mut rng);
                        h.push(Ev::T(*rng.pick(&[2u32, 5, 8])));
                        push_releases(&mut h, &yorder, &[0, 1, 2], &mut rng);
                        h.push(Ev::T(4));
                        let mod_at = h.len();
                        held.push_release(&mut h, &mut rng);
                        h.push(Ev::T(2));
                        push_tail(&mut h, tail);
                        h.push(Ev::T(10));
                        let Ok((trace, mods_mid)) = run(&cfg, &file, &h, Some(mod_at)) else { continue };
                        let (screen, down_end) = replay(&trace, &km);
                        let got = text(&screen);
                        let case_judged = held.shifted() && case_exact_judged(yw.prev_out(), &y.out);
                        let mut first = expected_entry(&x.out, smart, Tail::None);
                        if let Some(k) = extra {
                            first.push(k);
                        }
                        let second = if case_judged { expected_entry(&cap_first(&y.out), smart, tail) } else { expected_entry(&y.out, smart, tail) };
                        let want = format!("{first}{}", &second[SENTINEL.len()..]);
                        let same_nocase = got.to_lowercase() == want.to_lowercase();
                        let same = if held.shifted() && !case_judged { same_nocase } else { got == want };
                        let mid_mods = mods_down(&mods_mid.unwrap_or_default());
                        let mods_ok = mid_mods == held.os_names();
                        let common = x.out.chars().zip(y.out.chars()).take_while(|(a, b)| a == b).count();
                        let relation = if y.path() == x.path() { "same-chord" } else if common > 0 { "shared-output-prefix" } else { "other-chord" };
                        out.inc("soft_reset_in_hold_scenarios");
                        out.tag(format!("soft-reset-in-hold:{kind}:{relation}:k{}:k{}:{:?}:{:?}:{}", xset.len(), yorder.len(), held, tail, smart.name()));
                        if same && down_end.is_empty() && mods_ok {
                            out.inc("chord_after_soft_reset_in_hold_exact");
                            out.inc(&format!("chord_after_soft_reset_in_hold_exact:{kind}"));
                            out.inc(&format!("chord_after_soft_reset_in_hold_exact:{relation}"));
                        } else {
                            let wj = json!({"config": cfg, "files": {"dict.txt": file}, "first_entry": x.line(), "first_press_order": xorder.iter().collect::<String>(), "soft_reset_by": kind, "further_key_in_hold": extra.map(|k| k.to_string()), "pause_ms": pause, "entry": y.line(), "press_order": yorder.iter().collect::<String>(), "held_modifier": format!("{held:?}"),
                                "history": render_hist(&h), "observed": {"text": got, "keys_down_at_end": down_end, "modifiers_down_before_their_release": mid_mods, "os_stream": trace.iter().map(|o| o.short()).collect::<Vec<_>>()}, "expected": {"text": want, "case_insensitive": held.shifted() && !case_judged, "keys_down_at_end": [], "modifiers_down_before_their_release": held.os_names()}});
                            let sig = if !same && case_judged && same_nocase {
                                format!("C20:wrong-case-with-shift-held:{}:chord-after-soft-reset-in-hold", held.name())
                            } else if !same {
                                format!("C20:wrong-text:chord-after-soft-reset-in-hold:{kind}:{relation}")
                            } else if !mods_ok {
                                "C20:modifier-not-restored".to_string()
                            } else {
                                "C20:keys-left-down".to_string()
                            };
                            out.violate(sig, format!("{:?} completed ({:?}), zippy gives up in the same hold ({kind}{}), all released, {pause} ms pause (idle-reactivate-time {idle}), then the chord {:?} (press order {:?}, {:?} held, smart-space {}): the application shows {got:?} instead of {want:?}", x.line(), xorder.iter().collect::<String>(), extra.map(|k| format!(" {k:?}")).unwrap_or_default(), y.line(), yorder.iter().collect::<String>(), held, smart.name()), wj);
                        }
                    }
                }
            }
        }
        if idx % 200 == 30 || idx == 0 {
            out.sample =Some(json!({"idx": idx, "dictionary": file, "smart_space": smart.name(), "deadline": deadline}));
        }
        out
    }
    fn rule(&self) -> String {
        "case = one dictionary (45 cases with fixed dictionaries that are the same for every seed: the guide's / the tests' samples and the known-finding witnesses; then generated: 2-4 top-level chords of 2-4 keys over a-h, chords extending other chords by one or two keys up to three levels with and without a shared output prefix, follow-up chords of 1-3 keys up to depth 3 incl. keys that occur in no top-level chord, in 2 of 5 dictionaries a follow-up chord that strictly contains a top-level chord, nodes with empty output, upper/lower-case outputs with inner and trailing spaces) x one smart-space setting (idx mod 3) x deadline 30/500. Every entry is typed with every permutation of its last chord's keys (capped at 24 quick / 120 thorough; earlier chords in random order), gaps 1-3 ms, without modifier and with lsft / rsft / both shift keys (either press order, every third order) / ralt held (scenarios that hit known finding #18 are sampled: no modifier, every second order), followed by nothing / a foreign letter / a dot / both; then 4-8 random non-chord typings (taps, rolled pairs that are no subset of a chord, shift, punctuation, pauses), one too-slow chord, for every entry that extends another entry: the smaller chord first, the extending keys deadline-5 ms (must extend: an activation restarts the deadline) and deadline+5 ms (must pass through) after it, and every follow-up line with deadline+20 ms between its chords; AFTER-LINE family: every line that has follow-up lines (plus one that has none) is completed and fully released, then (3 ms / 8 ms / deadline+20 ms later) every top-level chord is typed in up to 4 (thorough 12) press orders, sometimes with lsft / rsft / both shifts, with a tail - orders whose keys complete a follow-up chord of the earlier line on the way are skipped (the follow-up is meant), the counter toplevel_chord_part_of_pending_followup_exact counts chords that are a strict part of a pending multi-key follow-up chord (the generator adds such a follow-up to 2 of 5 dictionaries); PARTIAL-RELEASE family: for every pair of top-level chords S < L (the generator extends chords by one or by two keys): S in random order, a random non-empty proper subset of S released, then the released keys and the keys of L-S in random order (6 draws per pair, thorough 16), all within the deadline, sometimes with lsft / rsft / both shifts, with a tail; classified by what is completed on the way (direct / via another chord / S a second time / >=3 completions with shared first character); FOLLOW-UP-AFTER-TYPING family: every line that has follow-up lines is completed and fully released, then one of {lone tap of a key that is a strict part of a top-level chord (held 2 / 5 / deadline+10 ms), tap of a key that is in no chord, 2-4 such taps, space, one of . , ;, a rolled pair that is in no chord, a different top-level chord typed on its own} follows, then a pause of idle-reactivate-time+20 ms (3 of 4) or 6 ms, then the keys of a follow-up chord of the line (up to 3 follow-up chords per line, thorough 6; random order) - expected: earlier expansion + what was typed + the keys as plain typing (or, after the idle time, their own top-level expansion if they are exactly a top-level chord); follow-up chords whose keys complete other top-level nodes on the way are skipped. SOFT-RESET-IN-HOLD family: every top-level chord X of >= 2 keys with an output (random press order) x 3 ways in which zippy gives up while X is still held {all keys held deadline+5/20/60 ms after the activation; 2-7 ms after the activation a further key k (from a-h, m-o, x z q) such that X+k is contained in no top-level chord; a further key k such that X+k is a strict part of a longer top-level chord that is never completed - X+k is never itself a node or a follow-up chord of something completed in the hold}, all keys released in random order, pause idle-reactivate-time + 10/20/150 ms, then up to 2 (thorough 4) chords Y: X itself, then chords whose expansion starts with the same character as X's, then others (random press order, 1 of 5 with lsft / rsft / both shifts, with a tail) - expected: X's expansion (+ smart space) + k + Y's expansion (+ smart space) + tail; counters per way and per relation of Y to X (same-chord / shared-output-prefix / other-chord). With shift held the text is compared exactly (first character capitalised, rest as configured) in all families, see assumptions. Non-trivial = entry scenario replayed through the text-buffer model; distinct = (shape, depth, chord size, modifier, tail, smart-space).".into()
    }
    fn assumptions(&self) -> Vec<String> {
        vec![
            "the application is a plain text field: a press of a printable key appends one character (upper case iff a shift key is down at that moment, marked if AltGr is down), backspace deletes one character, releases do nothing".into(),
            "with shift held (lsft, rsft or both) the first character of the expansion is typed under the user's shift and every held shift key is lifted for the rest, so the expected text is the expansion with its first character capitalised, everything else exactly as configured (text typed after the shift keys were released in lower case); additionally exactly the held shift keys must be down at the OS again before the user releases them".into(),
            "when the final expansion starts with the same character (ignoring case) as the expansion activated just before it (superset chain, follow-up that shares a prefix), a part of the earlier text may be re-used and neither the statement nor the guide says which character is 'the first'; those shift scenarios, and shift scenarios that touch one of the known structures, are compared ignoring case as before (counter shift_scenarios_case_not_judged)".into(),
            "follow-up-after-typing family: after anything else was typed (or another chord expanded) a follow-up chord of the earlier line cannot erase 'exactly' the earlier expansion any more, so it is over: the text typed in between must survive unchanged and the follow-up keys are judged as what they are on their own; judged only if those keys on their own complete no top-level node on the way (plain typing) or, after idle-reactivate-time, are exactly one top-level chord; with a pause shorter than idle-reactivate-time only the plain-typing reading is judged (whether zippy counts as 'temporarily disabled' after a short tap is not stated); the lone tapped key is never itself a single-key follow-up chord of the line; smart-space full: a punctuation key typed directly after the expansion removes the automatic space".into(),
            "follow-up scenarios in which a proper subset of the follow-up chord is itself a top-level chord are not judged (the guide does not say which wins)".into(),
            "only letters and spaces as outputs; output-character-mappings (no-erase, single-output) are not generated".into(),
            "chord keys are released before the next chord of a line and before further typing; the only partial releases are those of the partial-release family (one release phase after the first activation, no release between the later presses)".into(),
            "after-line family: an order in which the keys pressed so far are exactly a follow-up chord of the line completed before is not judged (the follow-up is meant); a chord that is only a strict part of a pending follow-up chord IS judged: pressing exactly the keys of a top-level chord and releasing them must expand that chord".into(),
            "partial-release family: top-level chords only (inside follow-up chords the sibling-follow-up finding applies); scenarios in which the held keys are exactly a follow-up chord of something completed in the same hold, or reach an output-less node after an activation, are not judged".into(),
            "soft-reset-in-hold family: only the pause LONGER than idle-reactivate-time is judged (the guide says zippy is re-enabled after that time; whether and for how long it is disabled after a stray key or a long hold is not stated, so a second chord typed sooner is not judged); the pause stays far below the 10 s after which the implementation resets itself; top-level chords only, a follow-up chord after the interrupted hold is not judged (the guide does not say whether the follow-up survives); the further key never makes the held keys a chord, a node or a follow-up chord of something completed in the hold; expected text of the interrupted hold = X's expansion (+ smart space) followed by the further key as plain typing".into(),
            "the known classes 'followup-part-not-in-toplevel-chord' and 'longer-chord-after-partial-release:chord-completed-again' cover only the outcome their defect produces where that outcome is simple to state (earlier text + literal keys; stale erase counter); the prediction is used for nothing else".into(),
        ]
    }
    fn floors(&self, _ctx: &Ctx) -> Vec<(&'static str, u64)> {
        vec![
            ("dictionaries_accepted", 800),
            ("entries_text_exact", 10_000),
            ("followup_entries_exact", 1_000),
            ("superset_chain_entries_exact", 500),
            ("entries_with_shift_exact", 2_000),
            ("entries_with_tail_exact", 2_000),
            ("modifier_state_restored", 5_000),
            ("passthrough_unchanged", 2_000),
            ("too_slow_passed_through", 200),
            ("extended_within_restarted_deadline_exact", 300),
            ("extension_after_deadline_passed_through", 300),
            ("slow_followup_exact", 300),
            ("backspaces_counted", 20_000),
            ("toplevel_chord_after_line_exact", 30_000),
            ("toplevel_chord_after_line_with_pending_followups_exact", 20_000),
            ("toplevel_chord_part_of_pending_followup_exact", 1_500),
            ("longer_chord_after_partial_release_exact", 8_000),
            ("longer_chord_two_keys_apart_after_partial_release_exact", 3_000),
            ("entries_with_shift_case_exact", 50_000),
            ("entries_with_rsft_alone_case_exact", 10_000),
            ("entries_with_both_shifts_case_exact", 15_000),
            ("both_shifts_restored", 15_000),
            ("other_families_with_shift_case_exact", 10_000),
            ("other_families_with_both_shifts_case_exact", 5_000),
            ("followup_after_typing_exact", 15_000),
            ("followup_after_typing_exact:lone-tap-of-chord-part:after-idle", 1_500),
            ("followup_after_typing_exact:lone-tap-of-chord-part:before-idle", 400),
            ("followup_after_typing_exact:foreign-key-tap:after-idle", 1_500),
            ("followup_after_typing_exact:several-taps:after-idle", 1_500),
            ("followup_after_typing_exact:space:after-idle", 1_500),
            ("followup_after_typing_exact:punctuation:after-idle", 1_500),
            ("followup_after_typing_exact:rolled-pair:after-idle", 1_000),
            ("followup_after_typing_exact:other-chord:after-idle", 800),
            ("chord_after_soft_reset_in_hold_exact", 20_000),
            ("chord_after_soft_reset_in_hold_exact:hold-past-deadline", 5_000),
            ("chord_after_soft_reset_in_hold_exact:stray-key", 5_000),
            ("chord_after_soft_reset_in_hold_exact:abandoned-longer-chord", 1_000),
            ("chord_after_soft_reset_in_hold_exact:same-chord", 8_000),
            ("chord_after_soft_reset_in_hold_exact:shared-output-prefix", 500),
            ("chord_after_soft_reset_in_hold_exact:other-chord", 3_000),
        ]
    }
}
