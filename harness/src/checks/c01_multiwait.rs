//! C01 family "several waiting actions started by ONE key press".
//!
//! An ordinary tap-hold key never shares the waiting slot: the next key press stays queued until
//! the first decision. More than one undecided action at a time only exists when an action is
//! started while another one is pending, i.e. from the action queue: `switch` cases with
//! `fallthrough` that are tap-holds, a `switch` next to a tap-hold / lazy tap-dance / `chord` in a
//! `multi`, or a `defchordsv2` chord whose action is a tap-hold fired while a home-row tap-hold is
//! pending. The configurations here give ONE key two to four such actions with DIFFERENT timeouts
//! (in random order, so that sometimes the first started one decides first and sometimes a later
//! one), and the histories sweep the key's release over every offset around each individual
//! timeout, so that the key goes up before, between and after the individual decisions.

use crate::core::rng::Rng;
use crate::core::sim::{osc, Ev};
use crate::gen::{self, GenCfg};

/// distinct timeouts, far enough apart that "between two decisions" is a real window
const TIMEOUTS: &[u32] = &[12, 25, 40, 60, 85, 120, 160, 210];

struct Ctxt<'a> {
    /// defsrc names of the keys other than the one the action is generated for
    others: Vec<&'a str>,
    numbers: Vec<u64>,
}

fn simple_tap(rng: &mut Rng) -> String {
    match rng.usize(8) {
        0 => "XX".into(),
        1 => format!("S-{}", gen::OUTKEYS[rng.usize(26)]),
        2 => format!("(multi lalt {})", gen::OUTKEYS[rng.usize(26)]),
        _ => gen::OUTKEYS[rng.usize(36)].to_string(),
    }
}

fn simple_hold(rng: &mut Rng) -> String {
    match rng.usize(12) {
        0 | 1 => "(layer-while-held l1)".into(),
        2 => rng.pick(&["mlft", "mrgt", "mmid"]).to_string(),
        3 => format!("(mwheel-up {} 120)", rng.pick(&[5u32, 20])),
        4 => gen::OUTKEYS[rng.usize(26)].to_string(),
        5 => format!("(multi {} (layer-while-held l1))", rng.pick(gen::MODS)),
        6 => format!("(multi {} {})", rng.pick(gen::MODS), gen::OUTKEYS[rng.usize(26)]),
        7 => "XX".into(),
        _ => rng.pick(gen::MODS).to_string(),
    }
}

/// one tap-hold of a random variant with the given hold timeout
fn tap_hold(rng: &mut Rng, cx: &mut Ctxt, t: u32) -> String {
    // the tap-repress timeout is mostly 0: with a non-zero one the second tap-hold at the same
    // coordinate is taken for a quick re-press and taps at once instead of waiting
    let rp = *rng.pick(&[0u32, 0, 0, 0, 0, t, 30]);
    cx.numbers.push(t as u64);
    cx.numbers.push(rp as u64);
    let tap = simple_tap(rng);
    let hold = simple_hold(rng);
    let keylist = |rng: &mut Rng, cx: &Ctxt| -> String {
        let n = rng.usize(cx.others.len() + 1);
        let sel = rng.subset(cx.others.len(), n);
        sel.iter().map(|&i| cx.others[i]).collect::<Vec<_>>().join(" ")
    };
    match rng.usize(9) {
        0 | 1 | 2 => format!("(tap-hold {rp} {t} {tap} {hold})"),
        3 => format!("(tap-hold-press {rp} {t} {tap} {hold})"),
        4 => format!("(tap-hold-release {rp} {t} {tap} {hold})"),
        5 => format!("(tap-hold-press-timeout {rp} {t} {tap} {hold} {})", simple_hold(rng)),
        6 => format!("(tap-hold-release-timeout {rp} {t} {tap} {hold} {})", simple_hold(rng)),
        7 => format!("(tap-hold-release-keys {rp} {t} {tap} {hold} ({}))", keylist(rng, cx)),
        _ => format!("(tap-hold-except-keys {rp} {t} {tap} {hold} ({}))", keylist(rng, cx)),
    }
}

/// `(switch () A fallthrough () B ... break)`: every case runs, one per tick, from the action queue
fn switch_of(cases: &[String]) -> String {
    let mut s = String::from("(switch");
    for (i, c) in cases.iter().enumerate() {
        s.push_str(&format!(" () {c} {}", if i + 1 == cases.len() { "break" } else { "fallthrough" }));
    }
    s.push(')');
    s
}

pub const SHAPES: &[&str] = &["mw:switch-tapholds", "mw:multi-taphold+switch", "mw:multi-tapdance+switch", "mw:multi-chord+switch", "mw:chordsv2-taphold", "mw:switch-mixed"];

pub struct MwCase {
    pub g: GenCfg,
    pub hists: Vec<(String, Vec<Ev>)>,
}

/// A key with several waiting actions. Returns the action text; pushes top-level forms it needs.
fn multiwait_action(rng: &mut Rng, cx: &mut Ctxt, shape: usize, own: &str, extra_forms: &mut String, chord_partner: Option<&str>) -> String {
    let n = 2 + rng.usize(3);
    // the home-row key of the chords-v2 shape mostly gets the longer timeouts, so that it is still
    // undecided when the chord fires
    let pool: &[u32] = if shape == 4 && rng.chance(2, 3) { &TIMEOUTS[3..] } else { TIMEOUTS };
    let mut ts: Vec<u32> = rng.subset(pool.len(), n).iter().map(|&i| pool[i]).collect();
    rng.shuffle(&mut ts);
    let mut ths: Vec<String> = vec![];
    for t in &ts {
        ths.push(tap_hold(rng, cx, *t));
    }
    match shape {
        0 => switch_of(&ths),
        1 => {
            let first = ths.remove(0);
            format!("(multi {first} {})", switch_of(&ths))
        }
        2 => {
            let t = *rng.pick(TIMEOUTS);
            cx.numbers.push(t as u64);
            let n_td = 1 + rng.usize(3);
            let acts: Vec<String> = (0..n_td).map(|i| if i == 1 && rng.coin() { simple_hold(rng) } else { simple_tap(rng) }).collect();
            ths.truncate(3);
            format!("(multi (tap-dance {t} ({})) {})", acts.join(" "), switch_of(&ths))
        }
        3 => {
            // a defchords group over this key and (if there is one) a partner key; the group's
            // actions are keys or tap-holds themselves (started when the chord resolves, possibly
            // while the switch's tap-holds are still pending)
            let t = *rng.pick(TIMEOUTS);
            cx.numbers.push(t as u64);
            let gname = format!("g{own}");
            let act = |rng: &mut Rng, cx: &mut Ctxt| -> String {
                if rng.chance(1, 3) {
                    let t2 = *rng.pick(TIMEOUTS);
                    tap_hold(rng, cx, t2)
                } else if rng.chance(1, 4) {
                    simple_hold(rng)
                } else {
                    simple_tap(rng)
                }
            };
            let mut body = format!("({own}) {}", act(rng, cx));
            if let Some(p) = chord_partner {
                body.push_str(&format!(" ({p}) {} ({own} {p}) {}", act(rng, cx), act(rng, cx)));
            }
            extra_forms.push_str(&format!("(defchords {gname} {t} {body})\n"));
            ths.truncate(3);
            format!("(multi (chord {gname} {own}) {})", switch_of(&ths))
        }
        5 => {
            // immediate actions between the waiting ones
            let mut cases = vec![];
            for th in ths {
                if rng.coin() {
                    cases.push(simple_hold(rng));
                }
                cases.push(th);
            }
            if rng.coin() {
                cases.push(simple_hold(rng));
            }
            cases.truncate(7);
            switch_of(&cases)
        }
        _ => {
            // shape 4 (home-row part): one or two waiting actions of its own
            ths.truncate(1 + rng.usize(2));
            if ths.len() == 1 {
                ths.remove(0)
            } else {
                switch_of(&ths)
            }
        }
    }
}

pub fn make(rng: &mut Rng, which: u64, thorough: bool) -> MwCase {
    let shape = (which % SHAPES.len() as u64) as usize;
    let mut g = GenCfg::default();
    let nk = 4 + rng.usize(2);
    let idx = rng.subset(26, nk);
    let keys: Vec<String> = idx.iter().map(|&i| gen::PHYS[i].to_string()).collect();
    let mut numbers: Vec<u64> = vec![];
    let mut forms = String::new();
    let mut cells: Vec<String> = vec![];
    // key 0: the multi-wait key. key 1: sometimes a second one (of a switch shape), a home-row
    // tap-hold, or plain. key 2: plain or layer key. others plain.
    let own_numbers: Vec<u64>;
    {
        let others: Vec<&str> = keys.iter().skip(1).map(|s| s.as_str()).collect();
        let mut cx = Ctxt { others, numbers: vec![] };
        let partner = if shape == 3 && rng.chance(2, 3) { Some(keys[1].as_str()) } else { None };
        cells.push(multiwait_action(rng, &mut cx, shape, &keys[0], &mut forms, partner));
        own_numbers = cx.numbers.clone();
        numbers.extend(cx.numbers);
        if let Some(_p) = partner {
            cells.push(format!("(chord g{} {})", keys[0], keys[1]));
        }
    }
    while cells.len() < nk {
        let i = cells.len();
        let others: Vec<&str> = keys.iter().enumerate().filter(|(j, _)| *j != i).map(|(_, s)| s.as_str()).collect();
        let mut cx = Ctxt { others, numbers: vec![] };
        let cell = match (i, rng.usize(6)) {
            (1, 0) | (1, 1) if shape != 4 => {
                let s2 = *rng.pick(&[0usize, 1, 5]);
                multiwait_action(rng, &mut cx, s2, &keys[i], &mut forms, None)
            }
            (1, 2) if shape != 4 => {
                let t = *rng.pick(TIMEOUTS);
                tap_hold(rng, &mut cx, t)
            }
            (2, 0) | (2, 1) | (3, 0) if shape != 4 => "(layer-while-held l1)".to_string(),
            (3, 1) if shape != 4 => simple_hold(rng),
            _ => keys[i].clone(),
        };
        numbers.extend(cx.numbers);
        cells.push(cell);
    }
    let l1: Vec<String> = keys.iter().map(|_| match rng.usize(4) { 0 => gen::OUTKEYS[26 + rng.usize(10)].to_string(), 1 => "XX".into(), _ => "_".into() }).collect();
    let mut defcfg = String::new();
    let mut red = 5u64;
    let mut chord_keys: Vec<u16> = vec![];
    let mut chord_timeout = 0u32;
    if shape == 4 {
        // chords v2 over keys 1.. (the home-row key 0 is in no chord): the chord's action is a
        // tap-hold, started from the action queue while key 0's tap-hold is pending
        let mut cx = Ctxt { others: vec![keys[0].as_str()], numbers: vec![] };
        chord_timeout = *rng.pick(&[15u32, 30, 60]);
        let rel = *rng.pick(&["first-release", "all-released"]);
        let t = *rng.pick(TIMEOUTS);
        forms.push_str(&format!("(defchordsv2\n  ({} {}) {} {chord_timeout} {rel} ()\n", keys[1], keys[2], tap_hold(rng, &mut cx, t)));
        chord_keys = vec![osc(&keys[1]), osc(&keys[2])];
        if nk > 4 && rng.coin() {
            let t = *rng.pick(TIMEOUTS);
            let a = if rng.coin() { tap_hold(rng, &mut cx, t) } else { simple_hold(rng) };
            forms.push_str(&format!("  ({} {}) {a} {chord_timeout} {} ()\n", keys[2], keys[3], rng.pick(&["first-release", "all-released"])));
        }
        forms.push_str(")\n");
        numbers.extend(cx.numbers);
        numbers.push(chord_timeout as u64);
        red = *rng.pick(&[5u64, 0, 1]);
        let idle = *rng.pick(&[5u32, 20]);
        numbers.push(idle as u64);
        defcfg = format!("(defcfg concurrent-tap-hold yes rapid-event-delay {red} chords-v2-min-idle {idle})\n");
        g.has_chords_v2 = true;
    } else if rng.coin() {
        defcfg = format!("(defcfg concurrent-tap-hold {})\n", if rng.coin() { "yes" } else { "no" });
    }
    g.text = format!("{defcfg}(defsrc {})\n(deflayer l0 {})\n(deflayer l1 {})\n{forms}", keys.join(" "), cells.join(" "), l1.join(" "));
    g.keys = keys.clone();
    g.numbers = numbers.clone();
    g.rapid_event_delay = red;
    g.kinds_used.insert("family:multiwait");
    g.kinds_used.insert(SHAPES[shape]);

    // ---------------- histories
    let codes: Vec<u16> = keys.iter().map(|k| osc(k)).collect();
    let focus = codes[0];
    // offsets at which the focus key is released, measured from its press: around every number
    // that belongs to the key (each individual timeout), the points between them, and the ends
    let mut marks: Vec<u32> = own_numbers.iter().filter(|n| **n > 0).map(|n| *n as u32).collect();
    if shape == 4 {
        // the chord's tap-hold counts from when the chord fired; its marks are added below
        marks.extend(numbers.iter().filter(|n| **n > 0 && **n <= 400).map(|n| *n as u32));
    }
    marks.sort();
    marks.dedup();
    let mut offs: Vec<u32> = vec![0, 1, 2, 3];
    for m in &marks {
        for d in [-2i64, -1, 0, 1, 2, 3, 4, 6] {
            let v = *m as i64 + d;
            if v >= 0 {
                offs.push(v as u32);
            }
        }
    }
    for w in marks.windows(2) {
        offs.push((w[0] + w[1]) / 2);
        offs.push(w[0] + 8);
    }
    offs.push(marks.last().copied().unwrap_or(50) + 25);
    offs.sort();
    offs.dedup();
    let mut hists: Vec<(String, Vec<Ev>)> = vec![];
    let others: Vec<u16> = codes.iter().copied().filter(|c| *c != focus).collect();
    for &x in &offs {
        if shape != 4 {
            // the key alone: pressed, released x ticks later
            hists.push(("mw-solo".into(), vec![Ev::P(focus), Ev::T(x), Ev::R(focus), Ev::T(*rng.pick(&[0u32, 1, 30]))]));
        }
        // the key with company: the other keys are pressed / released at random times around it
        let reps = if thorough { 2 } else { 1 };
        for _ in 0..reps {
            let mut tl: Vec<(i64, u8, Ev)> = vec![(0, 1, Ev::P(focus)), (x as i64, 0, Ev::R(focus))];
            if shape == 4 {
                // the chord is pressed while the home-row tap-hold is pending (mostly inside the
                // chord timeout), and released around the focus key's release / its own timeouts
                let p1 = rng.range(0, 20) as i64;
                let p2 = p1 + if rng.chance(4, 5) { rng.range(0, chord_timeout as u64) as i64 } else { rng.range(0, 2 * chord_timeout as u64 + 5) as i64 };
                let base = p1.max(p2);
                for (k, p) in [(chord_keys[0], p1), (chord_keys[1], p2)] {
                    let r = match rng.usize(4) {
                        0 => base + 1 + rng.range(0, 10) as i64,
                        1 => x as i64 + rng.range(0, 12) as i64 - 4,
                        _ => base + *rng.pick(&offs) as i64 + rng.range(0, 3) as i64,
                    };
                    tl.push((p, 1, Ev::P(k)));
                    tl.push((r.max(p + 1), 0, Ev::R(k)));
                }
                if rng.chance(1, 3) && others.len() > 2 {
                    let k = others[2 + rng.usize(others.len() - 2)];
                    let p = rng.range(0, x as u64 + 30) as i64;
                    tl.push((p, 1, Ev::P(k)));
                    tl.push((p + 1 + rng.range(0, 60) as i64, 0, Ev::R(k)));
                }
            } else {
                let n_other = 1 + rng.usize(others.len().min(3));
                let sel = rng.subset(others.len(), n_other);
                for &i in &sel {
                    let k = others[i];
                    let p = rng.range(0, x as u64 + 40) as i64 - 20;
                    let len = match rng.usize(4) {
                        0 => 1 + rng.range(0, 8) as i64,
                        1 => *rng.pick(&offs) as i64 + 1,
                        _ => 1 + rng.range(0, x as u64 + 30) as i64,
                    };
                    tl.push((p, 1, Ev::P(k)));
                    tl.push((p + len, 0, Ev::R(k)));
                    if rng.chance(1, 4) {
                        // a second tap of the same key later on
                        let p2 = p + len + 1 + rng.range(0, 40) as i64;
                        tl.push((p2, 1, Ev::P(k)));
                        tl.push((p2 + 1 + rng.range(0, 30) as i64, 0, Ev::R(k)));
                    }
                }
            }
            hists.push(("mw-company".into(), timeline(tl)));
        }
    }
    // the key pressed again shortly after (second round of waiting actions while the state of the
    // first round is still around)
    for _ in 0..(if thorough { 8 } else { 4 }) {
        let x1 = *rng.pick(&offs);
        let x2 = *rng.pick(&offs);
        let gap = *rng.pick(&[1u32, 2, 5, 20, 60]);
        hists.push(("mw-twice".into(), vec![Ev::P(focus), Ev::T(x1), Ev::R(focus), Ev::T(gap), Ev::P(focus), Ev::T(x2), Ev::R(focus)]));
    }
    MwCase { g, hists }
}

/// events with absolute times -> history (stable sort: every key's press was inserted before its
/// release and a second press of a key is strictly later than its first release, so the result
/// is physically consistent)
fn timeline(mut tl: Vec<(i64, u8, Ev)>) -> Vec<Ev> {
    tl.sort_by_key(|e| e.0);
    let mut h = vec![];
    let mut now = tl.first().map(|e| e.0).unwrap_or(0);
    for (t, _, e) in tl {
        if t > now {
            h.push(Ev::T((t - now) as u32));
            now = t;
        }
        h.push(e);
    }
    h
}

/// coordinates of the waiting actions, read from the Debug rendering (the fields are private):
/// (primary slot, extra slots)
pub fn waiting_coords(primary: &str, extra: &str) -> (Option<(u8, u16)>, Vec<(u8, u16)>) {
    fn scan(s: &str) -> Vec<(u8, u16)> {
        let mut v = vec![];
        let pat = "WaitingState { coord: (";
        let mut rest = s;
        while let Some(i) = rest.find(pat) {
            let after = &rest[i + pat.len()..];
            let end = after.find(')').unwrap_or(0);
            let mut it = after[..end].split(',').map(|x| x.trim());
            if let (Some(a), Some(b)) = (it.next(), it.next()) {
                if let (Ok(a), Ok(b)) = (a.parse::<u8>(), b.parse::<u16>()) {
                    v.push((a, b));
                }
            }
            rest = &after[end..];
        }
        v
    }
    (scan(primary).first().copied(), scan(extra))
}
