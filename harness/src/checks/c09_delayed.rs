//! C09, delayed-start family: the keys of a chord are typed while input processing is blocked.
//!
//! A key that is in no chord carries a plain `(tap-hold TH TH z y)` with TH far above the chord
//! timeout. It is pressed first; while it is undecided every later event waits in the layout queue.
//! The group keys are pressed behind it with inter-press gaps from {0, 1, T-1, T, T+1, 2T, 3T, 4T};
//! then the blocker is decided (released = tap, or its hold timeout runs out = hold) and the queue is
//! replayed. The keys of a chord "pressed within its timeout" are still the keys whose *presses* were
//! at most the timeout apart: the time a press spent in the queue must not widen (or narrow) the
//! window. Releases of the group keys come after the decision or are queued behind the blocker too.

use super::*;

/// inter-press gaps as multiples / neighbours of the chord timeout
pub(super) fn gap_set(t: u32) -> [u32; 8] {
    [0, 1, t - 1, t, t + 1, 2 * t, 3 * t, 4 * t]
}

/// hold timeout of the blocker: longer than the longest scenario of up to 4 group keys
/// (3 gaps of 4T, hold T+3, 3 release gaps of 9, decision offset 9, lead 6)
pub(super) fn blocker_hold(tb: &Table) -> u32 {
    14 * tb.t + 60
}

pub(super) const D_KMAX: usize = 4;
pub(super) const D_CHUNK: u64 = 768;

const N_HOLD: u64 = 3;
const N_RELGAP: u64 = 2;
const N_OFFSET: u64 = 3;

#[derive(Clone, Debug)]
pub(super) struct DScen {
    /// (group key, gap before the press); first gap 0
    pub presses: Vec<(usize, u32)>,
    /// (group key, gap before the release); the first gap counts from the blocker's decision
    /// (`queued_releases` false) or from the last press (`queued_releases` true)
    pub releases: Vec<(usize, u32)>,
    /// blocker decided by its hold timeout (true) or by its release (false)
    pub hold_mode: bool,
    /// the group keys are released before the blocker is decided
    pub queued_releases: bool,
    /// tap mode: ticks between the blocker's press and the first group press
    pub lead: u32,
    /// ticks from the last press (or the last queued release) to the blocker's decision
    pub after: u32,
}

pub(super) fn space(n: usize) -> u64 {
    factorial(n) * 8u64.pow(n as u32 - 1) * factorial(n) * N_HOLD * N_RELGAP * N_OFFSET * 2 * 2
}

pub(super) fn make(keys: &[usize], tb: &Table, mut idx: u64) -> DScen {
    let n = keys.len();
    let t = tb.t;
    let gaps = gap_set(t);
    // the blocker's dimensions vary fastest so that a strided sample sees all of them
    let hold_mode = idx % 2 == 1;
    idx /= 2;
    let queued_releases = idx % 2 == 1;
    idx /= 2;
    let off = (idx % N_OFFSET) as usize;
    idx /= N_OFFSET;
    let pp = idx % factorial(n);
    idx /= factorial(n);
    let mut g = vec![];
    for _ in 1..n {
        g.push(gaps[(idx % 8) as usize]);
        idx /= 8;
    }
    let rp = idx % factorial(n);
    idx /= factorial(n);
    let hold = [0u32, 1, t + 3][(idx % N_HOLD) as usize];
    idx /= N_HOLD;
    let relgap = [0u32, 9][(idx % N_RELGAP) as usize];
    let porder = nth_perm(keys, pp);
    let rorder = nth_perm(keys, rp);
    DScen {
        presses: porder.iter().enumerate().map(|(i, k)| (*k, if i == 0 { 0 } else { g[i - 1] })).collect(),
        releases: rorder.iter().enumerate().map(|(i, k)| (*k, if i == 0 { hold } else { relgap })).collect(),
        hold_mode,
        queued_releases,
        lead: [0u32, 1, 6][off],
        after: [1u32, 2, 9][off],
    }
}

impl DScen {
    /// (tick, key, press) in input order; tick 0 is the first event (the blocker's press)
    pub fn timeline(&self, th: u32) -> Vec<InEv> {
        let mut ev: Vec<(i64, usize, bool)> = vec![];
        let mut t = 0i64;
        for (k, g) in &self.presses {
            t += *g as i64;
            ev.push((t, *k, true));
        }
        let decision;
        if self.queued_releases {
            for (k, g) in &self.releases {
                t += *g as i64;
                ev.push((t, *k, false));
            }
            t += self.after as i64;
            decision = t;
        } else {
            t += self.after as i64;
            decision = t;
            for (k, g) in &self.releases {
                t += *g as i64;
                ev.push((t, *k, false));
            }
        }
        let end = t;
        if self.hold_mode {
            // the hold timeout runs out at `decision`; the blocker is let go after everything else
            ev.insert(0, (decision - th as i64, BLOCKER_KEY, true));
            ev.push((end + 5, BLOCKER_KEY, false));
        } else {
            ev.insert(0, (-(self.lead as i64), BLOCKER_KEY, true));
            // released at `decision`, ahead of a group release of the same tick
            let pos = ev.iter().position(|e| !e.2 && e.0 >= decision).unwrap_or(ev.len());
            ev.insert(pos, (decision, BLOCKER_KEY, false));
        }
        let base = ev[0].0;
        ev.into_iter().map(|(t, k, p)| InEv { at: (t - base) as u64, key: k, press: p, overflow: false }).collect()
    }

    pub fn hist(&self, th: u32) -> Vec<Ev> {
        let mut h = vec![];
        let mut now = 0u64;
        for e in self.timeline(th) {
            if e.at > now {
                h.push(Ev::T((e.at - now) as u32));
                now = e.at;
            }
            let code = osc(key_name(e.key));
            h.push(if e.press { Ev::P(code) } else { Ev::R(code) });
        }
        h
    }
}

pub(super) fn run(sim: &mut Sim, c: &Conf, d: &DScen, nm: &Names) -> (Vec<Obs>, Vec<String>, bool) {
    sim.trace.clear();
    sim.last_step_start = 0;
    let base = sim.now;
    let mut scan = VScan::default();
    for e in d.timeline(blocker_hold(c.tb())) {
        while sim.now - base < e.at {
            sim.tick();
            scan.after_tick(sim, base, nm);
        }
        let code = osc(key_name(e.key));
        if e.press {
            sim.press(code);
        } else {
            sim.release(code);
        }
    }
    let min = (c.tb().t + R_DELAY + 8) as u64;
    let settled = settle_scan(sim, min, 600, &mut scan, base, nm);
    let (o, r) = collect(sim, base, nm);
    (scan.merge_into(o), r, settled)
}

/// Judged:
///  * accounting (every press, the blocker's included, accounted for exactly once; order of individually
///    delivered keys; nothing stuck);
///  * a chord never fires for presses whose arrival span exceeds its window plus the processing lag,
///    however long they waited in the queue;
///  * individually delivered keys are not released before their physical release;
///  * v1: the fired units are those of the reference grouping by *arrival* times (`v1_expected`), and
///    the positive / release rules, wherever the tick is determined.
pub(super) fn judge(c: &Conf, d: &DScen, obs: &[Obs], settled: bool) -> Verdict {
    let tb = c.tb();
    let ver = if c.v2 { "v2" } else { "v1" };
    let mut v = Verdict { sig: None, class: "delayed-other", units: vec![], expected: String::new() };
    let ins = d.timeline(blocker_hold(tb));
    let pr: Vec<(usize, u64)> = ins.iter().filter(|e| e.press && e.key < 5).map(|e| (e.key, e.at)).collect();
    let first_press = pr.first().map(|p| p.1).unwrap_or(0);
    let last_press = pr.last().map(|p| p.1).unwrap_or(0);
    let span = last_press - first_press;
    let t = tb.t as u64;
    let mut rel_at = [0u64; 5];
    for e in ins.iter().filter(|e| !e.press && e.key < 5) {
        rel_at[e.key] = e.at;
    }
    let smask = pr.iter().fold(0u8, |a, (k, _)| a | 1 << k);
    let exact = tb.chords.iter().position(|m| *m == smask);
    v.class = if c.v2 {
        // the blocker is a non-chord key: the group keys may fall into the chords-v2-min-idle window it
        // opens; which chords then fire is not judged
        "delayed-v2"
    } else {
        match exact {
            Some(_) if span < t => "delayed-positive",
            Some(_) if span == t => "delayed-boundary-undetermined",
            Some(_) => "delayed-too-slow",
            None => "delayed-other",
        }
    };
    if !settled {
        v.sig = Some((format!("C09:{ver}:stuck"), "kanata did not return to idle with every key up".into()));
        return v;
    }
    let acct = match accounting(c, &ins, obs) {
        Ok(a) => a,
        Err((k, what)) => {
            v.sig = Some((format!("C09:{ver}:{k}"), what));
            return v;
        }
    };
    v.units = acct.units.clone();
    for (ci, _, sp, _) in &acct.fired {
        // nothing starts from idle here: the documented lag of a group that starts while earlier keys
        // are still being processed applies (rapid-event-delay + 2 per key, the blocker included)
        let lag = R_DELAY as u64 + 2 * (pr.len() as u64 + 1);
        let ok = if c.v2 { *sp <= tb.timeout(*ci) as u64 + lag } else { *sp < t + lag };
        if !ok {
            v.sig = Some((
                format!("C09:{ver}:fired-outside-window:presses-delayed-in-queue"),
                format!("{} fired although its participants were pressed {} ticks apart (timeout {}); they were replayed from the queue together", unit_name(10 + *ci as u8, tb), sp, tb.timeout(*ci)),
            ));
            return v;
        }
    }
    for o in obs {
        if !o.down && o.id < 5 && o.at <= rel_at[o.id as usize] {
            v.sig = Some((format!("C09:{ver}:released-early"), format!("{} released before its physical release", KEYS[o.id as usize])));
            return v;
        }
    }
    if c.v2 {
        return v;
    }
    let group_units: Vec<u8> = acct.units.iter().copied().filter(|u| *u as usize != BLOCKER_KEY).collect();
    if acct.units.first().map(|u| *u as usize) != Some(BLOCKER_KEY) {
        v.sig = Some(("C09:v1:order-changed".into(), "the blocker key was pressed first but something else was delivered before it".into()));
        return v;
    }
    if v.class == "delayed-positive" {
        let ci = exact.unwrap_or(0);
        v.expected = unit_name(10 + ci as u8, tb);
        if group_units != vec![10 + ci as u8] {
            v.sig = Some((
                "C09:v1:positive:not-fired:presses-delayed-in-queue".into(),
                format!("all keys of {} pressed within the timeout (while the queue was blocked) but the outcome was [{}]", v.expected, group_units.iter().map(|u| unit_name(*u, tb)).collect::<Vec<_>>().join(", ")),
            ));
            return v;
        }
        // release rule: all participants released
        for (ci, at, _, arr) in &acct.fired {
            let t_rule = arr.iter().map(|(k, _)| rel_at[*k]).max().unwrap_or(0);
            let Some(up) = obs.iter().find(|o| !o.down && o.id == 10 + *ci as u8 && o.at >= *at).map(|o| o.at) else { continue };
            let lo = (*at).max(t_rule + 1);
            // the queued releases (the blocker's too) are replayed one per tick behind the chord
            let slack = (R_DELAY + 2 * (pr.len() as u32 + 1) + 2) as u64;
            let hi = (*at).max(t_rule) + slack;
            if up < lo {
                v.sig = Some(("C09:v1:chord-released-early".into(), format!("{} released in tick {up}, before all participants were released", unit_name(10 + *ci as u8, tb))));
                return v;
            }
            if up > hi {
                v.sig = Some(("C09:v1:chord-released-late".into(), format!("{} released in tick {up}, more than {slack} ticks after its release rule was met (tick {t_rule}) and it had fired (tick {at})", unit_name(10 + *ci as u8, tb))));
                return v;
            }
        }
    }
    let mut ambiguous = false;
    let exp = v1_expected(c, &pr, &mut ambiguous, true);
    v.expected = exp.iter().map(|u| unit_name(*u, tb)).collect::<Vec<_>>().join(", ");
    if ambiguous {
        if v.class != "delayed-boundary-undetermined" {
            v.class = "delayed-group-boundary-undetermined";
        }
    } else if exp != group_units {
        v.sig = Some((
            "C09:v1:decomposition:presses-delayed-in-queue".into(),
            format!("expected [{}], observed [{}]", v.expected, group_units.iter().map(|u| unit_name(*u, tb)).collect::<Vec<_>>().join(", ")),
        ));
        return v;
    }
    v
}

/// the work list of a blocker configuration: (subset mask, number of scenarios, total space)
pub(super) fn work(ctx: &Ctx, c: &Conf) -> Vec<(u8, u64, u64)> {
    let tb = c.tb();
    // one- and two-key subsets are enumerated completely in both tiers; larger ones are sampled with a
    // fixed stride (seed-independent)
    let cap: u64 = if c.v2 { ctx.tier.sel(800, 8_000) } else { ctx.tier.sel(2_400, 40_000) };
    let mut v = vec![];
    for m in 1u8..(1 << tb.nkeys) {
        let n = m.count_ones() as usize;
        if n > D_KMAX {
            continue;
        }
        let sp = space(n);
        v.push((m, sp.min(cap), sp));
    }
    v
}

pub(super) fn run_chunk(ctx: &Ctx, ci: usize, a: u64, b: u64, out: &mut CaseOut) {
    let confs = configs();
    let c = &confs[ci];
    let tb = c.tb();
    let nm = names();
    let cfg = c.text();
    let th = blocker_hold(tb);
    let mut sim = match new_sim(c) {
        Ok(s) => s,
        Err(e) => {
            out.inconclusive = Some(format!("config rejected: {}", e.lines().next().unwrap_or("")));
            return;
        }
    };
    let ver = if c.v2 { "v2" } else { "v1" };
    let mut reported: std::collections::BTreeSet<String> = Default::default();
    let mut off = 0u64;
    for (m, cnt, sp) in work(ctx, c) {
        let lo = a.max(off);
        let hi = b.min(off + cnt);
        let keys = mask_keys(m);
        for i in lo..hi {
            let local = i - off;
            let sidx = if cnt < sp { (local.wrapping_mul(STRIDE)) % sp } else { local };
            let d = make(&keys, tb, sidx);
            let (obs, raw, settled) = run(&mut sim, c, &d, &nm);
            let mut v = judge(c, &d, &obs, settled);
            let mut raw = raw;
            if v.sig.is_some() {
                // confirm on a fresh instance
                if let Ok(mut fresh) = new_sim(c) {
                    let (o2, r2, st2) = run(&mut fresh, c, &d, &nm);
                    let v2 = judge(c, &d, &o2, st2);
                    if v2.sig.is_none() {
                        out.inc("mismatch_not_reproduced_on_fresh_instance");
                        out.inconclusive = Some("a mismatch on a re-used instance did not reproduce on a fresh one".into());
                    }
                    v = v2;
                    raw = r2;
                }
                if let Ok(s2) = new_sim(c) {
                    sim = s2;
                }
            }
            let t = tb.t;
            let far_apart = d.presses.iter().skip(1).any(|(_, g)| *g >= 2 * t);
            out.inc("delayed_scenarios");
            out.inc(&format!("{ver}_delayed_scenarios"));
            out.inc(&format!("{ver}_class_{}", v.class));
            if far_apart {
                out.inc(&format!("{ver}_delayed_group_presses_2x_to_4x_timeout_apart"));
                if !c.v2 && v.units.iter().filter(|u| (**u as usize) < 5).count() >= 2 {
                    out.inc("v1_delayed_far_apart_keys_delivered_individually");
                }
            }
            out.inc(if d.hold_mode { "delayed_blocker_decided_by_hold_timeout" } else { "delayed_blocker_decided_by_release" });
            if d.queued_releases {
                out.inc("delayed_group_releases_queued_behind_blocker");
            }
            if v.units.iter().any(|u| *u >= 10) {
                out.inc(&format!("{ver}_delayed_scenarios_with_chord_fired"));
            }
            if !c.v2 && !v.class.ends_with("undetermined") && v.sig.is_none() {
                out.inc("v1_delayed_outcomes_compared_with_reference");
            }
            out.tag(format!("{}|{:05b}|{}|{}{}|{}", c.label(), m, v.class, if d.hold_mode { "hold" } else { "tap" }, if d.queued_releases { "|relq" } else { "" }, v.units.iter().map(|u| u.to_string()).collect::<Vec<_>>().join(",")));
            if let Some((sig, what)) = &v.sig {
                let h = render_hist(&d.hist(th));
                if reported.insert(sig.clone()) {
                    out.violate(
                        sig.clone(),
                        format!("{} [{}] {h}: {what}", c.label(), v.class),
                        json!({"config": cfg, "history": h, "scenario_class": v.class, "observed": raw, "expected": v.expected, "note": "ticks are relative to the press of the blocker key z, whose undecided tap-hold keeps every later event in the queue"}),
                    );
                }
                if ctx.verbose {
                    eprintln!("{sig}: {h} -> {:?}", raw);
                }
            }
            if out.sample.is_none() && a == 0 && far_apart && keys.len() == 2 && !c.v2 {
                out.sample = Some(json!({"config": cfg, "history": render_hist(&d.hist(th)), "class": v.class, "observed": raw}));
            }
        }
        off += cnt;
        if off >= b {
            break;
        }
    }
}
