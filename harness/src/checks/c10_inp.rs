//! C10 end-to-end, "input tests on keys of every action kind" family.
//!
//! The guide: `(input real K)` "evaluates to true if the key is currently pressed ... checks against
//! the defsrc inputs", `(input virtual V)` "checks against virtual key activations". Nothing in that
//! sentence depends on what K or V *do*. The other end-to-end families only put key codes (and
//! layer-while-held) on the keys they ask about; here every subject key - five physical keys and
//! three virtual keys - gets an action of a random kind: a key code, a mouse button, mouse wheel,
//! mouse movement, caps-word, arbitrary-code, unicode, an on-press / on-release virtual-key action,
//! unmod / unshift, a multi of a key and a custom action, a multi of custom actions, a
//! press-and-release driver of one of the subject virtual keys, layer-while-held / layer-toggle,
//! macro-repeat, a tap-hold / tap-dance / fork / switch that ends in a custom action, and XX,
//! layer-switch, macro, output chord (S-x).
//!
//! A history presses, releases and taps the subject keys (virtual keys through the TCP-style
//! operations press / release / tap and through driver keys) with gaps of 3..60 ticks; then two
//! probes are made in the same kanata:
//!   1. the DIRECT switch - one `((input real|virtual K)) wK fallthrough` case per subject, eight in
//!      all - on a physical key or on a virtual key: it reads kanata's truth value of every leaf;
//!      expected: exactly the subjects that are down fire, in case order;
//!   2. the COMPLEX switch - 1..6 cases of and / or / not over the same leaves, break / fallthrough -
//!      judged against the model, and, if the direct probe already disagreed on a leaf, against the
//!      model fed with the leaf values the direct probe reported (so a wrong leaf is reported once,
//!      with the action kind of the key in its signature, and a composition error separately).
//!
//! Model: a physical key is down from its press event to its release event; a virtual key is
//! active from `press` to `release` (a `tap` leaves it inactive), or while its driver key is down.
//! The probe key itself is not asked about. Where no subject action presses virtual keys on its
//! own, the complex switch also has `(input-history real|virtual K n)` leaves, judged against the
//! list of press events (slot 1 = the complex probe key, slot 2 = the direct probe key).
//!
//! Kinds that are left out because the guide does not say what `input` means for them: one-shot
//! (stays active after release on purpose), release-key / release-layer / macro-release-cancel
//! (undo other keys' state), sequence leader, dynamic macros, cmd, clipboard, live reload.
//!
//! On the unchanged tree the leaf is false for a pressed key whose action is XX, layer-switch,
//! macro or an output chord (known findings, findings/C10-input-test-blind-to-stateless-actions.md).

use super::model::*;
use super::WITNESS;
use crate::core::rng::Rng;
use crate::core::sim::{code_name, osc, render_hist, Ev, OutKind, Sim};
use crate::core::{CaseOut, Ctx};
use serde_json::{json, Value};

const REAL: &[&str] = &["a", "b", "c", "d", "e"];
const NR: usize = 5;
const NV: usize = 3;
const NSUBJ: usize = NR + NV;
const K_DIRECT: &str = "s";
const K_COMPLEX: &str = "t";
const V_DIRECT: &str = "pd";
const V_COMPLEX: &str = "pc";
/// longest time an undecided tap-hold / tap-dance of a subject key can hold back the events behind it
const WAIT_MAX: u32 = 30;
/// ticks until everything that can be undecided or queued when a probe arrives is through: undecided
/// tap-holds / tap-dances resolve one after the other (each up to WAIT_MAX ticks), queued events are
/// handled one per tick, a switch performs one action per tick (at most 8)
fn settle_ticks(n_waiting_subjects: usize, n_events: usize) -> u32 {
    40 + (WAIT_MAX + 3) * n_waiting_subjects as u32 + 2 * n_events as u32
}

/// (kind name used in counters and signatures, ways to write it)
const KINDS: &[(&str, &[&str])] = &[
    ("key", &["x", "y", "z", "lctl"]),
    ("mouse-button", &["mlft", "mrgt", "mmid", "mfwd", "mbck", "mltp", "mrtp"]),
    ("mouse-wheel", &["(mwheel-up 50 120)", "(mwheel-down 50 120)", "(mwheel-left 50 120)", "(mwheel-right 50 120)"]),
    ("mouse-move", &["(movemouse-up 20 1)", "(movemouse-left 20 1)", "(movemouse-accel-down 20 500 1 5)", "(movemouse-speed 50)"]),
    ("caps-word", &["(caps-word 2000)", "(caps-word-toggle 2000)"]),
    ("arbitrary-code", &["(arbitrary-code 700)", "(arbitrary-code 701)"]),
    ("unicode", &["(unicode r)", "(unicode ü)"]),
    (
        "vkey-action",
        &[
            "(on-press tap-vkey w0)",
            "(on-release tap-vkey w0)",
            "(multi (on-press press-vkey w0) (on-release release-vkey w0))",
            "(on-idle 20 tap-vkey w0)",
            "(on-idle-fakekey w0 tap 20)",
            "(hold-for-duration 40 w0)",
        ],
    ),
    ("unmod", &["(unmod x)", "(unshift y)"]),
    ("multi-key-custom", &["(multi lctl mlft)", "(multi x (unicode r))"]),
    ("multi-custom", &["(multi mlft (arbitrary-code 702))", "(multi mrgt (on-press tap-vkey w0))"]),
    ("layer-while-held", &["(layer-while-held l1)", "(layer-toggle l1)"]),
    ("macro-repeat", &["(macro-repeat nop8 50)"]),
    ("tap-hold-to-custom", &["(tap-hold 30 30 y mlft)", "(tap-hold-press 30 30 y mrgt)", "(tap-hold-release 30 30 y mmid)", "(tap-hold 30 30 y (arbitrary-code 703))"]),
    ("tap-dance-to-custom", &["(tap-dance 30 (mbck y))"]),
    ("fork-to-custom", &["(fork mlft mrgt (lsft))", "(fork mmid mmid (x))"]),
    ("switch-to-custom", &["(switch () mlft break)", "(switch ((input real s)) x break () mfwd break)"]),
    ("noop", &["XX", "✗"]),
    ("layer-switch", &["(layer-switch l1)", "(layer-switch l0)"]),
    ("macro", &["(macro x)", "(macro nop8 10 nop9)", "(macro 5 nop8)"]),
    ("output-chord", &["S-x", "C-y"]),
    // physical keys only: presses subject virtual key vN while held; the text is made per scenario
    ("vkey-press-release", &[]),
];
const KIND_DRIVER: usize = 21;
/// choice weights: kinds whose only effect is a custom action dominate
const KIND_W: [u32; 22] = [3, 5, 3, 3, 3, 3, 3, 3, 2, 2, 2, 2, 1, 3, 1, 2, 2, 2, 2, 2, 2, 3];
/// kinds that can leave an action undecided for up to WAIT_MAX ticks
fn kind_waits(k: usize) -> bool {
    KINDS[k].0 == "tap-hold-to-custom" || KINDS[k].0 == "tap-dance-to-custom"
}
/// kinds whose only effect is one or more custom actions
fn kind_custom_only(k: usize) -> bool {
    matches!(
        KINDS[k].0,
        "mouse-button" | "mouse-wheel" | "mouse-move" | "caps-word" | "arbitrary-code" | "unicode" | "vkey-action" | "unmod" | "multi-custom" | "vkey-press-release"
    )
}
fn kind_ends_in_custom(k: usize) -> bool {
    matches!(KINDS[k].0, "tap-hold-to-custom" | "tap-dance-to-custom" | "fork-to-custom" | "switch-to-custom")
}
/// kinds that are neither a key code nor a custom action
fn kind_other(k: usize) -> bool {
    matches!(KINDS[k].0, "noop" | "layer-switch" | "macro" | "output-chord" | "layer-while-held" | "macro-repeat")
}

fn kind_is_key(k: usize) -> bool {
    KINDS[k].0 == "key"
}
fn input_hist_leaves(e: &E, out: &mut Vec<(Inp, u8)>) {
    match e {
        E::Or(v) | E::And(v) | E::Not(v) => v.iter().for_each(|x| input_hist_leaves(x, out)),
        E::InputHist(i, r) => out.push((*i, *r)),
        _ => {}
    }
}

fn aim_hist(e: &mut E, slots: &[Option<Inp>], rng: &mut Rng) {
    match e {
        E::Or(v) | E::And(v) | E::Not(v) => v.iter_mut().for_each(|x| aim_hist(x, slots, rng)),
        E::InputHist(i, r) => {
            let known: Vec<(usize, Inp)> = slots.iter().enumerate().filter_map(|(p, s)| s.map(|s| (p, s))).collect();
            if known.is_empty() {
                return;
            }
            let (p, s) = *rng.pick(&known);
            match rng.usize(6) {
                0..=3 if p < 8 => {
                    *i = s;
                    *r = p as u8 + 1;
                }
                4 => {
                    *i = s;
                    *r = (if rng.coin() { p + 1 } else { p.saturating_sub(1) }).clamp(0, 7) as u8 + 1;
                }
                _ => {}
            }
        }
        _ => {}
    }
}

fn universe() -> U {
    U {
        keys: REAL.iter().map(|n| (n.to_string(), osc(n))).collect(),
        vkeys: (0..NV).map(|i| format!("v{i}")).collect(),
        layers: vec!["l0".into(), "l1".into()],
    }
}

struct Scenario {
    cfg: String,
    u: U,
    /// kind and text of the action of every subject: 0..NR physical, NR..NSUBJ virtual
    kind: Vec<usize>,
    text: Vec<String>,
    /// driver[v] = physical subject that presses / releases virtual subject v
    driver: Vec<Option<usize>>,
    complex: Vec<(Vec<E>, bool)>,
    pre: Vec<Ev>,
    direct_virtual: bool,
    complex_virtual: bool,
}

fn subj_name(i: usize) -> String {
    if i < NR {
        REAL[i].to_string()
    } else {
        format!("v{}", i - NR)
    }
}
fn subj_type(i: usize) -> &'static str {
    if i < NR {
        "real"
    } else {
        "virtual"
    }
}

fn make(ctx: &Ctx, r: u64) -> Scenario {
    let mut rng = Rng::for_case(ctx.seed, "C10", "inp", r);
    let u = universe();
    let kinds_w: Vec<(u32, usize)> = KIND_W.iter().enumerate().map(|(i, w)| (*w, i)).collect();
    let mut kind = vec![0usize; NSUBJ];
    let mut text = vec![String::new(); NSUBJ];
    let mut driver: Vec<Option<usize>> = vec![None; NV];
    // virtual subjects first (a driver needs to know which are free)
    for i in (0..NSUBJ).rev() {
        loop {
            let k = *rng.pick_weighted(&kinds_w);
            if k == KIND_DRIVER {
                if i >= NR {
                    continue;
                }
                let free: Vec<usize> = (0..NV).filter(|v| driver[*v].is_none()).collect();
                if free.is_empty() {
                    continue;
                }
                let v = *rng.pick(&free);
                driver[v] = Some(i);
                kind[i] = k;
                text[i] = format!("(multi (on-press press-vkey v{v}) (on-release release-vkey v{v}))");
            } else {
                kind[i] = k;
                text[i] = rng.pick(KINDS[k].1).to_string();
            }
            break;
        }
    }
    // every r % 4 == 0 scenario: all subjects of one and the same custom-only / ends-in-custom kind
    // would be too uniform; instead make sure at least two subjects have a custom-only kind
    let n_custom = (0..NSUBJ).filter(|i| kind_custom_only(kind[*i])).count();
    if n_custom < 2 {
        for i in [rng.usize(NR), NR + rng.usize(NV)] {
            if driver.iter().any(|d| *d == Some(i)) || (i >= NR && driver[i - NR].is_some()) {
                continue;
            }
            let k = 1 + rng.usize(6);
            kind[i] = k;
            text[i] = rng.pick(KINDS[k].1).to_string();
        }
    }

    // history
    let waits = (0..NSUBJ).any(|i| kind_waits(kind[i]));
    let has_driver = driver.iter().any(|d| d.is_some());
    let mut pre = vec![];
    let mut down = vec![false; NSUBJ];
    let gaps: &[u32] = &[3, 3, 4, 5, 8, 12, 35, 60];
    let nsteps = rng.range(2, 10);
    for _ in 0..nsteps {
        match rng.usize(11) {
            0..=4 => {
                let ups: Vec<usize> = (0..NR).filter(|i| !down[*i]).collect();
                if !ups.is_empty() {
                    let i = *rng.pick(&ups);
                    down[i] = true;
                    pre.push(Ev::P(osc(REAL[i])));
                }
            }
            5 => {
                let ds: Vec<usize> = (0..NR).filter(|i| down[*i]).collect();
                if !ds.is_empty() {
                    let i = *rng.pick(&ds);
                    down[i] = false;
                    pre.push(Ev::R(osc(REAL[i])));
                }
            }
            6 => {
                let ups: Vec<usize> = (0..NR).filter(|i| !down[*i]).collect();
                if !ups.is_empty() {
                    let i = *rng.pick(&ups);
                    pre.push(Ev::P(osc(REAL[i])));
                    pre.push(Ev::T(*rng.pick(gaps)));
                    pre.push(Ev::R(osc(REAL[i])));
                }
            }
            _ => {
                let free: Vec<usize> = (0..NV).filter(|v| driver[*v].is_none()).collect();
                if !free.is_empty() {
                    let v = *rng.pick(&free);
                    if down[NR + v] {
                        if rng.chance(2, 3) {
                            down[NR + v] = false;
                            pre.push(Ev::Fk(format!("v{v}"), 'r'));
                        }
                    } else if rng.chance(1, 5) {
                        pre.push(Ev::Fk(format!("v{v}"), 't'));
                    } else {
                        down[NR + v] = true;
                        pre.push(Ev::Fk(format!("v{v}"), 'p'));
                    }
                }
            }
        }
        pre.push(Ev::T(*rng.pick(gaps)));
    }
    // final gap: with a driver key in the configuration everything has to be settled before the probe
    // (the virtual key press a driver causes is queued behind the events that were waiting with it);
    // otherwise the probe may arrive while a tap-hold / tap-dance of a subject is still undecided
    let n_wait = (0..NSUBJ).filter(|i| kind_waits(kind[*i])).count();
    let settle = settle_ticks(n_wait, pre.len()) + rng.below(10) as u32;
    let fin = if has_driver && waits {
        settle
    } else if waits && rng.chance(1, 2) && (0..NR).any(|i| kind_waits(kind[i]) && !down[i]) {
        // press a deciding key last, the probe arrives before it has decided
        let c: Vec<usize> = (0..NR).filter(|i| kind_waits(kind[*i]) && !down[*i]).collect();
        pre.push(Ev::P(osc(REAL[*rng.pick(&c)])));
        *rng.pick(&[3u32, 5, 10, 20, 28])
    } else if waits && rng.chance(1, 2) {
        *rng.pick(&[3u32, 5, 10, 20])
    } else {
        *rng.pick(&[3u32, 5, 10, settle])
    };
    pre.push(Ev::T(fin));

    // the complex switch
    // input-history leaves only where the list of press events is the written history itself: no
    // subject action that presses further virtual keys on its own
    let hist_clean = (0..NSUBJ).all(|i| !matches!(KINDS[kind[i]].0, "vkey-action" | "multi-custom" | "vkey-press-release"));
    let with_hist = hist_clean && rng.coin();
    let o = GenOpts { max_depth: 5, leaf_w: if with_hist { [0, 0, 0, 3, 2, 0, 0] } else { [0, 0, 0, 1, 0, 0, 0] }, timing_pool: vec![], max_arity: 3 };
    let ncases = rng.range(1, 6) as usize;
    let mut complex = vec![];
    for _ in 0..ncases {
        let nitems = *rng.pick_weighted(&[(1u32, 0usize), (6, 1), (3, 2), (1, 3)]);
        let mut items = vec![];
        for _ in 0..nitems {
            let mut budget = *rng.pick(&[2i64, 5, 12]);
            items.push(gen_expr(&mut rng, &u, &o, 1, &mut budget));
        }
        complex.push((items, rng.chance(1, 3)));
    }

    // aim input-history leaves at the slot their key really is in (2/3) or next to it (1/6)
    let mut slots: Vec<Option<Inp>> = vec![None, None]; // the two probe presses, most recent first
    for e in pre.iter().rev() {
        match e {
            Ev::P(c) => slots.push((0..NR).find(|i| osc(REAL[*i]) == *c).map(Inp::Real)),
            Ev::Fk(n, 'p') | Ev::Fk(n, 't') => slots.push(n[1..].parse().ok().map(Inp::Virt)),
            _ => {}
        }
    }
    slots.truncate(9);
    for c in complex.iter_mut() {
        for it in c.0.iter_mut() {
            aim_hist(it, &slots, &mut rng);
        }
    }

    // configuration text
    let mut direct = String::from("(switch\n");
    for i in 0..NSUBJ {
        direct.push_str(&format!("  ((input {} {})) {} fallthrough\n", subj_type(i), subj_name(i), WITNESS[i]));
    }
    direct.push_str(" )");
    let mut cx = String::from("(switch\n");
    for (ci, (items, brk)) in complex.iter().enumerate() {
        cx.push_str(&format!("  {} {} {}\n", render_top(items, &u), WITNESS[NSUBJ + ci], if *brk { "break" } else { "fallthrough" }));
    }
    cx.push_str(" )");
    let mut s = String::from("(defcfg process-unmapped-keys yes)\n(defvirtualkeys w0 nop9");
    for v in 0..NV {
        s.push_str(&format!("\n  v{v} {}", text[NR + v]));
    }
    s.push_str(")\n");
    s.push_str(&format!("(defvar direct {direct}\n complex {cx})\n"));
    s.push_str(&format!("(defvirtualkeys {V_DIRECT} $direct {V_COMPLEX} $complex)\n"));
    s.push_str(&format!("(defsrc {} {K_DIRECT} {K_COMPLEX})\n", REAL.join(" ")));
    for l in ["l0", "l1"] {
        s.push_str(&format!("(deflayer {l}"));
        for i in 0..NR {
            s.push_str(&format!("\n  {}", text[i]));
        }
        s.push_str("\n  $direct $complex)\n");
    }

    Scenario { cfg: s, u, kind, text, driver, complex, pre, direct_virtual: rng.chance(1, 3), complex_virtual: rng.chance(1, 3) }
}

pub fn describe(ctx: &Ctx, r: u64) -> Value {
    let sc = make(ctx, r);
    json!({"part": "e2e-input-any-action", "config": sc.cfg, "history": render_hist(&sc.pre),
        "direct_probe": if sc.direct_virtual { V_DIRECT } else { K_DIRECT }, "complex_probe": if sc.complex_virtual { V_COMPLEX } else { K_COMPLEX }})
}

/// which subjects are down after `pre` (model, from the events alone) and which were down at some time
fn model_down(sc: &Scenario) -> (Vec<bool>, Vec<bool>) {
    let mut down = vec![false; NSUBJ];
    let mut ever = vec![false; NSUBJ];
    for e in &sc.pre {
        match e {
            Ev::P(c) => {
                if let Some(i) = (0..NR).find(|i| osc(REAL[*i]) == *c) {
                    down[i] = true;
                    ever[i] = true;
                    if let Some(v) = sc.driver.iter().position(|d| *d == Some(i)) {
                        down[NR + v] = true;
                        ever[NR + v] = true;
                    }
                }
            }
            Ev::R(c) => {
                if let Some(i) = (0..NR).find(|i| osc(REAL[*i]) == *c) {
                    down[i] = false;
                    if let Some(v) = sc.driver.iter().position(|d| *d == Some(i)) {
                        down[NR + v] = false;
                    }
                }
            }
            Ev::Fk(n, a) => {
                let v: usize = n[1..].parse().unwrap_or(0);
                if v < NV {
                    ever[NR + v] = true;
                    match a {
                        'p' => down[NR + v] = true,
                        'r' => down[NR + v] = false,
                        _ => {}
                    }
                }
            }
            _ => {}
        }
    }
    (down, ever)
}

fn state_of(sc: &Scenario, vk_idx: &[u16], down: &[bool]) -> St {
    let mut st = St { layers: vec![0], ..Default::default() };
    for i in 0..NSUBJ {
        if down[i] {
            st.coords.push(if i < NR { (0, sc.u.keys[i].1) } else { (1, vk_idx[i - NR]) });
        }
    }
    st
}

/// press a probe, wait, read the witnesses that went down, let go
fn probe(sim: &mut Sim, hist: &mut Vec<Ev>, virt: bool, vname: &str, kname: &str, wait: u32) -> Vec<usize> {
    let mark = sim.trace.len();
    let (p, r) = if virt { (Ev::Fk(vname.into(), 'p'), Ev::Fk(vname.into(), 'r')) } else { (Ev::P(osc(kname)), Ev::R(osc(kname))) };
    for e in [p, Ev::T(wait), r, Ev::T(12)] {
        sim.apply(&e);
        hist.push(e);
    }
    let wnames: Vec<String> = WITNESS.iter().map(|w| code_name(osc(w))).collect();
    sim.trace[mark..].iter().filter(|o| o.kind == OutKind::Down).filter_map(|o| wnames.iter().position(|w| *w == o.name)).collect()
}

pub fn run(out: &mut CaseOut, ctx: &Ctx, r: u64) {
    let sc = make(ctx, r);
    let mut sim = match Sim::new(&sc.cfg) {
        Ok(s) => s,
        Err(e) => {
            out.violate(
                "C10:rejected-valid-switch",
                format!("the parser rejected a configuration that is valid by the guide: {}", e.lines().next().unwrap_or("")),
                json!({"config": sc.cfg, "history": render_hist(&sc.pre), "observed": e, "expected": "accepted"}),
            );
            return;
        }
    };
    let mut vk_idx = vec![];
    for v in 0..NV {
        match sim.k.virtual_keys.get(&format!("v{v}")) {
            Some(x) => vk_idx.push(*x as u16),
            None => {
                out.inconclusive = Some("virtual key missing from Kanata.virtual_keys".into());
                return;
            }
        }
    }
    let (down, ever) = model_down(&sc);
    sim.run(&sc.pre);
    let undecided = sim.k.layout.b().waiting.is_some();
    let mut hist = sc.pre.clone();
    let wait = settle_ticks((0..NSUBJ).filter(|i| kind_waits(sc.kind[*i])).count(), sc.pre.len());
    let obs_direct = probe(&mut sim, &mut hist, sc.direct_virtual, V_DIRECT, K_DIRECT, wait);
    // press events in arrival order, the complex probe's own press last (recency 1)
    let vcoord = |sim: &Sim, n: &str| sim.k.virtual_keys.get(n).map(|x| (1u8, *x as u16));
    let mut presses: Vec<(u8, u16)> = vec![];
    for e in &hist {
        match e {
            Ev::P(c) => presses.push((0, *c)),
            Ev::Fk(n, 'p') | Ev::Fk(n, 't') => presses.extend(vcoord(&sim, n)),
            _ => {}
        }
    }
    presses.push(if sc.complex_virtual { vcoord(&sim, V_COMPLEX).unwrap_or((1, u16::MAX)) } else { (0, osc(K_COMPLEX)) });
    let hi: Vec<((u8, u16), u16)> = presses.iter().rev().take(8).map(|c| (*c, 0u16)).collect();
    let obs_complex = probe(&mut sim, &mut hist, sc.complex_virtual, V_COMPLEX, K_COMPLEX, wait);
    if ctx.verbose {
        eprintln!("config:\n{}\nhistory: {}\nmodel down: {:?}\ntrace: {:?}", sc.cfg, render_hist(&hist), down, sim.trace_short());
    }

    // ---- evidence
    out.inc("inp_scenarios");
    out.inc(if sc.direct_virtual { "inp_direct_probe_on_virtual_key" } else { "inp_direct_probe_on_physical_key" });
    out.inc(if sc.complex_virtual { "inp_complex_probe_on_virtual_key" } else { "inp_complex_probe_on_physical_key" });
    if undecided {
        out.inc("inp_probe_arrives_while_a_subject_action_is_undecided");
    }
    for i in 0..NSUBJ {
        let kn = KINDS[sc.kind[i]].0;
        let ty = subj_type(i);
        if down[i] {
            out.inc("inp_leaf_on_down_key");
            out.inc(&format!("inp_down_{ty}_{kn}"));
            out.tag(format!("inp:down:{ty}:{kn}"));
            if kind_custom_only(sc.kind[i]) {
                out.inc(&format!("inp_down_{ty}_key_whose_only_action_is_custom"));
            } else if kind_ends_in_custom(sc.kind[i]) {
                out.inc(&format!("inp_down_{ty}_key_of_deciding_action_ending_in_custom"));
            } else if kind_other(sc.kind[i]) {
                out.inc(&format!("inp_down_{ty}_key_of_other_non_key_action"));
            }
        } else if ever[i] {
            out.inc("inp_leaf_on_released_key");
            out.inc(&format!("inp_released_{ty}_{kn}"));
            if kind_custom_only(sc.kind[i]) {
                out.inc(&format!("inp_released_{ty}_key_whose_only_action_is_custom"));
            }
        } else {
            out.inc("inp_leaf_on_untouched_key");
        }
    }
    if (NR..NSUBJ).any(|i| down[i] && sc.driver[i - NR].is_some()) {
        out.inc("inp_virtual_key_held_through_driver_key");
    }

    // ---- direct probe: one leaf per case
    let want_direct: Vec<usize> = (0..NSUBJ).filter(|i| down[*i]).collect();
    out.inc("inp_direct_probes_judged");
    let mut seen = vec![false; NSUBJ];
    let mut malformed = false;
    let mut last = None;
    for w in &obs_direct {
        if *w >= NSUBJ || seen[*w] || last.map(|l| l > *w).unwrap_or(false) {
            malformed = true;
        } else {
            seen[*w] = true;
        }
        last = Some(*w);
    }
    let names = |v: &[usize]| v.iter().map(|i| WITNESS[*i]).collect::<Vec<_>>();
    let witness = |sim: &Sim, extra: Value| {
        json!({"config": sc.cfg, "history": render_hist(&hist), "observed": names(&obs_direct), "expected": names(&want_direct),
            "subject_actions": (0..NSUBJ).map(|i| format!("{} {} = {} [{}] {}", subj_type(i), subj_name(i), sc.text[i], KINDS[sc.kind[i]].0, if down[i] { "DOWN" } else { "up" })).collect::<Vec<_>>(),
            "detail": extra, "trace": sim.trace_json()})
    };
    if malformed {
        out.violate(
            "C10:inp:direct-switch-order-or-duplicates",
            "the one-leaf-per-case switch performed a case twice, out of order, or a witness of the other switch",
            witness(&sim, json!(null)),
        );
    }
    let mut sigs: Vec<String> = vec![];
    for i in 0..NSUBJ {
        if seen[i] == down[i] {
            continue;
        }
        let kn = KINDS[sc.kind[i]].0;
        let ty = subj_type(i);
        let probe_on = if sc.direct_virtual { "virtual" } else { "physical" };
        let (sig, what) = if down[i] {
            (
                format!("C10:inp:pressed-key-not-seen:{ty}:{kn}"),
                format!("(input {ty} {}) is false although {} is pressed (its action: {}); switch evaluated on a {probe_on} key", subj_name(i), subj_name(i), sc.text[i]),
            )
        } else {
            (
                format!("C10:inp:released-key-seen:{ty}:{kn}"),
                format!("(input {ty} {}) is true although {} is not pressed (its action: {}); switch evaluated on a {probe_on} key", subj_name(i), subj_name(i), sc.text[i]),
            )
        };
        if !sigs.contains(&sig) {
            sigs.push(sig.clone());
            out.violate(sig, what, witness(&sim, json!({"leaf": format!("(input {ty} {})", subj_name(i)), "action_kind": kn})));
        }
    }

    // ---- complex probe
    let mut st_model = state_of(&sc, &vk_idx, &down);
    let mut st_seen = state_of(&sc, &vk_idx, &seen);
    st_model.hi = hi.clone();
    st_seen.hi = hi.clone();
    let mut ih = vec![];
    for c in &sc.complex {
        for it in &c.0 {
            input_hist_leaves(it, &mut ih);
        }
    }
    for (i, rec) in &ih {
        out.inc("inp_complex_input_history_leaves");
        if hi.get(*rec as usize - 1).map(|h| h.0 == inp_coord(*i, &sc.u, &vk_idx)).unwrap_or(false) {
            out.inc("inp_complex_input_history_leaf_true");
            let si = match i {
                Inp::Real(k) => *k,
                Inp::Virt(v) => NR + *v,
            };
            if !kind_is_key(sc.kind[si]) {
                out.inc("inp_complex_input_history_leaf_true_on_key_without_key_code_action");
            }
        }
    }
    let fire_model = firing(&sc.complex, &sc.u, &vk_idx, &st_model);
    let fire_seen = firing(&sc.complex, &sc.u, &vk_idx, &st_seen);
    let want_model: Vec<usize> = fire_model.iter().map(|c| NSUBJ + c).collect();
    let want_seen: Vec<usize> = fire_seen.iter().map(|c| NSUBJ + c).collect();
    out.inc("inp_complex_probes_judged");
    out.count("inp_complex_cases", sc.complex.len() as u64);
    if !fire_model.is_empty() {
        out.inc("inp_complex_some_case_fired");
    }
    // does the result depend on a down key whose only action is a custom action?
    for i in 0..NSUBJ {
        if down[i] && kind_custom_only(sc.kind[i]) {
            let mut d2 = down.clone();
            d2[i] = false;
            let mut st2 = state_of(&sc, &vk_idx, &d2);
            st2.hi = hi.clone();
            if firing(&sc.complex, &sc.u, &vk_idx, &st2) != fire_model {
                out.inc("inp_complex_result_depends_on_down_key_whose_only_action_is_custom");
                break;
            }
        }
    }
    if obs_complex == want_model {
        // fine
    } else if seen != down && obs_complex == want_seen {
        // consistent with the leaf values the direct probe reported: the leaf is already reported above
        out.inc("inp_complex_consistent_with_misjudged_leaves_of_direct_probe");
    } else {
        let sig = if seen == down { "C10:inp:complex-switch-sequence" } else { "C10:inp:complex-switch-disagrees-with-one-leaf-cases" };
        out.violate(
            sig,
            format!("switch over input tests performed {:?}, expected {:?}", names(&obs_complex), names(&want_model)),
            json!({"config": sc.cfg, "history": render_hist(&hist), "observed": names(&obs_complex), "expected": names(&want_model),
                "expected_with_leaf_values_of_the_one_leaf_switch": names(&want_seen),
                "subject_actions": (0..NSUBJ).map(|i| format!("{} {} = {} {}", subj_type(i), subj_name(i), sc.text[i], if down[i] { "DOWN" } else { "up" })).collect::<Vec<_>>(),
                "trace": sim.trace_json()}),
        );
    }
    if r % 400 == 5 && out.sample.is_none() {
        out.sample = Some(json!({"part": "e2e-input-any-action", "config": sc.cfg, "history": render_hist(&hist), "direct": names(&obs_direct), "complex": names(&obs_complex)}));
    }
}
