//! C12, echo family: the virtual key's own output contains keys that were typed as part of the
//! sequence, and typed keys are still physically down when the sequence completes and while the
//! virtual key acts (the completing key held for 0-60 ticks, earlier keys rolled over into the
//! next press). "Taps its virtual key exactly once" is read at the OS: what the virtual key's
//! action writes when tapped once must arrive there completely, once, as taps.

use super::*;

/// what the virtual key of a sequence does
#[derive(Clone, Copy, Debug, PartialEq, Eq)]
pub(super) enum EchoKind {
    /// `(macro <witness> k1 .. kn)`: every character key of the sequence, in the order listed
    MacroAll,
    /// `(macro k <witness>)`: a typed key is the first thing the macro writes
    MacroFirst,
    /// `(macro <witness> 15 k)`: a typed key written some time after completion
    MacroDelayed,
    /// `k`: the action is one typed key (no witness)
    Key,
    /// `(multi <witness> k)`: witness and a typed key pressed together
    Multi,
}
pub(super) const ECHO_KINDS: [EchoKind; 5] = [EchoKind::MacroAll, EchoKind::MacroFirst, EchoKind::MacroDelayed, EchoKind::Key, EchoKind::Multi];
const MACRO_DELAY: u64 = 15;
/// ticks the completing key stays down after its press arrived (0 = release queued right behind it)
const HOLDS: [u64; 8] = [0, 1, 2, 3, 6, 12, 30, 60];

impl EchoKind {
    pub(super) fn name(self) -> &'static str {
        match self {
            EchoKind::MacroAll => "macro-of-all-typed-keys",
            EchoKind::MacroFirst => "macro-typed-key-first",
            EchoKind::MacroDelayed => "macro-typed-key-delayed",
            EchoKind::Key => "key-action",
            EchoKind::Multi => "multi-action",
        }
    }
    fn is_macro(self) -> bool {
        matches!(self, EchoKind::MacroAll | EchoKind::MacroFirst | EchoKind::MacroDelayed)
    }
}

/// character keys of a sequence in the order listed
fn char_keys(els: &[El]) -> Vec<String> {
    let mut v = vec![];
    for e in els {
        match e {
            El::Plain(k) => v.push(ALPHA[*k as usize].to_string()),
            El::Mod { keys, .. } | El::Ov(keys) => v.extend(keys.iter().map(|k| ALPHA[*k as usize].to_string())),
            El::Bare(_) => {}
        }
    }
    v
}

/// the action of every sequence's virtual key and the key presses one tap of it writes (config names)
pub(super) struct EchoTable {
    pub(super) kind: EchoKind,
    pub(super) actions: Vec<String>,
    pub(super) expect: Vec<Vec<String>>,
    /// the typed key the action outputs (all of them for MacroAll)
    pub(super) echoed: Vec<Vec<String>>,
}

pub(super) fn echo_table(table: &Table, kind: EchoKind, rng: &mut Rng) -> Option<EchoTable> {
    let mut actions = vec![];
    let mut expect = vec![];
    let mut echoed = vec![];
    for (i, q) in table.seqs.iter().enumerate() {
        let ck = char_keys(&q.els);
        if ck.is_empty() {
            return None;
        }
        // the key that completes the sequence (as listed) three times in four, else any typed key
        let k = if rng.chance(3, 4) { ck[ck.len() - 1].clone() } else { ck[rng.usize(ck.len())].clone() };
        let w = WIT[i].to_string();
        let (a, e, ec) = match kind {
            EchoKind::MacroAll => {
                let mut e = vec![w.clone()];
                e.extend(ck.iter().cloned());
                (format!("(macro {})", e.join(" ")), e, ck.clone())
            }
            EchoKind::MacroFirst => (format!("(macro {k} {w})"), vec![k.clone(), w], vec![k]),
            EchoKind::MacroDelayed => (format!("(macro {w} {MACRO_DELAY} {k})"), vec![w, k.clone()], vec![k]),
            EchoKind::Key => (k.clone(), vec![k.clone()], vec![k]),
            EchoKind::Multi => (format!("(multi {w} {k})"), vec![w, k.clone()], vec![k]),
        };
        actions.push(a);
        expect.push(e);
        echoed.push(ec);
    }
    Some(EchoTable { kind, actions, expect, echoed })
}

/// the configuration `cfg` (built from `table.text()`) with the virtual keys' actions replaced
pub(super) fn echo_config(cfg: &str, table: &Table, et: &EchoTable) -> String {
    let mut s = cfg.to_string();
    for i in 0..table.seqs.len() {
        s = s.replacen(&format!(" v{i} (macro {})", WIT[i]), &format!(" v{i} {}", et.actions[i]), 1);
    }
    s
}

pub(super) struct EchoSc {
    pub(super) hist: Vec<Ev>,
    /// (trace name, tick the press is consumed, tick the release is consumed) of every typed press
    pub(super) keys: Vec<(String, u64, u64)>,
    /// tick that consumes the completing press
    pub(super) completion: u64,
    pub(super) probe_at: u64,
    pub(super) hold: u64,
    pub(super) rollover: bool,
}

/// the canonical steps with every release of a character key that is directly followed by the press
/// of another key moved behind that press (the fingers roll over)
fn roll_over(steps: &[(bool, String)]) -> Vec<(bool, String)> {
    let mut v = steps.to_vec();
    let mut i = 0;
    while i + 1 < v.len() {
        if !v[i].0 && v[i + 1].0 && v[i].1 != v[i + 1].1 && !is_mod_name(&tn(&v[i].1)) {
            v.swap(i, i + 1);
            i += 2;
        } else {
            i += 1;
        }
    }
    v
}

/// complete typing of `steps`; whatever is still down after the completing press stays down for
/// `hold` ticks; the probe key comes `settle` ticks after completion at the earliest
pub(super) fn build_echo(steps: &[(bool, String)], leader: Leader, hold: u64, rollover: bool, settle: u64, rng: &mut Rng) -> EchoSc {
    let steps = if rollover { roll_over(steps) } else { steps.to_vec() };
    let mut sc = Sched { t: 0, proc: 0, evs: vec![] };
    let lk = osc(LEADER_KEY);
    if leader != Leader::AlwaysOn {
        sc.at(3, Ev::P(lk));
        sc.after(1, Ev::R(lk));
    } else {
        sc.t = 4;
    }
    let last_press = steps.iter().rposition(|s| s.0).unwrap_or(0);
    let mut keys: Vec<(String, u64, u64)> = vec![];
    let mut completion = 0;
    for (i, (is_press, key)) in steps.iter().enumerate() {
        if *is_press {
            sc.after(1 + rng.below(2), Ev::P(osc(key)));
            keys.push((tn(key), sc.proc, u64::MAX));
            if i == last_press {
                completion = sc.proc;
            }
        } else {
            let gap = if i == last_press + 1 { hold } else { 1 };
            sc.after(gap, Ev::R(osc(key)));
            let n = tn(key);
            if let Some(k) = keys.iter_mut().rev().find(|k| k.0 == n && k.2 == u64::MAX) {
                k.2 = sc.proc;
            }
        }
    }
    let probe_at = (sc.t.max(sc.proc) + 3).max(completion + settle);
    sc.at(probe_at, Ev::P(osc(PROBE)));
    sc.after(2, Ev::R(osc(PROBE)));
    let end = sc.t + 15;
    EchoSc { hist: sc.hist(end), keys, completion, probe_at, hold, rollover }
}

pub(super) fn pick_hold(rng: &mut Rng, long: bool, short_only: bool) -> u64 {
    if short_only {
        *rng.pick(&HOLDS[..4])
    } else if long {
        *rng.pick(&HOLDS[4..])
    } else {
        *rng.pick(&HOLDS)
    }
}

pub(super) fn settle_for(et: &EchoTable, si: usize) -> u64 {
    2 * et.expect[si].len() as u64 + if et.kind == EchoKind::MacroDelayed { MACRO_DELAY } else { 0 } + 8
}

pub(super) const KEY_ACTION_LOST: &str = "C12:vkey-key-action-output-lost:typed-key-held-at-completion";

#[allow(clippy::too_many_arguments)]
pub(super) fn run_and_judge_echo(out: &mut CaseOut, verbose: bool, table: &Table, cfg: &str, mode: Mode, leader: Leader, et: &EchoTable, si: usize, ord: &[El], sc: &EchoSc) {
    let mut sim = match Sim::new(cfg) {
        Ok(s) => s,
        Err(e) => {
            out.inconclusive = Some(format!("echo configuration accepted by the parser but not by Kanata::new_from_str: {}", e.lines().next().unwrap_or("")));
            return;
        }
    };
    for e in &sc.hist {
        sim.apply(e);
    }
    let active_at_end = sim.k.sequence_state.is_active();
    let trace = sim.normalized();
    if verbose {
        eprintln!("echo {} [{}] hold={} rollover={} | {}\n   -> {:?}", seq_text(ord), et.kind.name(), sc.hold, sc.rollover, render_hist(&sc.hist), trace.iter().map(|o| o.short()).collect::<Vec<_>>());
    }
    out.inc("echo_scenarios");
    out.inc(&format!("echo_scenarios:{}", et.kind.name()));
    if sc.rollover {
        out.inc("echo_scenarios_typed_with_rollover");
    }
    if sc.hold >= 6 {
        out.inc("echo_scenarios_completing_key_held_6_to_60_ticks");
    }
    let ctx = format!("{}/{}", mode.name(), leader.name());
    // key names the oracle looks at: every witness and every character key of the alphabet
    let mut watched: Vec<String> = WIT.iter().map(|w| tn(w)).collect();
    watched.extend(ALPHA.iter().map(|a| tn(a)));
    let probe_name = tn(PROBE);
    let probe_down_at = trace.iter().find(|o| o.kind == OutKind::Down && o.name == probe_name).map(|o| o.at);
    let window_end = probe_down_at.unwrap_or(sc.probe_at + 1);
    // presses the virtual key's action wrote: after the tick that consumed the completing press, before the probe
    let after: Vec<&Out> = trace.iter().filter(|o| o.at > sc.completion && o.at < window_end && watched.contains(&o.name)).collect();
    let got: Vec<String> = after.iter().filter(|o| o.kind == OutKind::Down).map(|o| o.name.clone()).collect();
    let want: Vec<String> = et.expect[si].iter().map(|k| tn(k)).collect();
    let same = if et.kind.is_macro() {
        got == want
    } else {
        let (mut a, mut b) = (got.clone(), want.clone());
        a.sort();
        b.sort();
        a == b
    };
    let held_at = |name: &str, t: u64| sc.keys.iter().any(|k| k.0 == name && k.1 <= t && t < k.2);
    let echoed: Vec<String> = et.echoed[si].iter().map(|k| tn(k)).collect();
    let echo_held_at_completion = echoed.iter().any(|k| held_at(k, sc.completion));
    let witness = |expected: Value| {
        json!({
            "config": cfg,
            "sequence": table.seqs[si].text(),
            "typed_ordering": seq_text(ord),
            "virtual_key_action": et.actions[si],
            "completing_key_held_ticks": sc.hold,
            "typed_with_rollover": sc.rollover,
            "history": render_hist(&sc.hist),
            "observed": trace.iter().map(|o| o.short()).collect::<Vec<_>>(),
            "completing_press_consumed_in_tick": sc.completion,
            "expected": expected,
        })
    };
    let hv = if mode.hidden() { "hidden-mode" } else { "visible-mode" };
    let mut ok = true;
    if !same {
        ok = false;
        // what the unchanged tree does: a key / multi action is pressed in the tick after completion,
        // when a typed key that is still down counts as an old press: exactly that key is missing
        let without_echo: Vec<String> = want.iter().filter(|k| !echoed.contains(k)).cloned().collect();
        let (mut a, mut b) = (got.clone(), without_echo);
        a.sort();
        b.sort();
        if !et.kind.is_macro() && echo_held_at_completion && a == b {
            out.inc("echo_key_action_of_held_typed_key_lost");
            out.violate(KEY_ACTION_LOST, format!("the virtual key's action ({}) outputs a typed key that is still down when the sequence completes; that key never reached the OS ({ctx})", et.actions[si]), witness(json!({"presses_after_completion": want, "observed": got})));
        } else {
            let missing_held = want.iter().any(|k| !got.contains(k) && echoed.contains(k));
            let what = if got.is_empty() { "nothing" } else if missing_held { "typed-key-missing" } else { "differs" };
            out.violate(
                format!("C12:vkey-output-not-as-tapped-once:{}:{hv}:{what}", et.kind.name()),
                format!("typing a defined sequence did not write what one tap of its virtual key ({}) writes: presses {got:?} instead of {want:?} ({ctx}, completing key held {} ticks)", et.actions[si], sc.hold),
                witness(json!({"presses_after_completion": want, "observed": got})),
            );
        }
    }
    if ok {
        out.inc("echo_completions_output_complete");
        out.inc(&format!("echo_completions_output_complete:{}", et.kind.name()));
        out.inc(if mode.hidden() { "echo_completions_output_complete_hidden_modes" } else { "echo_completions_output_complete_visible_mode" });
        // taps: every press is released again before the probe key
        let mut down: Vec<String> = vec![];
        for o in &after {
            match o.kind {
                OutKind::Down => down.push(o.name.clone()),
                OutKind::Up => down.retain(|n| n != &o.name),
                _ => {}
            }
        }
        if !down.is_empty() {
            out.violate(format!("C12:vkey-output-key-left-down:{}:{hv}", et.kind.name()), format!("key(s) {down:?} written by the virtual key's action were still down at the OS when the next key was typed ({ctx})"), witness(json!({"keys_down_before_probe": []})));
        }
        // the new dimension was reached: a typed key written by the action while it was physically down
        let n_held = after.iter().filter(|o| o.kind == OutKind::Down && echoed.contains(&o.name) && held_at(&o.name, o.at)).count() as u64;
        if n_held > 0 {
            out.inc("echo_scenarios_typed_key_output_while_physically_held");
            out.count("echo_typed_key_presses_output_while_physically_held", n_held);
            out.inc(if mode.hidden() { "echo_typed_key_output_while_held_hidden_modes" } else { "echo_typed_key_output_while_held_visible_mode" });
            out.inc(&format!("echo_typed_key_output_while_held:{}", et.kind.name()));
        }
        let typed_names: Vec<&String> = sc.keys.iter().map(|k| &k.0).collect();
        if mode.hidden() {
            let leaked: Vec<&Out> = trace.iter().filter(|o| o.kind == OutKind::Down && o.at <= sc.completion && typed_names.contains(&&o.name)).collect();
            if !leaked.is_empty() {
                out.violate("C12:hidden-mode-pressed-typed-key", format!("{} pressed typed key(s) {:?} at the OS before the sequence completed", mode.name(), leaked.iter().map(|o| o.short()).collect::<Vec<_>>()), witness(json!({"presses_of_typed_keys_until_completion": 0})));
            } else {
                out.inc("echo_hidden_completions_without_press");
            }
        } else {
            let chars = typed_names.iter().filter(|n| !is_mod_name(n)).count();
            let bsp = downs(&trace, "BSpace").len();
            if bsp != chars {
                out.violate("C12:backspace-count", format!("visible-backspaced sent {bsp} backspaces for {chars} characters typed"), witness(json!({"backspaces": chars})));
            } else {
                out.inc("echo_visible_completions_backspaced");
            }
        }
        let probe_downs = downs(&trace, &probe_name).len();
        if probe_downs != 1 {
            out.violate("C12:next-key-not-output-normally", format!("the plain key typed after the sequence ended was pressed {probe_downs} times at the OS ({ctx})"), witness(json!({"probe_presses": 1})));
        }
        if active_at_end {
            out.violate("C12:mode-active-at-end", format!("sequence mode active after the probe key ({ctx})"), witness(json!({"sequence_active": false})));
        }
    }
}
