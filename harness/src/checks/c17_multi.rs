//! C17, several tap-dance keys in one configuration.
//!
//! The single-key families of `c17.rs` use one tap-dance key and a plain interrupting key. Here
//! two or three keys of one configuration are tap-dance keys - eager+eager, eager+lazy, lazy+lazy,
//! with and without a plain third key, three dances at once - each with its own witness keys, list
//! length and timeout, and the histories interleave their taps inside each other's timeouts.
//!
//! The reference model is the per-key reading of the statement: every tap-dance key has a dance of
//! its own. A press of ANY other key (plain or tap-dance) ends the running dance ("the count ends
//! when ... another key is pressed"); the key that was pressed then starts its own dance at its
//! first action, whatever state the dance it interrupted was in; a key that is tapped again after
//! another key was pressed starts at its first action again, also inside its own timeout. The
//! processing discipline is the one of the single-key models (DESIGN appendix A): events are
//! consumed in arrival order, one per tick; while a lazy dance is undecided later events wait; a
//! lazy decision pauses event processing for `rapid-event-delay` ticks; the timeout of a dance
//! counts from the tick its press is processed; the eager timeout runs on every tick.
//! The model predicts the complete OS key stream (key, down/up, tick).

use crate::core::sim::{code_name, osc, render_hist, Ev, OutKind, Sim};
use crate::core::{CaseOut, Ctx, Tier};
use serde_json::{json, Value};
use std::collections::VecDeque;

#[derive(Clone, Copy, Debug, PartialEq, Eq)]
pub enum Kind {
    Plain,
    Lazy { len: usize, t: u32 },
    Eager { len: usize, t: u32 },
}

impl Kind {
    fn form(&self) -> &'static str {
        match self {
            Kind::Plain => "plain",
            Kind::Lazy { .. } => "lazy",
            Kind::Eager { .. } => "eager",
        }
    }
    fn t(&self) -> Option<u32> {
        match self {
            Kind::Plain => None,
            Kind::Lazy { t, .. } | Kind::Eager { t, .. } => Some(*t),
        }
    }
    fn len(&self) -> usize {
        match self {
            Kind::Plain => 1,
            Kind::Lazy { len, .. } | Kind::Eager { len, .. } => *len,
        }
    }
}

#[derive(Clone, Debug)]
pub struct MConf {
    pub keys: Vec<Kind>,
    pub r: u32,
    /// events of the exhaustive schedules (quick, thorough)
    pub n: (u32, u32),
}

const SRC: [&str; 3] = ["a", "b", "c"];
/// witness keys per physical key and list position
const WIT: [[&str; 4]; 3] = [["1", "2", "3", "4"], ["5", "6", "7", "8"], ["u", "i", "o", "p"]];
/// model key id: 10 * physical key + list position; a plain key is 10 * physical key + 9
const PLAIN_POS: u8 = 9;

impl MConf {
    pub fn text(&self) -> String {
        let k = self.keys.len();
        let acts: Vec<String> = self
            .keys
            .iter()
            .enumerate()
            .map(|(i, kind)| match kind {
                Kind::Plain => SRC[i].to_string(),
                Kind::Lazy { len, t } => format!("(tap-dance {t} ({}))", WIT[i][..*len].join(" ")),
                Kind::Eager { len, t } => format!("(tap-dance-eager {t} ({}))", WIT[i][..*len].join(" ")),
            })
            .collect();
        format!(
            "(defcfg process-unmapped-keys yes rapid-event-delay {r})\n(defsrc {src})\n(deflayer base {acts})\n",
            r = self.r,
            src = SRC[..k].join(" "),
            acts = acts.join(" ")
        )
    }
    pub fn label(&self) -> String {
        let ks: Vec<String> = self
            .keys
            .iter()
            .map(|k| match k {
                Kind::Plain => "P".to_string(),
                Kind::Lazy { len, t } => format!("L{len}/{t}"),
                Kind::Eager { len, t } => format!("E{len}/{t}"),
            })
            .collect();
        format!("multi|{}|R{}", ks.join("+"), self.r)
    }
    /// the forms of the tap-dance keys, sorted: "eager+eager", "eager+lazy", "eager+lazy+lazy", ...
    pub fn forms(&self) -> String {
        let mut f: Vec<&str> = self.keys.iter().filter(|k| **k != Kind::Plain).map(|k| k.form()).collect();
        f.sort();
        f.join("+")
    }
    fn timeouts(&self) -> Vec<u32> {
        let mut v: Vec<u32> = self.keys.iter().filter_map(|k| k.t()).collect();
        v.sort();
        v.dedup();
        v
    }
    fn gaps(&self) -> Vec<u32> {
        let mut g = vec![0, 1];
        for t in self.timeouts() {
            g.extend([t - 1, t, t + 1]);
        }
        g.sort();
        g.dedup();
        g
    }
    /// counter group: which forms dance together
    fn group(&self) -> String {
        let f = self.forms().replace('+', "_");
        if self.keys.len() == 3 {
            format!("3keys_{f}")
        } else {
            f
        }
    }
}

pub fn configs() -> Vec<MConf> {
    use Kind::*;
    let mut v = vec![];
    type Mk = fn(usize, u32) -> Kind;
    let e: Mk = |len, t| Eager { len, t };
    let l: Mk = |len, t| Lazy { len, t };
    // two tap-dance keys: form pair x (list lengths, timeouts, rapid-event-delay)
    // (with two different timeouts the gap set has 8 values instead of 5: one event less)
    for (ka, kb) in [(e, e), (e, l), (l, l)] {
        for &((la, lb), (ta, tb), r, n) in &[
            ((3usize, 3usize), (3u32, 3u32), 0u32, (6u32, 7u32)),
            ((2, 3), (3, 3), 5, (6, 6)),
            ((1, 2), (3, 3), 5, (6, 6)),
            ((3, 2), (60, 60), 5, (6, 6)),
            ((2, 4), (3, 5), 0, (5, 6)),
            ((3, 2), (60, 40), 0, (5, 5)),
        ] {
            v.push(MConf { keys: vec![ka(la, ta), kb(lb, tb)], r, n });
        }
    }
    // the mixed pair also with the lazy key first in the list lengths that differ
    v.push(MConf { keys: vec![l(2, 3), e(3, 3)], r: 5, n: (6, 6) });
    v.push(MConf { keys: vec![l(3, 60), e(2, 60)], r: 0, n: (6, 6) });
    // three keys: two dances and a plain key, three dances
    v.push(MConf { keys: vec![e(2, 3), e(3, 3), Plain], r: 0, n: (5, 6) });
    v.push(MConf { keys: vec![e(2, 3), l(3, 3), Plain], r: 5, n: (5, 6) });
    v.push(MConf { keys: vec![l(2, 3), l(3, 3), Plain], r: 0, n: (5, 6) });
    v.push(MConf { keys: vec![e(3, 3), e(2, 3), e(2, 3)], r: 5, n: (5, 5) });
    v.push(MConf { keys: vec![e(2, 3), e(3, 3), l(2, 3)], r: 5, n: (5, 5) });
    v.push(MConf { keys: vec![e(3, 3), l(2, 3), l(2, 3)], r: 0, n: (5, 5) });
    v.push(MConf { keys: vec![l(2, 3), l(3, 3), l(2, 3)], r: 0, n: (5, 5) });
    v
}

// ------------------------------------------------------------------------------------------------
// schedules

#[derive(Clone, Debug)]
pub struct MSched {
    /// (physical key, press, gap in ticks before the event)
    pub evs: Vec<(u8, bool, u32)>,
}

impl MSched {
    fn hist(&self) -> Vec<Ev> {
        let mut h = vec![];
        for (k, p, g) in &self.evs {
            if *g > 0 {
                h.push(Ev::T(*g));
            }
            let code = osc(SRC[*k as usize]);
            h.push(if *p { Ev::P(code) } else { Ev::R(code) });
        }
        h
    }
    fn arrivals(&self) -> Vec<(u8, bool, u64)> {
        let mut t = 0u64;
        self.evs
            .iter()
            .map(|(k, p, g)| {
                t += *g as u64;
                (*k, *p, t)
            })
            .collect()
    }
    fn from_abs(mut abs: Vec<(u64, u8, bool)>) -> MSched {
        abs.sort_by_key(|e| e.0);
        let mut evs = vec![];
        let mut last = abs.first().map(|e| e.0).unwrap_or(0);
        for (at, k, p) in abs {
            evs.push((k, p, (at - last) as u32));
            last = at;
        }
        MSched { evs }
    }
}

fn block(n: u32, nk: u64, ng: u64) -> u64 {
    nk.pow(n) * ng.pow(n - 1)
}
pub fn total_exhaustive(nmax: u32, nk: u64, ng: u64) -> u64 {
    (1..=nmax).map(|n| block(n, nk, ng)).sum()
}

/// Exhaustive schedule number `s`: n events, each the toggle (press if up, release if down) of one
/// of the keys, with a gap from the set before every event but the first; keys still down after
/// the n-th event are released afterwards.
fn exhaustive_sched(mut s: u64, nmax: u32, nk: u64, gaps: &[u32]) -> Option<MSched> {
    let ng = gaps.len() as u64;
    let mut n = 1;
    loop {
        if n > nmax {
            return None;
        }
        let b = block(n, nk, ng);
        if s < b {
            break;
        }
        s -= b;
        n += 1;
    }
    let kn = nk.pow(n);
    let mut keysel = s % kn;
    let ksum = keysel as usize;
    let mut g = s / kn;
    let mut evs = vec![];
    let mut down = [false; 3];
    let mut gsum = 0usize;
    for i in 0..n {
        let gap = if i == 0 {
            0
        } else {
            let gi = (g % ng) as usize;
            g /= ng;
            gsum += gi;
            gaps[gi]
        };
        let k = (keysel % nk) as usize;
        keysel /= nk;
        down[k] = !down[k];
        evs.push((k as u8, down[k], gap));
    }
    let mut cg = gaps[(gsum + n as usize) % gaps.len()];
    let first = (gsum + ksum) % nk as usize;
    for j in 0..nk as usize {
        let k = (first + j) % nk as usize;
        if down[k] {
            evs.push((k as u8, false, cg));
            cg = 1;
            down[k] = false;
        }
    }
    Some(MSched { evs })
}

/// Systematic "interleaved taps" family: every sequence of 2..=6 taps (2..=4 with three keys) over
/// the keys that uses at least two different keys, a uniform press-to-press distance pp (around
/// T/2, so that the distance to the previous tap of the SAME key across one tap of another key is
/// around T, and around T) and a uniform hold; "rolling" variant: a key is released only after
/// the next (different) key was pressed.
fn interleave_family(c: &MConf) -> Vec<MSched> {
    let nk = c.keys.len();
    let ts = c.timeouts();
    let (tmin, tmax) = (ts[0], ts[ts.len() - 1]);
    let mut holds = vec![0u32, 1, tmin - 1];
    holds.dedup();
    let mut pps = vec![2u32, tmax + c.r + 3];
    for t in &ts {
        pps.extend([t / 2, t / 2 + 1, t - 1, *t, t + 1]);
    }
    pps.retain(|p| *p >= 2);
    pps.sort();
    pps.dedup();
    let kmax = if nk == 2 { 6 } else { 4 };
    let mut out = vec![];
    for k in 2..=kmax {
        for code in 0..(nk as u64).pow(k) {
            let mut seq = vec![];
            let mut x = code;
            for _ in 0..k {
                seq.push((x % nk as u64) as u8);
                x /= nk as u64;
            }
            if seq.iter().all(|s| *s == seq[0]) {
                continue;
            }
            for &h in &holds {
                for &pp in &pps {
                    if pp <= h {
                        continue;
                    }
                    for roll in [false, true] {
                        let mut abs = vec![];
                        for (i, key) in seq.iter().enumerate() {
                            let at = i as u64 * pp as u64;
                            abs.push((at, *key, true));
                            let rolls = roll && i + 1 < seq.len() && seq[i + 1] != *key;
                            abs.push((if rolls { at + pp as u64 + 1 } else { at + h as u64 }, *key, false));
                        }
                        out.push(MSched::from_abs(abs));
                    }
                }
            }
        }
    }
    out
}

// ------------------------------------------------------------------------------------------------
// reference model

#[derive(Clone, Debug, PartialEq, Eq)]
pub struct MOut {
    at: u64,
    down: bool,
    key: u8,
}

#[derive(Clone, Debug)]
struct Dance {
    key: u8,
    taps: u8,
    /// "timeout", "exhausted", "other-key"
    cause: &'static str,
    /// form of the key whose press ended the dance
    ender: Option<&'static str>,
    /// the first press of this dance ended a running dance of another key of this form
    started_by_ending: Option<&'static str>,
}

#[derive(Clone, Debug, Default)]
struct MRes {
    outs: Vec<MOut>,
    boundary: usize,
    undetermined: Option<&'static str>,
    dances: Vec<Dance>,
    end_tick: u64,
}

const CH_COUNTED: u8 = 0;
const CH_NEWDANCE: u8 = 1;

#[derive(Clone, Copy)]
struct Run {
    key: u8,
    n: usize,
    timer: u64,
    started_by_ending: Option<&'static str>,
}

#[derive(Clone, Copy)]
struct QEv {
    key: u8,
    press: bool,
    /// set when this press ended a lazy dance of another key
    ended: Option<&'static str>,
}

fn model(c: &MConf, evs: &[(u8, bool, u64)], choices: &[u8]) -> MRes {
    let mut res = MRes::default();
    let mut q: VecDeque<QEv> = VecDeque::new();
    let mut next = 0usize;
    let mut pause = 0u32;
    let mut waiting: Option<Run> = None;
    let mut eager: Option<Run> = None;
    let mut held: [Option<u8>; 3] = [None; 3];
    let mut tick = 0u64;
    let last_arrival = evs.last().map(|e| e.2).unwrap_or(0);
    loop {
        tick += 1;
        while next < evs.len() && evs[next].2 < tick {
            q.push_back(QEv { key: evs[next].0, press: evs[next].1, ended: None });
            next += 1;
        }
        // the eager timeout runs on every tick
        if let Some(mut e) = eager {
            e.timer = e.timer.saturating_sub(1);
            let len = c.keys[e.key as usize].len();
            if e.timer == 0 || e.n >= len {
                res.dances.push(Dance {
                    key: e.key,
                    taps: e.n.min(9) as u8,
                    cause: if e.n >= len { "exhausted" } else { "timeout" },
                    ender: None,
                    started_by_ending: e.started_by_ending,
                });
                eager = None;
            } else {
                eager = Some(e);
            }
        }
        if let Some(w) = waiting {
            let x = w.key;
            let kind = c.keys[x as usize];
            let (len, t_cfg) = (kind.len(), kind.t().unwrap_or(1) as u64);
            let timer = w.timer.saturating_sub(1);
            let expired = timer == 0;
            // presses of the dance key before the first press of another key
            let mut c_all = 1usize;
            let mut first_o: Option<usize> = None;
            let mut d_after_o = 0usize;
            for (i, e) in q.iter().enumerate() {
                if !e.press {
                    continue;
                }
                if e.key == x {
                    if first_o.is_none() {
                        c_all += 1;
                    } else {
                        d_after_o += 1;
                    }
                } else if first_o.is_none() {
                    first_o = Some(i);
                }
            }
            let has_o = first_o.is_some();
            let boundary = expired && (c_all > w.n || d_after_o > 0);
            let mut choice = CH_NEWDANCE;
            if boundary {
                choice = choices.get(res.boundary).copied().unwrap_or(CH_COUNTED);
                res.boundary += 1;
                if choice == CH_COUNTED && c_all == w.n {
                    choice = CH_NEWDANCE;
                }
            }
            let decided: Option<(usize, &'static str)> = if expired && !(boundary && choice == CH_COUNTED) {
                Some((w.n, "timeout"))
            } else if has_o {
                Some((c_all, "other-key"))
            } else if c_all >= len {
                Some((c_all, "exhausted"))
            } else {
                None
            };
            match decided {
                Some((cnt, cause)) => {
                    if cnt > len {
                        res.undetermined = Some("more presses queued than list items");
                    }
                    let used = cnt.min(len);
                    // the counted taps collapse into one press held until the final release
                    let mut pr = used.saturating_sub(1);
                    let mut rel = used.saturating_sub(1);
                    let mut ender = None;
                    if cause == "other-key" {
                        if let Some(i) = first_o {
                            ender = Some(c.keys[q[i].key as usize].form());
                            q[i].ended = Some("lazy");
                        }
                        if d_after_o > 0 && res.undetermined.is_none() {
                            res.undetermined = Some("dance key pressed again behind the interrupting key within one examination");
                        }
                    }
                    q.retain(|e| {
                        if e.key != x {
                            return true;
                        }
                        if e.press && pr > 0 {
                            pr -= 1;
                            false
                        } else if !e.press && rel > 0 {
                            rel -= 1;
                            false
                        } else {
                            true
                        }
                    });
                    let id = x * 10 + (used - 1) as u8;
                    res.outs.push(MOut { at: tick, down: true, key: id });
                    held[x as usize] = Some(id);
                    res.dances.push(Dance { key: x, taps: cnt.min(9) as u8, cause, ender, started_by_ending: w.started_by_ending });
                    pause = c.r;
                    waiting = None;
                }
                None => {
                    let (n2, timer2) = if c_all > w.n { (c_all, t_cfg) } else { (w.n, timer) };
                    waiting = Some(Run { n: n2, timer: timer2, ..w });
                }
            }
        } else if pause > 0 {
            pause -= 1;
        } else if let Some(e) = q.pop_front() {
            let x = e.key;
            let kind = c.keys[x as usize];
            if e.press {
                let mut started_by_ending = e.ended;
                let mut continued = false;
                if let Some(mut run) = eager {
                    if run.key == x {
                        // the next tap of the running eager dance
                        let id = x * 10 + run.n as u8;
                        run.n += 1;
                        run.timer = kind.t().unwrap_or(1) as u64;
                        eager = Some(run);
                        if let Some(k) = held[x as usize].take() {
                            res.outs.push(MOut { at: tick, down: false, key: k });
                        }
                        res.outs.push(MOut { at: tick, down: true, key: id });
                        held[x as usize] = Some(id);
                        continued = true;
                    } else {
                        // another key ends the running eager dance
                        res.dances.push(Dance {
                            key: run.key,
                            taps: run.n.min(9) as u8,
                            cause: "other-key",
                            ender: Some(kind.form()),
                            started_by_ending: run.started_by_ending,
                        });
                        eager = None;
                        started_by_ending = Some("eager");
                    }
                }
                if !continued {
                    match kind {
                        Kind::Plain => {
                            let id = x * 10 + PLAIN_POS;
                            res.outs.push(MOut { at: tick, down: true, key: id });
                            held[x as usize] = Some(id);
                        }
                        Kind::Lazy { t, .. } => {
                            waiting = Some(Run { key: x, n: 1, timer: t as u64, started_by_ending });
                        }
                        Kind::Eager { t, .. } => {
                            eager = Some(Run { key: x, n: 1, timer: t as u64, started_by_ending });
                            if let Some(k) = held[x as usize].take() {
                                res.outs.push(MOut { at: tick, down: false, key: k });
                            }
                            let id = x * 10;
                            res.outs.push(MOut { at: tick, down: true, key: id });
                            held[x as usize] = Some(id);
                        }
                    }
                }
            } else if let Some(k) = held[x as usize].take() {
                res.outs.push(MOut { at: tick, down: false, key: k });
            }
        }
        if next >= evs.len() && q.is_empty() && waiting.is_none() && eager.is_none() && pause == 0 && tick > last_arrival {
            break;
        }
        if tick > last_arrival + 100_000 {
            res.undetermined = Some("model did not terminate");
            break;
        }
    }
    res.end_tick = tick;
    res
}

// ------------------------------------------------------------------------------------------------
// observation

struct Names {
    /// (output key name, model key id)
    map: Vec<(String, u8)>,
}

fn names(c: &MConf) -> Names {
    let mut map = vec![];
    for (i, k) in c.keys.iter().enumerate() {
        match k {
            Kind::Plain => map.push((code_name(osc(SRC[i])), i as u8 * 10 + PLAIN_POS)),
            _ => {
                for p in 0..4 {
                    map.push((code_name(osc(WIT[i][p])), i as u8 * 10 + p as u8));
                }
            }
        }
    }
    Names { map }
}

const K_OTHER_OUTPUT: u8 = 200;
const K_REPRESS: u8 = 254;
const K_UNKNOWN: u8 = 255;

fn observe(sim: &mut Sim, c: &MConf, s: &MSched, model_end: u64, nm: &Names) -> (Vec<MOut>, Vec<String>, bool) {
    sim.trace.clear();
    sim.last_step_start = 0;
    let base = sim.now;
    for (k, p, g) in &s.evs {
        sim.ticks(*g as u64);
        let code = osc(SRC[*k as usize]);
        if *p {
            sim.press(code)
        } else {
            sim.release(code)
        }
    }
    let tmax = c.timeouts().last().copied().unwrap_or(1);
    let margin = (tmax + c.r + 8) as u64;
    let mut target = model_end.max(sim.now - base) + margin;
    let mut settled = false;
    for _round in 0..4 {
        while sim.now - base < target {
            sim.tick();
        }
        let quiet = sim.trace.last().map(|o| sim.now - o.at >= margin.min(20)).unwrap_or(true);
        if sim.is_idle() && sim.os.all_up() && quiet {
            settled = true;
            break;
        }
        target += 150;
    }
    let mut outs = vec![];
    let mut raw = vec![];
    for o in &sim.trace {
        let p = match o.kind {
            OutKind::Down => "↓",
            OutKind::Up => "↑",
            _ => "?",
        };
        raw.push(format!("{p}{}@{}{}", o.name, o.at - base, if o.redundant { "(redundant)" } else { "" }));
        if o.redundant {
            continue;
        }
        let down = match o.kind {
            OutKind::Down => true,
            OutKind::Up => false,
            _ => {
                outs.push(MOut { at: o.at - base, down: true, key: K_OTHER_OUTPUT });
                continue;
            }
        };
        let key = nm.map.iter().find(|(n, _)| *n == o.name).map(|x| x.1).unwrap_or(K_UNKNOWN);
        outs.push(MOut { at: o.at - base, down, key: if o.repress { K_REPRESS } else { key } });
    }
    (outs, raw, settled)
}

fn render_outs(v: &[MOut], nm: &Names) -> Vec<String> {
    v.iter()
        .map(|o| {
            let n = match nm.map.iter().find(|(_, id)| *id == o.key) {
                Some((n, _)) => n.clone(),
                None if o.key == K_REPRESS => "<re-press>".into(),
                None => "<unexpected>".into(),
            };
            format!("{}{}@{}", if o.down { "↓" } else { "↑" }, n, o.at)
        })
        .collect()
}

fn same_order(a: &[MOut], b: &[MOut]) -> bool {
    a.len() == b.len() && a.iter().zip(b).all(|(x, y)| x.down == y.down && x.key == y.key)
}

/// Invariants that hold whatever the tap counts are: kanata returns to idle with everything up,
/// nothing but list actions and plain keys is output, a plain key's events come out exactly once
/// each, in order and not before they went in, a tap-dance key gives at least one and at most as
/// many activations as it was pressed, all of them from its own list.
fn invariants(c: &MConf, s: &MSched, obs: &[MOut], settled: bool) -> Option<(&'static str, String)> {
    if !settled {
        return Some(("stuck", "kanata did not return to idle with every key up after the schedule".into()));
    }
    let arr = s.arrivals();
    if obs.iter().any(|o| o.key >= K_OTHER_OUTPUT) {
        return Some(("unexpected-output", "an output that is neither a list action nor a plain key (or a re-press of a key that is down)".into()));
    }
    for (i, kind) in c.keys.iter().enumerate() {
        let i = i as u8;
        let ins: Vec<(bool, u64)> = arr.iter().filter(|e| e.0 == i).map(|e| (e.1, e.2)).collect();
        let outs: Vec<&MOut> = obs.iter().filter(|o| o.key / 10 == i).collect();
        match kind {
            Kind::Plain => {
                if outs.len() != ins.len() {
                    return Some(("interrupting-key-lost", format!("plain key {}: {} events in, {} out", SRC[i as usize], ins.len(), outs.len())));
                }
                for (j, (down, a)) in ins.iter().enumerate() {
                    if outs[j].down != *down {
                        return Some(("interrupting-key-reordered", "a plain key's press/release order changed".into()));
                    }
                    if outs[j].at <= *a {
                        return Some(("interrupting-key-early", "a plain key output before its input".into()));
                    }
                }
            }
            _ => {
                let presses = ins.iter().filter(|e| e.0).count();
                let acts = outs.iter().filter(|o| o.down).count();
                if outs.iter().any(|o| (o.key % 10) as usize >= kind.len()) {
                    return Some(("unexpected-output", "a key that is not in the action list of the tap-dance key".into()));
                }
                if acts > presses {
                    return Some(("activation-count", format!("{acts} activations for {presses} presses of tap-dance key {}", SRC[i as usize])));
                }
                if presses > 0 && acts == 0 {
                    return Some(("activation-count", format!("tap-dance key {} pressed but no action performed", SRC[i as usize])));
                }
            }
        }
    }
    None
}

struct Judged {
    sig: Option<(String, String)>,
    expected: Vec<MOut>,
    observed: Vec<MOut>,
    raw: Vec<String>,
    model: MRes,
}

fn judge(sim: &mut Sim, c: &MConf, s: &MSched, nm: &Names) -> Judged {
    let arr = s.arrivals();
    let base_model = model(c, &arr, &[]);
    let mut alts: Vec<(Vec<u8>, MRes)> = vec![];
    if base_model.boundary == 0 {
        alts.push((vec![], base_model.clone()));
    } else {
        let mut stack: Vec<Vec<u8>> = vec![vec![]];
        while let Some(ch) = stack.pop() {
            let m = model(c, &arr, &ch);
            if m.boundary > ch.len() && ch.len() < 6 {
                for x in [CH_NEWDANCE, CH_COUNTED] {
                    let mut ch2 = ch.clone();
                    ch2.push(x);
                    stack.push(ch2);
                }
            } else {
                alts.push((ch, m));
            }
        }
    }
    let end = alts.iter().map(|(_, m)| m.end_tick).max().unwrap_or(base_model.end_tick);
    let (obs, raw, settled) = observe(sim, c, s, end, nm);
    let forms = c.forms();
    let mut j = Judged { sig: None, expected: base_model.outs.clone(), observed: obs.clone(), raw, model: base_model.clone() };
    if let Some((k, what)) = invariants(c, s, &obs, settled) {
        j.sig = Some((format!("C17:multi:{forms}:invariant:{k}"), what));
        return j;
    }
    if alts.iter().any(|(_, m)| m.undetermined.is_some()) {
        j.model.undetermined = alts.iter().find_map(|(_, m)| m.undetermined);
        return j;
    }
    if let Some((_, m)) = alts.iter().find(|(_, m)| m.outs == obs) {
        j.expected = m.outs.clone();
        j.model = m.clone();
        return j;
    }
    let class = if alts.iter().any(|(_, m)| same_order(&m.outs, &obs)) {
        "timing"
    } else {
        let m = &alts[0].1;
        let is_act = |k: u8| k % 10 != PLAIN_POS;
        let acts = |v: &[MOut]| v.iter().filter(|o| o.down && is_act(o.key)).map(|o| o.key).collect::<Vec<_>>();
        let (ea, oa) = (acts(&m.outs), acts(&obs));
        if ea.len() != oa.len() {
            "activation-count"
        } else if ea != oa {
            "wrong-action"
        } else {
            "order-or-hold"
        }
    };
    j.expected = alts[0].1.outs.clone();
    j.sig = Some((
        format!("C17:multi:{forms}:{class}"),
        match class {
            "timing" => "the expected keys in the expected order, but in different ticks".to_string(),
            "activation-count" => "number of performed actions differs from the per-key model".to_string(),
            "wrong-action" => "a tap-dance key performed a different list position than its own tap count selects".to_string(),
            _ => "a chosen action is not held until the final release of its key / another key is not processed after it".to_string(),
        },
    ));
    j
}

// ------------------------------------------------------------------------------------------------
// cases

pub fn nmax(tier: Tier, c: &MConf) -> u32 {
    tier.sel(c.n.0, c.n.1)
}

pub fn total(tier: Tier, c: &MConf) -> u64 {
    total_exhaustive(nmax(tier, c), c.keys.len() as u64, c.gaps().len() as u64)
}

pub fn describe(tier: Tier, ci: usize, a: u64, b: u64) -> Value {
    let confs = configs();
    let Some(c) = confs.get(ci) else { return Value::Null };
    json!({"config": c.text(), "schedules": format!("several tap-dance keys: exhaustive schedules #{a}..#{b} (up to {} events over {} keys){}", nmax(tier, c), c.keys.len(), if a == 0 { " + interleaved-taps family" } else { "" })})
}

/// schedule statistics that do not depend on the model: presses of a tap-dance key that arrive
/// less than its timeout after the previous press of the same key with a press of another key in
/// between (by the per-key reading they start a new dance)
fn presses_inside_own_timeout_after_other_key(c: &MConf, arr: &[(u8, bool, u64)]) -> u64 {
    let mut n = 0;
    let mut last: [Option<(u64, bool)>; 3] = [None; 3];
    for (k, p, at) in arr {
        if !*p {
            continue;
        }
        let ki = *k as usize;
        if let (Some(t), Some((l, true))) = (c.keys[ki].t(), last[ki]) {
            if at - l < t as u64 {
                n += 1;
            }
        }
        for (j, e) in last.iter_mut().enumerate() {
            if j == ki {
                *e = Some((*at, false));
            } else if let Some((l, _)) = *e {
                *e = Some((l, true));
            }
        }
    }
    n
}

pub fn run_case(ctx: &Ctx, ci: usize, a: u64, b: u64) -> CaseOut {
    let mut out = CaseOut::new();
    let confs = configs();
    let Some(c) = confs.get(ci) else { return out };
    let nm = names(c);
    let cfg = c.text();
    let mut sim = match Sim::new(&cfg) {
        Ok(s) => s,
        Err(e) => {
            out.inconclusive = Some(format!("config rejected: {}", e.lines().next().unwrap_or("")));
            return out;
        }
    };
    let n_max = nmax(ctx.tier, c);
    let gaps = c.gaps();
    let nk = c.keys.len() as u64;
    let mut scheds: Vec<MSched> = (a..b).filter_map(|s| exhaustive_sched(s, n_max, nk, &gaps)).collect();
    out.count("multi_schedules_exhaustive", scheds.len() as u64);
    if a == 0 {
        let fam = interleave_family(c);
        out.count("multi_schedules_interleaved_taps_family", fam.len() as u64);
        scheds.extend(fam);
    }
    let group = c.group();
    let idle = c.timeouts().last().copied().unwrap_or(1) + c.r + 200;
    let mut prev: Option<MSched> = None;
    let mut reported: std::collections::BTreeSet<String> = Default::default();
    for s in scheds {
        let mut j = judge(&mut sim, c, &s, &nm);
        let mut hist = s.hist();
        if j.sig.is_some() {
            // confirm on a fresh instance (the running one has processed earlier schedules)
            let mut confirmed = false;
            if let Ok(mut fresh) = Sim::new(&cfg) {
                let jf = judge(&mut fresh, c, &s, &nm);
                if jf.sig.is_some() {
                    j = jf;
                    confirmed = true;
                } else if let (Some(p), Ok(mut fresh2)) = (&prev, Sim::new(&cfg)) {
                    // not reproducible alone: try together with the preceding schedule
                    let mut both = p.clone();
                    for (i, (k, pr, g)) in s.evs.iter().enumerate() {
                        both.evs.push((*k, *pr, if i == 0 { idle } else { *g }));
                    }
                    let jb = judge(&mut fresh2, c, &both, &nm);
                    if jb.sig.is_some() {
                        hist = both.hist();
                        j = jb;
                        confirmed = true;
                    }
                }
            }
            if let Ok(s2) = Sim::new(&cfg) {
                sim = s2;
            }
            if !confirmed {
                out.inc("mismatch_not_reproduced_on_fresh_instance");
                out.inconclusive = Some("a mismatch seen on a re-used instance did not reproduce on a fresh one".into());
                prev = Some(s);
                continue;
            }
        }
        out.inc("multi_schedules");
        if j.model.undetermined.is_some() {
            out.inc("multi_judged_by_invariants_undetermined");
        } else {
            out.inc("multi_judged_by_model");
            out.inc(&format!("multi_judged_by_model_{group}"));
            let mut dance_keys: Vec<u8> = vec![];
            for d in &j.model.dances {
                let form = c.keys[d.key as usize].form();
                match d.ender {
                    Some(f) => out.inc(&format!("multi_{form}_dances_ended_by_{f}_key")),
                    None => out.inc(&format!("multi_{form}_dances_ended_by_{}", d.cause)),
                }
                if let Some(f) = d.started_by_ending {
                    out.inc(&format!("multi_{form}_dances_started_by_ending_{f}_dance"));
                    if d.taps >= 2 {
                        out.inc(&format!("multi_{form}_dances_of_2plus_taps_started_by_ending_{f}_dance"));
                    }
                    if d.taps >= 3 {
                        out.inc(&format!("multi_{form}_dances_of_3plus_taps_started_by_ending_{f}_dance"));
                    }
                }
                if !dance_keys.contains(&d.key) {
                    dance_keys.push(d.key);
                }
            }
            if dance_keys.len() >= 2 {
                out.inc("multi_schedules_with_dances_of_2plus_keys");
            }
            if dance_keys.len() >= 3 {
                out.inc("multi_schedules_with_dances_of_3_keys");
            }
            out.count("multi_presses_inside_own_timeout_after_other_key", presses_inside_own_timeout_after_other_key(c, &s.arrivals()));
            if j.model.boundary > 0 {
                out.inc("multi_lazy_boundary_decisions");
            }
            if !j.model.dances.is_empty() {
                let d: Vec<String> = j.model.dances.iter().map(|d| format!("{}{}{}", SRC[d.key as usize], d.taps, &d.cause[..1])).collect();
                out.tag(format!("{}|{}", c.label(), d.join(",")));
            }
        }
        if let Some((sig, what)) = &j.sig {
            if reported.insert(sig.clone()) {
                out.violate(
                    sig.clone(),
                    format!("{} {}: {what}", c.label(), render_hist(&hist)),
                    json!({
                        "config": cfg,
                        "history": render_hist(&hist),
                        "observed": render_outs(&j.observed, &nm),
                        "observed_raw": j.raw,
                        "expected": render_outs(&j.expected, &nm),
                        "model_dances": j.model.dances.iter().map(|d| format!("key {}: {} taps, ended by {}{}", SRC[d.key as usize], d.taps, d.cause, d.ender.map(|f| format!(" ({f})")).unwrap_or_default())).collect::<Vec<_>>(),
                        "note": "ticks are relative to the first event; an output @n is produced by the n-th tick after it",
                    }),
                );
            }
            if ctx.verbose {
                eprintln!("{sig}: {} observed {:?} expected {:?}", render_hist(&hist), render_outs(&j.observed, &nm), render_outs(&j.expected, &nm));
            }
        }
        if out.sample.is_none() && a == 0 && s.evs.len() >= 6 && j.model.dances.len() >= 2 && ci % 5 == 0 {
            out.sample = Some(json!({"config": cfg, "history": render_hist(&hist), "observed": render_outs(&j.observed, &nm), "expected": render_outs(&j.expected, &nm)}));
        }
        prev = Some(s);
    }
    out
}
