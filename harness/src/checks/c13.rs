//! C13 — global overrides substitute exactly the configured combination, then let go.
//!
//! Oracle: an executable, set-based reading of the statement. Observation point 1: the public pure
//! function `Overrides::override_keys` on tables produced by the real parser, for every ordered
//! list of distinct active keys up to length 3 (quick) / 4 (thorough) over the 13-key universe plus
//! targeted full-combination lists. Observation point 2: the OS stream of a real `Kanata` driven
//! through `Sim` with `override-release-on-activation` yes/no on random press/release histories and on
//! systematic follow-up mini-histories (see below).
//!
//! Layer mapping dimension (pipeline part): the base layer is a permutation of the 13-key universe, so
//! a physical key may output a different key code (`defsrc a` / `deflayer b`), and the overrides are
//! defined on the OUTPUT codes. Everything the statement talks about (the keys kanata is about to hold,
//! the keys the OS sees) lives in output space; physical events are translated through the mapping.
//! Three history families: 80 seed-independent cases (every (output key with an override) x (physical
//! key that outputs it) pair x 4 combination shapes: full combination, OS repeats while held, release),
//! random histories, and random histories preceded by one or two such targeted combinations.
//! Repeat clauses: a repeat of the physical key whose output is replaced by an active override must be
//! forwarded as one of that override's outputs; a repeat of a physical key whose output kanata holds
//! and no override replaces must be forwarded as that key (not dropped, not some unrelated key).
//! Violations on a physical key that outputs a different code carry the suffix `:remapped-key`.
//!
//! End of the combination by the NEXT key event (release-on-activation off): once `override_keys` has
//! replaced a non-modifier in a tick, the very next press or release that kanata processes - whatever
//! key it is and however soon it comes, including the tick directly after the activating tick - ends the
//! combination: kanata no longer holds the overridden key (`override-not-ended-by-next-press/-release`),
//! so by the per-tick clause the override outputs are released, the held modifiers are back and the new
//! key reaches the OS with the modifiers that are really held. A tick that consumes no event changes
//! neither kanata's held keys nor the OS set (`changed-without-input`).
//! Spacing independence: every pipeline history is run a second time with the same press/release events
//! 4 ticks apart; what the OS holds at every settled point (and, with release-on-activation off, the whole
//! sequence of presses/releases sent) must be the same (`held-keys-depend-on-event-spacing`,
//! `output-sequence-depends-on-event-spacing`).
//! Follow-up family (4th part): per case one table (160 seed-independent + random), and systematically
//! every entry x every follow-up event (press of each of the keys outside the combination, release of each
//! key of the combination: 13 per entry) x spacing {0, 1, 2 ticks behind the key that completes the
//! combination, whole history without a tick}; every such mini-history goes through all clauses above.

use crate::core::rng::Rng;
use crate::core::sim::{code_name, osc, render_hist, Ev, OutKind, Sim};
use crate::core::{CaseOut, Check, Ctx};
use crate::gen::hist;
use kanata_keyberon::key_code::KeyCode;
use kanata_parser::cfg::OverrideStates;
use kanata_parser::keys::OsCode;
use serde_json::{json, Value};
use std::collections::{BTreeSet, VecDeque};

pub struct C13Check;
pub static C13: C13Check = C13Check;

const NONMODS: [&str; 5] = ["a", "b", "1", "9", "x"]; // x never has an override
const MODS: [&str; 8] = ["lctl", "lsft", "lalt", "lmet", "rctl", "rsft", "ralt", "rmet"];
const NK: usize = 13;
pub const SIG_ORDER: &str = "C13:not-applied:nonmod-precedes-mod";

fn key_name(i: usize) -> &'static str {
    if i < 5 {
        NONMODS[i]
    } else {
        MODS[i - 5]
    }
}
fn is_mod(i: usize) -> bool {
    i >= 5
}
fn codes() -> [u16; NK] {
    let mut c = [0u16; NK];
    for (i, x) in c.iter_mut().enumerate() {
        *x = osc(key_name(i));
    }
    c
}

#[derive(Clone, Debug)]
struct Ovr {
    in_mods: u8,
    in_key: usize,
    out_mods: u8,
    out_key: usize,
}

type Mask = u16; // bit i = key i of the universe; bit 15 = some key outside the universe

fn mods_to_mask(m: u8) -> Mask {
    (m as Mask) << 5
}

/// Set-based specification. Returns every acceptable result (more than one only when two entries
/// for the same key match with the same number of modifiers, which the statement leaves open), the
/// union of removed keys and of added keys for the first acceptable choice (earliest entry on ties).
fn spec(table: &[Ovr], list: Mask) -> (Vec<Mask>, Mask, Mask) {
    let mods_present = ((list >> 5) & 0xff) as u8;
    let mut choices: Vec<Vec<&Ovr>> = vec![];
    for k in 0..5 {
        if list & (1 << k) == 0 {
            continue;
        }
        let matching: Vec<&Ovr> = table.iter().filter(|o| o.in_key == k && o.in_mods & mods_present == o.in_mods).collect();
        if matching.is_empty() {
            continue;
        }
        let best = matching.iter().map(|o| o.in_mods.count_ones()).max().unwrap_or(0);
        choices.push(matching.into_iter().filter(|o| o.in_mods.count_ones() == best).collect());
    }
    let mut results: Vec<(Mask, Mask)> = vec![(0, 0)]; // (removed, added)
    for ch in &choices {
        let mut next = vec![];
        for (r, a) in &results {
            for o in ch.iter().take(4) {
                next.push((r | mods_to_mask(o.in_mods) | (1 << o.in_key), a | mods_to_mask(o.out_mods) | (1 << o.out_key)));
            }
        }
        next.truncate(64);
        results = next;
    }
    let (r0, a0) = results[0];
    let mut acc: Vec<Mask> = results.iter().map(|(r, a)| (list & !r) | a).collect();
    acc.dedup();
    (acc, r0, a0)
}

/// results of every *wrong but explicable* choice: some matching entry that is not a best one
fn shorter_choice_results(table: &[Ovr], list: Mask) -> Vec<Mask> {
    let mods_present = ((list >> 5) & 0xff) as u8;
    let mut out = vec![];
    for k in 0..5 {
        if list & (1 << k) == 0 {
            continue;
        }
        for o in table.iter().filter(|o| o.in_key == k && o.in_mods & mods_present == o.in_mods) {
            out.push((list & !(mods_to_mask(o.in_mods) | (1 << k))) | mods_to_mask(o.out_mods) | (1 << o.out_key));
        }
    }
    out
}

fn render_table(t: &[Ovr], rng: &mut Rng) -> String {
    let mut s = String::from("(defoverrides");
    let side = |mods: u8, key: usize, rng: &mut Rng| -> String {
        let mut v: Vec<&str> = (0..8).filter(|i| mods & (1 << i) != 0).map(|i| MODS[i]).collect();
        rng.shuffle(&mut v);
        let pos = rng.usize(v.len() + 1);
        v.insert(pos, NONMODS[key]);
        format!("({})", v.join(" "))
    };
    for o in t {
        s.push_str("\n  ");
        s.push_str(&side(o.in_mods, o.in_key, rng));
        s.push(' ');
        s.push_str(&side(o.out_mods, o.out_key, rng));
    }
    s.push_str(")\n");
    s
}

fn small_mods(rng: &mut Rng) -> u8 {
    let n = *rng.pick_weighted(&[(3u32, 0u32), (6, 1), (5, 2), (2, 3), (1, 5), (1, 8)]);
    let mut m = 0u8;
    for i in rng.subset(8, n as usize) {
        m |= 1 << i;
    }
    m
}

fn random_table(rng: &mut Rng) -> Vec<Ovr> {
    let n = rng.range(1, 7) as usize;
    let mut t: Vec<Ovr> = vec![];
    for _ in 0..n {
        // often extend an existing entry's combination so that longest-match selection matters
        let (in_key, in_mods) = if !t.is_empty() && rng.chance(1, 2) {
            let b = rng.pick(&t).clone();
            let mut m = b.in_mods;
            if rng.coin() {
                m |= 1 << rng.usize(8);
            } else if m != 0 {
                let bits: Vec<u8> = (0..8).filter(|i| m & (1 << i) != 0).collect();
                m &= !(1 << *rng.pick(&bits));
            }
            (b.in_key, m)
        } else {
            (rng.usize(4), small_mods(rng))
        };
        t.push(Ovr { in_mods, in_key, out_mods: if rng.chance(1, 3) { in_mods } else { small_mods(rng) }, out_key: rng.usize(5) });
    }
    t
}

fn systematic_table(i: u64) -> Vec<Ovr> {
    let s = (i & 0xff) as u8;
    let out = s.rotate_left(3) ^ 0x5a;
    let mut t = vec![Ovr { in_mods: s, in_key: 0, out_mods: out, out_key: 3 }];
    if s != 0 {
        // a shorter combination of the same key listed first, and one listed after
        let low = s & (s - 1);
        t.insert(0, Ovr { in_mods: low, in_key: 0, out_mods: 0, out_key: 2 });
        t.push(Ovr { in_mods: s & !(1 << (7 - s.leading_zeros())), in_key: 0, out_mods: s, out_key: 1 });
    }
    t.push(Ovr { in_mods: !s, in_key: 1, out_mods: s, out_key: 0 });
    t
}

/// Layer mapping: physical key `p` of the universe outputs key `map[p]` of the universe (a permutation).
type Map = [usize; NK];

fn identity_map() -> Map {
    let mut m = [0usize; NK];
    for (i, x) in m.iter_mut().enumerate() {
        *x = i;
    }
    m
}
fn inverse(map: &Map) -> Map {
    let mut inv = [0usize; NK];
    for (p, o) in map.iter().enumerate() {
        inv[*o] = p;
    }
    inv
}
fn is_identity(map: &Map) -> bool {
    map.iter().enumerate().all(|(p, o)| p == *o)
}
/// kind 0: identity; 1: the non-modifiers permuted among themselves; 2: non-modifiers and modifiers each
/// permuted among themselves; 3: one to three transpositions over the whole universe (a physical
/// non-modifier may output a modifier and the other way round)
fn random_map(rng: &mut Rng, kind: u64) -> Map {
    let mut m = identity_map();
    match kind {
        0 => {}
        1 => rng.shuffle(&mut m[..5]),
        2 => {
            rng.shuffle(&mut m[..5]);
            rng.shuffle(&mut m[5..]);
        }
        _ => {
            for _ in 0..1 + rng.usize(3) {
                let a = rng.usize(NK);
                let b = rng.usize(NK);
                m.swap(a, b);
            }
        }
    }
    m
}

fn config(table_text: &str, roa: Option<bool>, map: &Map) -> String {
    let keys = (0..NK).map(key_name).collect::<Vec<_>>().join(" ");
    let outs = (0..NK).map(|p| key_name(map[p])).collect::<Vec<_>>().join(" ");
    let roa = match roa {
        Some(true) => " override-release-on-activation yes",
        Some(false) => " override-release-on-activation no",
        None => "",
    };
    format!("(defcfg process-unmapped-keys yes{roa})\n(defsrc {keys})\n(deflayer base {outs})\n{table_text}")
}

fn mask_names(m: Mask) -> Vec<String> {
    let mut v: Vec<String> = (0..NK).filter(|i| m & (1 << i) != 0).map(|i| key_name(i).to_string()).collect();
    if m & 0x8000 != 0 {
        v.push("<key outside the universe>".into());
    }
    v
}
fn list_names(l: &[usize]) -> Vec<&'static str> {
    l.iter().map(|i| key_name(*i)).collect()
}

struct Real<'a> {
    ov: &'a kanata_parser::cfg::Overrides,
    st: OverrideStates,
    kcs: [KeyCode; NK],
    codes: [u16; NK],
    buf: Vec<KeyCode>,
}

impl<'a> Real<'a> {
    fn new(ov: &'a kanata_parser::cfg::Overrides) -> Option<Self> {
        let codes = codes();
        let mut kcs = [KeyCode::No; NK];
        for i in 0..NK {
            kcs[i] = KeyCode::from(OsCode::from_u16(codes[i])?);
        }
        Some(Real { ov, st: OverrideStates::new(), kcs, codes, buf: Vec::new() })
    }
    fn run(&mut self, list: &[usize]) -> Mask {
        self.buf.clear();
        self.buf.extend(list.iter().map(|i| self.kcs[*i]));
        self.ov.override_keys(&mut self.buf, &mut self.st);
        let mut m: Mask = 0;
        for k in &self.buf {
            let c = u16::from(OsCode::from(*k));
            match self.codes.iter().position(|x| *x == c) {
                Some(i) => m |= 1 << i,
                None => m |= 0x8000,
            }
        }
        m
    }
}

impl Real<'_> {
    /// the non-modifiers of `list` that `override_keys` replaces (OverrideStates::removed_oscs after the call)
    fn replaced_nonmods(&mut self, list: &[usize]) -> Mask {
        self.run(list);
        let mut m: Mask = 0;
        for o in self.st.removed_oscs() {
            let c = u16::from(o);
            if let Some(i) = self.codes.iter().position(|x| *x == c) {
                if !is_mod(i) {
                    m |= 1 << i;
                }
            }
        }
        m
    }
}

/// number of input modifiers of the active override(s) given the removed keys: "0", "1", "2", "3_or_more"
fn in_mods_bucket(removed: Mask) -> &'static str {
    match (removed >> 5).count_ones() {
        0 => "0",
        1 => "1",
        2 => "2",
        _ => "3_or_more",
    }
}

fn list_mask(l: &[usize]) -> Mask {
    l.iter().fold(0, |m, i| m | (1 << i))
}
fn mods_first(l: &[usize]) -> Vec<usize> {
    let mut v: Vec<usize> = l.iter().copied().filter(|i| is_mod(*i)).collect();
    v.extend(l.iter().copied().filter(|i| !is_mod(*i)));
    v
}
fn nonmod_precedes_mod(l: &[usize]) -> bool {
    let first_nonmod = l.iter().position(|i| !is_mod(*i));
    let last_mod = l.iter().rposition(|i| is_mod(*i));
    matches!((first_nonmod, last_mod), (Some(a), Some(b)) if a < b)
}

struct PureJudge<'a> {
    table: &'a [Ovr],
    cfg_text: &'a str,
    reported_live: bool,
    reported_known: bool,
}

impl PureJudge<'_> {
    fn judge(&mut self, out: &mut CaseOut, real: &mut Real, l: &[usize]) {
        let lm = list_mask(l);
        let (acc, removed, _added) = spec(self.table, lm);
        let got = real.run(l);
        out.inc("pure_lists");
        if removed != 0 {
            out.inc("pure_lists_with_match");
            out.inc(&format!("pure_match_chord_size_{}", (removed >> 5).count_ones() + 1));
        }
        if acc.len() > 1 {
            out.inc("pure_lists_with_tie");
        }
        if acc.contains(&got) {
            if acc.len() > 1 && got == acc[0] {
                out.inc("pure_tie_resolved_to_earliest_entry");
            }
            return;
        }
        // deviation: does it disappear when the same keys are listed modifiers-first?
        let mf = mods_first(l);
        let got_mf = real.run(&mf);
        if nonmod_precedes_mod(l) && acc.contains(&got_mf) {
            out.inc("pure_order_deviations");
            if !self.reported_known {
                self.reported_known = true;
                out.violate(
                    SIG_ORDER,
                    format!("override not applied (or a shorter one applied) for active keys {:?}: a non-modifier precedes a modifier of its combination in the list; the same keys listed modifiers-first give the specified result", list_names(l)),
                    json!({"config": self.cfg_text, "history": format!("(pure call) override_keys on {:?}", list_names(l)), "observed": mask_names(got), "expected": mask_names(acc[0]), "modifiers_first_list": list_names(&mf), "observed_modifiers_first": mask_names(got_mf)}),
                );
            }
            return;
        }
        out.inc("pure_live_deviations");
        if self.reported_live {
            return;
        }
        self.reported_live = true;
        let shorter = shorter_choice_results(self.table, lm);
        let sig = if got & 0x8000 != 0 {
            "C13:pure:foreign-key-added"
        } else if shorter.contains(&got) {
            "C13:pure:not-longest-match"
        } else if got == lm && removed != 0 {
            "C13:pure:not-applied"
        } else if (got ^ acc[0]) & !(removed | _added) != 0 {
            "C13:pure:unrelated-key-changed"
        } else {
            "C13:pure:wrong-result"
        };
        out.violate(
            sig,
            format!("override_keys on {:?} gives {:?}, specified {:?}", list_names(l), mask_names(got), mask_names(acc[0])),
            json!({"config": self.cfg_text, "history": format!("(pure call) override_keys on {:?}", list_names(l)), "observed": mask_names(got), "expected": acc.iter().map(|m| mask_names(*m)).collect::<Vec<_>>(), "modifiers_first_observed": mask_names(got_mf), "table": format!("{:?}", self.table)}),
        );
    }
}

fn enumerate_lists(max_len: usize, cur: &mut Vec<usize>, f: &mut dyn FnMut(&[usize])) {
    f(cur);
    if cur.len() == max_len {
        return;
    }
    for i in 0..NK {
        if !cur.contains(&i) {
            cur.push(i);
            enumerate_lists(max_len, cur, f);
            cur.pop();
        }
    }
}

fn targeted_lists(table: &[Ovr], rng: &mut Rng) -> Vec<Vec<usize>> {
    let mut v = vec![];
    for o in table {
        let mods: Vec<usize> = (0..8).filter(|i| o.in_mods & (1 << i) != 0).map(|i| i + 5).collect();
        let mut base = mods.clone();
        base.push(o.in_key);
        v.push(base.clone());
        let mut rev: Vec<usize> = mods.iter().rev().copied().collect();
        rev.push(o.in_key);
        v.push(rev);
        for _ in 0..3 {
            let mut s = base.clone();
            rng.shuffle(&mut s);
            v.push(s);
        }
        // unrelated key around it, one more modifier, a second non-modifier
        let mut w = vec![4];
        w.extend(base.iter());
        v.push(w);
        let mut w = base.clone();
        w.push(4);
        v.push(w);
        let extra: Vec<usize> = (5..13).filter(|i| !mods.contains(i)).collect();
        if !extra.is_empty() {
            let mut w = vec![*rng.pick(&extra)];
            w.extend(base.iter());
            v.push(w.clone());
            rng.shuffle(&mut w);
            v.push(w);
        }
        let other = (o.in_key + 1 + rng.usize(3)) % 4;
        let mut w = mods.clone();
        w.push(other);
        w.push(o.in_key);
        v.push(w.clone());
        rng.shuffle(&mut w);
        v.push(w);
    }
    v
}

const N_SYS: u64 = 256;

fn n_pure(ctx: &Ctx) -> u64 {
    N_SYS + ctx.tier.sel(6_000, 6_000)
}
fn n_pipe(ctx: &Ctx) -> u64 {
    ctx.tier.sel(12_000, 100_000)
}

fn table_for(ctx: &Ctx, idx: u64) -> (Vec<Ovr>, Rng) {
    if idx < N_SYS {
        (systematic_table(idx), Rng::new(idx ^ 0xc13))
    } else {
        let mut rng = Rng::for_case(ctx.seed, "C13", "pure", idx);
        (random_table(&mut rng), rng)
    }
}

fn run_pure(out: &mut CaseOut, ctx: &Ctx, idx: u64) {
    let (table, mut rng) = table_for(ctx, idx);
    let text = config(&render_table(&table, &mut rng), None, &identity_map());
    let cfg = match kanata_parser::cfg::new_from_str(&text, Default::default()) {
        Ok(c) => c,
        Err(e) => {
            out.violate(
                "C13:table-rejected",
                "the parser rejected an override table with exactly one non-modifier per side",
                json!({"config": text, "history": "", "observed": format!("{e:?}"), "expected": "accepted"}),
            );
            return;
        }
    };
    let Some(mut real) = Real::new(&cfg.overrides) else {
        out.inconclusive = Some("universe key unknown to OsCode::from_u16".into());
        return;
    };
    out.inc("tables");
    out.max("table_max_in_mods", table.iter().map(|o| o.in_mods.count_ones() as u64).max().unwrap_or(0));
    let mut shape: Vec<String> = table.iter().map(|o| format!("{}{}>{}", o.in_mods.count_ones(), NONMODS[o.in_key], o.out_mods.count_ones())).collect();
    shape.sort();
    out.tag(format!("tbl:{}", shape.join(",")));
    let mut j = PureJudge { table: &table, cfg_text: &text, reported_live: false, reported_known: false };
    let max_len = ctx.tier.sel(3, 4);
    let mut cur = vec![];
    enumerate_lists(max_len, &mut cur, &mut |l| j.judge(out, &mut real, l));
    for l in targeted_lists(&table, &mut rng) {
        out.inc("pure_targeted_lists");
        j.judge(out, &mut real, &l);
    }
    if idx % 300 == 0 {
        out.sample = Some(json!({"part": "pure", "config": text, "lists": format!("all ordered lists of distinct keys up to length {max_len} over {:?} plus targeted full combinations", (0..NK).map(key_name).collect::<Vec<_>>())}));
    }
}

// ------------------------------------------------------------------ pipeline

/// number of seed-independent pipeline cases: (output key with an override: a b 1 9) x (physical key that
/// outputs it: a b 1 9 x, the layer swaps the two) x 4 shapes of the combination
const N_PIPE_SYS: u64 = 4 * 5 * 4;

struct PipeCase {
    table: Vec<Ovr>,
    map: Map,
    roa: bool,
    text: String,
    h: Vec<Ev>,
    family: &'static str,
    map_kind: u64,
    pool_len: usize,
}

/// One entry's full combination typed modifiers first through the physical keys that output them, OS
/// auto-repeats of the non-modifier's physical key while everything is held, then everything released.
/// All gaps are >= 1 tick, so every event is processed before the next one arrives.
fn targeted_history(rng: &mut Rng, o: &Ovr, inv: &Map, cs: &[u16; NK]) -> Vec<Ev> {
    let mut h = vec![];
    let mut mods: Vec<usize> = (0..8).filter(|i| o.in_mods & (1 << i) != 0).map(|i| i + 5).collect();
    rng.shuffle(&mut mods);
    let mut down: Vec<u16> = vec![];
    for m in &mods {
        h.push(Ev::P(cs[inv[*m]]));
        down.push(cs[inv[*m]]);
        h.push(Ev::T(1 + rng.usize(3) as u32));
    }
    let k = cs[inv[o.in_key]];
    h.push(Ev::P(k));
    down.push(k);
    h.push(Ev::T(2 + rng.usize(3) as u32));
    for _ in 0..1 + rng.usize(3) {
        h.push(Ev::Rep(k));
        h.push(Ev::T(1 + rng.usize(3) as u32));
    }
    if !mods.is_empty() && rng.chance(1, 3) {
        h.push(Ev::Rep(cs[inv[mods[0]]]));
        h.push(Ev::T(1));
        h.push(Ev::Rep(k));
        h.push(Ev::T(1));
    }
    rng.shuffle(&mut down);
    for c in down {
        h.push(Ev::R(c));
        h.push(Ev::T(1 + rng.usize(3) as u32));
    }
    h.push(Ev::T(2));
    h
}

/// Final drain: kanata consumes one queued event per tick, so a history with zero-tick gaps can end with
/// a backlog; tick until every event has been consumed and 12 more ticks have passed.
fn push_final_drain(h: &mut Vec<Ev>) {
    let mut q: u32 = 0;
    for e in h.iter() {
        match e {
            Ev::T(n) => q = q.saturating_sub(*n),
            Ev::P(_) | Ev::R(_) => q += 1,
            _ => {}
        }
    }
    h.push(Ev::T(12 + q));
}

fn table_pool(table: &[Ovr]) -> BTreeSet<usize> {
    let mut pool: BTreeSet<usize> = BTreeSet::new();
    for o in table {
        pool.insert(o.in_key);
        for i in 0..8 {
            if o.in_mods & (1 << i) != 0 {
                pool.insert(i + 5);
            }
        }
    }
    pool
}

fn pipe_case(ctx: &Ctx, r: u64) -> PipeCase {
    let cs = codes();
    if r < N_PIPE_SYS {
        // seed-independent: output key q (has an override), physical key p outputs q and q's physical
        // key outputs p's code (identity when p == q); a second entry overrides p's own code
        let mut rng = Rng::new(r ^ 0xc13_5e);
        let q = (r % 4) as usize;
        let p = ((r / 4) % 5) as usize;
        let v = r / 20;
        let (in_mods, out_mods): (u8, u8) = match v {
            0 => (0b0000_0010, 0b0000_0010), // (lsft q) -> (lsft out)
            1 => (0, 0),                     // (q) -> (out)
            2 => (0b0001_0010, 0b0000_0100), // (lsft rctl q) -> (lalt out)
            _ => (0b0100_0000, 0),           // (ralt q) -> (out), release-on-activation
        };
        let mut table = vec![Ovr { in_mods, in_key: q, out_mods, out_key: (q + 1 + v as usize) % 5 }];
        if p != q && p < 4 {
            table.push(Ovr { in_mods, in_key: p, out_mods: 0, out_key: (p + 2) % 5 });
        }
        let mut map = identity_map();
        map.swap(p, q);
        let inv = inverse(&map);
        let roa = v == 3;
        let text = config(&render_table(&table, &mut rng), Some(roa), &map);
        let mut h = vec![];
        for o in &table {
            h.extend(targeted_history(&mut rng, o, &inv, &cs));
        }
        let mut pool = table_pool(&table);
        pool.insert(4);
        let pool_codes: Vec<u16> = pool.iter().map(|i| cs[inv[*i]]).collect();
        h.extend(hist::consistent(&mut rng, &pool_codes, 12, &[1, 1, 2, 3], true));
        push_final_drain(&mut h);
        return PipeCase { table, map, roa, text, h, family: "systematic", map_kind: if p == q { 0 } else { 4 }, pool_len: pool.len() };
    }
    let mut rng = Rng::for_case(ctx.seed, "C13", "pipe", r);
    let table = random_table(&mut rng);
    let roa = r % 2 == 0;
    let map_kind = (r / 2) % 4;
    let map = random_map(&mut rng, map_kind);
    let inv = inverse(&map);
    let text = config(&render_table(&table, &mut rng), Some(roa), &map);
    // restrict the history to the physical keys that output the keys of the table (+ x and one spare
    // modifier) so that combinations occur
    let mut pool = table_pool(&table);
    pool.insert(4);
    pool.insert(5 + rng.usize(8));
    let pool_codes: Vec<u16> = pool.iter().map(|i| cs[inv[*i]]).collect();
    let gaps: &[u32] = if r % 5 == 0 { &[0, 1, 1, 2, 3] } else { &[1, 1, 2, 3, 6] };
    let n_ev = 10 + rng.usize(ctx.tier.sel(30, 60));
    let targeted = (r / 8) % 2 == 1;
    let mut h = vec![];
    if targeted {
        for _ in 0..1 + rng.usize(2) {
            let o = rng.pick(&table).clone();
            h.extend(targeted_history(&mut rng, &o, &inv, &cs));
        }
    }
    h.extend(hist::consistent(&mut rng, &pool_codes, n_ev, gaps, true));
    push_final_drain(&mut h);
    PipeCase { table, map, roa, text, h, family: if targeted { "targeted+random" } else { "random" }, map_kind, pool_len: pool.len() }
}

/// What a run showed at the OS, for the comparison of differently spaced runs of the same events.
struct RunObs {
    /// every non-redundant key press / release the OS saw, in order, without times
    os_seq: Vec<(bool, String)>,
    /// (number of press/release input events consumed so far, keys the OS holds) at every settled
    /// point: a tick that consumed no event while no event was waiting
    settle: Vec<(usize, BTreeSet<String>)>,
}

fn collect_os_seq(sim: &Sim, seq: &mut Vec<(bool, String)>) {
    for o in sim.last() {
        if o.redundant {
            continue;
        }
        match o.kind {
            OutKind::Down => seq.push((true, o.name.clone())),
            OutKind::Up => seq.push((false, o.name.clone())),
            _ => {}
        }
    }
}

/// report a violation once per signature and case (a follow-up case runs hundreds of mini-histories)
fn violate_once(out: &mut CaseOut, sig: &str, what: String, witness: impl FnOnce() -> Value) {
    if out.violations.iter().any(|v| v.sig == sig) {
        out.inc("violations_repeated_in_same_case_not_listed");
        return;
    }
    out.violate(sig, what, witness());
}

fn run_pipeline(out: &mut CaseOut, ctx: &Ctx, r: u64) {
    let PipeCase { table, map, roa, text, h, family, map_kind, pool_len } = pipe_case(ctx, r);
    out.tag(format!("pipe:{family}:roa={roa}:map={map_kind}:entries={}:pool={pool_len}", table.len()));
    out.inc(&format!("pipeline_histories_{}", family.replace('+', "_")));
    let Some(obs) = judge_history(out, &table, &map, roa, &text, &h, r % 400 == 1, false) else { return };
    // the same press/release events, widely spaced: what the OS ends up holding must not depend on
    // how close together the events arrived
    if let Some(reference) = reference_run(&text, &h) {
        compare_spacing(out, &text, &h, roa, &obs, &reference);
    }
}

/// The same press/release events (repeats dropped), 4 ticks apart: every event is consumed and
/// settled before the next one arrives.
fn reference_run(text: &str, h: &[Ev]) -> Option<RunObs> {
    let mut sim = Sim::new(text).ok()?;
    let mut obs = RunObs { os_seq: vec![], settle: vec![] };
    let mut n = 0usize;
    for e in h {
        if !matches!(e, Ev::P(_) | Ev::R(_)) {
            continue;
        }
        sim.apply(e);
        for _ in 0..4 {
            sim.tick();
            collect_os_seq(&sim, &mut obs.os_seq);
        }
        n += 1;
        obs.settle.push((n, sim.os.keys_down.clone()));
    }
    for _ in 0..12 {
        sim.tick();
        collect_os_seq(&sim, &mut obs.os_seq);
    }
    Some(obs)
}

fn spaced_text(h: &[Ev]) -> String {
    let mut v: Vec<Ev> = vec![];
    for e in h {
        if matches!(e, Ev::P(_) | Ev::R(_)) {
            v.push(e.clone());
            v.push(Ev::T(4));
        }
    }
    v.push(Ev::T(12));
    render_hist(&v)
}

fn seq_text(s: &[(bool, String)]) -> Vec<String> {
    s.iter().map(|(d, n)| format!("{}{}", if *d { "↓" } else { "↑" }, n)).collect()
}

fn compare_spacing(out: &mut CaseOut, text: &str, h: &[Ev], roa: bool, var: &RunObs, reference: &RunObs) {
    out.inc("spacing_histories_compared_with_widely_spaced_run");
    for (n, set) in &var.settle {
        let Some((_, rset)) = reference.settle.iter().find(|(m, _)| m == n) else { continue };
        out.inc("spacing_settled_points_compared");
        if set != rset {
            violate_once(
                out,
                "C13:pipeline:held-keys-depend-on-event-spacing",
                format!("after the first {n} press/release events were consumed and a tick passed, the OS holds {set:?}; with the same events 4 ticks apart it holds {rset:?}"),
                || json!({"config": text, "history": render_hist(h), "widely_spaced_history": spaced_text(h), "events_consumed": n, "observed": format!("{set:?}"), "expected": format!("{rset:?}"), "observed_output_sequence": seq_text(&var.os_seq), "widely_spaced_output_sequence": seq_text(&reference.os_seq)}),
            );
            return;
        }
    }
    if !roa {
        out.inc("spacing_output_sequences_compared");
        if var.os_seq != reference.os_seq {
            let at = var.os_seq.iter().zip(reference.os_seq.iter()).position(|(a, b)| a != b).unwrap_or(var.os_seq.len().min(reference.os_seq.len()));
            violate_once(
                out,
                "C13:pipeline:output-sequence-depends-on-event-spacing",
                format!("the sequence of key presses/releases sent to the OS differs from the one for the same events 4 ticks apart (first difference at output #{at})"),
                || json!({"config": text, "history": render_hist(h), "widely_spaced_history": spaced_text(h), "observed": seq_text(&var.os_seq), "expected": seq_text(&reference.os_seq)}),
            );
        }
    }
}

/// Runs one history through a fresh real `Kanata` and judges every tick and every repeat.
///
/// `loop_mode`: the history is driven the way `Kanata::start_processing_loop` drives kanata instead of
/// ticking through every `t:N`. An input event wakes the loop, which handles it and runs one tick; after
/// that a tick runs only while `Kanata::can_block_update_idle_waiting` (the predicate the real loop
/// consults) says kanata may NOT block. As soon as it may block, the rest of the pause passes without
/// any tick - whatever the OS holds at that moment stays held (and auto-repeats) until the user's next
/// key event - and that moment is judged by the block clauses.
fn judge_history(out: &mut CaseOut, table: &[Ovr], map: &Map, roa: bool, text: &str, h: &[Ev], want_sample: bool, loop_mode: bool) -> Option<RunObs> {
    let table = table.to_vec();
    let map = *map;
    let text = text.to_string();
    let h = h.to_vec();
    let cs = codes();
    let inv = inverse(&map);
    let mut sim = match Sim::new(&text) {
        Ok(s) => s,
        Err(e) => {
            violate_once(out, "C13:table-rejected", "the parser rejected a valid override configuration".into(), || json!({"config": text, "history": render_hist(&h), "observed": e, "expected": "accepted"}));
            return None;
        }
    };
    let ov = sim.k.overrides.clone();
    let Some(mut real) = Real::new(&ov) else {
        out.inconclusive = Some("universe key unknown".into());
        return None;
    };
    out.inc(if roa { "pipeline_histories_release_on_activation_yes" } else { "pipeline_histories_release_on_activation_no" });
    if !is_identity(&map) {
        out.inc("pipeline_histories_with_remapped_keys");
        if table.iter().any(|o| inv[o.in_key] != o.in_key) {
            out.inc("pipeline_histories_override_on_output_of_remapped_key");
        }
    }
    let mut obs = RunObs { os_seq: vec![], settle: vec![] };
    let mut n_consumed = 0usize;
    let mut flagged: Mask = 0; // non-modifiers an active override replaced and kanata still holds (release-on-activation off)
    let mut since_activation: u32 = u32::MAX; // ticks since the tick in which an override became active
    let mut prev_km_now: Mask = 0;
    let mut prev_os: Mask = 0;
    let names: Vec<String> = cs.iter().map(|c| code_name(*c)).collect();
    let idx_of_code = |c: u16| cs.iter().position(|x| *x == c);
    // physical key code -> universe index of the key it outputs
    let out_of_code = |c: u16| cs.iter().position(|x| *x == c).map(|p| map[p]);
    let mut pending: VecDeque<Ev> = VecDeque::new();
    let mut phys: Mask = 0; // processed physical state, as the set of keys the held physical keys output
    let mut erased: Mask = 0; // non-modifiers that were overridden since their press
    let mut prev_removed: Mask = 0;
    let mut prev_added: Mask = 0;
    // the specification had exactly one acceptable result in the last tick (no tie between entries)
    let mut prev_unique = true;
    let mut prev_km: Mask = 0; // keys kanata held in the last judged tick
    let mut reported = false;
    let mut reported_rep = false;
    let mut prev_ok = false;
    let mut prev_stable = false; // no key was removed by release-on-activation in the last tick
    let mut judged_ok = true;
    // loop mode: an input event was handled and the tick the loop runs right after it is still to come
    let mut woke = false;
    // loop mode: release-on-activation removed a key since kanata last blocked
    let mut roa_removal_since_block = false;
    // every key that is an output of some entry of the table
    let table_outputs: Mask = table.iter().fold(0, |m, o| m | mods_to_mask(o.out_mods) | (1 << o.out_key));
    if loop_mode {
        out.inc(if roa { "loop_histories_release_on_activation_yes" } else { "loop_histories_release_on_activation_no" });
    }
    let witness = |sim: &Sim, what: Value, h: &[Ev], text: &str| -> Value {
        let mut w = json!({"config": text, "history": render_hist(h), "trace": sim.trace_json()});
        if loop_mode {
            if let Some(o) = w.as_object_mut() {
                o.insert("driver".into(), json!("processing-loop emulation: t:N is a pause of N ms; after an input event one tick runs, further ticks run only while Kanata::can_block_update_idle_waiting(1) is false, the rest of the pause passes without a tick"));
            }
        }
        if let (Some(o), Some(x)) = (w.as_object_mut(), what.as_object()) {
            for (k, v) in x {
                o.insert(k.clone(), v.clone());
            }
        }
        w
    };
    for (ei, e) in h.iter().enumerate() {
        let nticks = match e {
            Ev::T(n) => *n,
            Ev::Rep(c) => {
                // OS auto-repeat of a physically held key: answered at once, never queued
                sim.apply(e);
                woke = loop_mode;
                out.inc("pipeline_repeat_inputs");
                if loop_mode {
                    out.inc("loop_repeat_inputs");
                }
                let outs: Vec<crate::core::sim::Out> = sim.last().to_vec();
                let settled = pending.is_empty() && judged_ok && prev_ok && prev_stable;
                let pk = idx_of_code(*c); // physical key
                let i = pk.map(|p| map[p]); // the key it outputs
                let remapped = pk != i;
                let sfx = if remapped { ":remapped-key" } else { "" };
                let pname = |i: usize| -> String {
                    if remapped {
                        format!("physical {} (outputs {})", key_name(inv[i]), key_name(i))
                    } else {
                        key_name(i).to_string()
                    }
                };
                let name_mask = |n: &str| -> Mask { names.iter().position(|x| x == n).map(|p| 1 << p).unwrap_or(0x8000) };
                let mut rep_dev: Option<(String, String)> = None;
                for o in &outs {
                    out.inc("pipeline_repeat_outputs");
                    let m = name_mask(&o.name);
                    let down = sim.os.keys_down.contains(&o.name);
                    if o.kind != OutKind::Repeat {
                        rep_dev = Some(("C13:pipeline:repeat-produced-other-output".into(), format!("a Repeat input produced {}", o.short())));
                    } else if !prev_stable || !pending.is_empty() {
                        // the held keys changed since the last tick (queued event, or a key removed by
                        // release-on-activation): the OS model lags until the next tick, not judged
                        out.inc("pipeline_repeat_outputs_in_transient_not_judged");
                    } else if !down && m & prev_removed & !prev_added != 0 {
                        rep_dev = Some(("C13:pipeline:repeat-of-replaced-key".into(), format!("repeat forwarded for {} which the active override replaced (it is up at the OS)", o.name)));
                    } else if !down {
                        rep_dev = Some(("C13:pipeline:repeat-of-up-key".into(), format!("repeat forwarded for {} which is up at the OS", o.name)));
                    }
                }
                if let (Some(i), true, None) = (i, settled, &rep_dev) {
                    // every output any override of the output key can have (kanata chooses among them)
                    let possible: Mask = table.iter().filter(|o| o.in_key == i).fold(0, |m, o| m | mods_to_mask(o.out_mods) | (1 << o.out_key));
                    if !is_mod(i) && prev_removed & (1 << i) != 0 && !prev_unique {
                        // two entries tie: which keys are replaced / added depends on kanata's choice,
                        // which the OS set alone does not reveal
                        out.inc("pipeline_repeats_not_judged_tie_between_entries");
                    } else if !is_mod(i) && prev_removed & (1 << i) != 0 {
                        // the key this physical key outputs is the non-modifier of an active override
                        out.inc("pipeline_repeats_during_active_override");
                        if remapped {
                            out.inc("pipeline_repeats_during_active_override_remapped_key");
                        }
                        let ok = outs.len() == 1 && name_mask(&outs[0].name) & prev_added != 0;
                        if ok {
                            out.inc("pipeline_repeats_forwarded_for_override_output");
                            if remapped {
                                out.inc("pipeline_repeats_forwarded_for_override_output_remapped_key");
                            }
                        } else if outs.len() == 1 && name_mask(&outs[0].name) & possible != 0 {
                            // down at the OS (checked above) and an output of another entry for this key
                            out.inc("pipeline_repeats_forwarded_as_other_entry_output");
                        } else if outs.is_empty() {
                            rep_dev = Some((format!("C13:pipeline:repeat-not-forwarded{sfx}"), format!("repeat of {} while its override is active produced nothing; expected a repeat of one of {:?}", pname(i), mask_names(prev_added))));
                        } else {
                            rep_dev = Some((format!("C13:pipeline:repeat-of-wrong-key{sfx}"), format!("repeat of {} while its override is active was forwarded as {:?}; expected one of {:?}", pname(i), outs.iter().map(|o| o.short()).collect::<Vec<_>>(), mask_names(prev_added))));
                        }
                    } else if prev_removed & (1 << i) == 0 && prev_km & (1 << i) != 0 {
                        // kanata holds the key this physical key outputs and no active override replaces it:
                        // the OS sees the key itself, repeats included (an output of another entry for the
                        // same key that happens to be down is tolerated, as above)
                        out.inc("pipeline_repeats_of_key_not_overridden");
                        if remapped {
                            out.inc("pipeline_repeats_of_key_not_overridden_remapped_key");
                        }
                        let allowed: Mask = (1 << i) | possible;
                        if outs.len() == 1 && name_mask(&outs[0].name) == 1 << i {
                            out.inc("pipeline_repeats_forwarded_for_the_key_itself");
                        } else if outs.len() == 1 && name_mask(&outs[0].name) & allowed != 0 {
                            out.inc("pipeline_repeats_forwarded_as_other_entry_output");
                        } else if outs.is_empty() {
                            rep_dev = Some((format!("C13:pipeline:repeat-not-forwarded:no-override-active{sfx}"), format!("repeat of {} which kanata holds down and no override replaces produced nothing", pname(i))));
                        } else {
                            rep_dev = Some((format!("C13:pipeline:repeat-of-wrong-key:no-override-active{sfx}"), format!("repeat of {} which no override replaces was forwarded as {:?}", pname(i), outs.iter().map(|o| o.short()).collect::<Vec<_>>())));
                        }
                    }
                    if prev_removed == 0 && phys & (1 << i) != 0 {
                        out.inc("pipeline_repeats_without_override");
                    }
                }
                if let Some((sig, what)) = rep_dev {
                    if !reported_rep {
                        reported_rep = true;
                        let prefix: Vec<Ev> = h[..=ei].to_vec();
                        violate_once(out, &sig, what, || witness(&sim, json!({"physical_key": pk.map(key_name), "outputs_key": i.map(key_name), "observed": outs.iter().map(|o| o.short()).collect::<Vec<_>>(), "expected": format!("a repeat of a key that is down at the OS ({:?}); for the non-modifier of an active override one of {:?}", sim.os.keys_down, mask_names(prev_added)), "replaced_keys": mask_names(prev_removed)}), &prefix, &text));
                    }
                }
                0
            }
            other => {
                sim.apply(other);
                pending.push_back(other.clone());
                woke = loop_mode;
                0
            }
        };
        let mut left = nticks;
        while left > 0 {
            if loop_mode && !woke {
                if sim.k.can_block_update_idle_waiting(1) {
                    // kanata blocks until the next input event: the rest of the pause passes without a tick
                    out.inc("loop_blocks");
                    if left >= 50 {
                        out.inc("loop_blocks_followed_by_a_pause_of_50ms_or_more");
                    }
                    if obs.settle.last().map(|(n, _)| *n) != Some(n_consumed) {
                        obs.settle.push((n_consumed, sim.os.keys_down.clone()));
                    }
                    if judged_ok {
                        let mut k_list: Vec<usize> = vec![];
                        let mut foreign = false;
                        for kc in sim.k.layout.b().keycodes() {
                            match idx_of_code(u16::from(OsCode::from(kc))) {
                                Some(i) => {
                                    if !k_list.contains(&i) {
                                        k_list.push(i)
                                    }
                                }
                                None => foreign = true,
                            }
                        }
                        let km = list_mask(&k_list);
                        let (acc, removed, _added) = spec(&table, km);
                        let mut os: Mask = 0;
                        for n in &sim.os.keys_down {
                            match names.iter().position(|x| x == n) {
                                Some(i) => os |= 1 << i,
                                None => foreign = true,
                            }
                        }
                        out.inc("loop_blocks_judged");
                        let mut bdev: Option<(String, String, Value)> = None;
                        let roa_sfx = if roa { "release-on-activation-yes" } else { "release-on-activation-no" };
                        if !pending.is_empty() || !sim.k.layout.b().queue.is_empty() {
                            bdev = Some(("C13:loop:blocked-with-key-event-unprocessed".into(), "kanata may block although a key event it accepted has not been processed yet".into(), json!({"observed": format!("{} event(s) queued", sim.k.layout.b().queue.len()), "expected": "nothing queued"})));
                        } else if foreign {
                            bdev = Some(("C13:loop:blocked-with-foreign-key".into(), "kanata blocks while a key outside the configured universe is held".into(), json!({"observed": format!("{:?}", sim.os.keys_down), "expected": mask_names(acc[0])})));
                        } else if !acc.contains(&os) {
                            let pure = real.run(&k_list);
                            let pure_mf = real.run(&mods_first(&k_list));
                            if pure == os && nonmod_precedes_mod(&k_list) && acc.contains(&pure_mf) {
                                // the known order deviation, reported by the tick that led here
                                out.inc("loop_blocks_showing_the_known_order_deviation");
                            } else {
                                let extra = os & !acc[0];
                                let missing = acc[0] & !os;
                                let sig = if extra & table_outputs & !km != 0 {
                                    format!("C13:loop:blocked-with-override-output-down:{roa_sfx}")
                                } else if missing & 0x1fe0 & phys != 0 {
                                    "C13:loop:blocked-with-held-modifier-missing".to_string()
                                } else {
                                    "C13:loop:blocked-with-os-set-mismatch".to_string()
                                };
                                bdev = Some((sig, format!("kanata may block (no tick until the next key event, here {left} ms away) while the OS holds {:?}; specified for the keys kanata holds {:?}: {:?}{}", mask_names(os), list_names(&k_list), mask_names(acc[0]), if extra & table_outputs & !km != 0 { format!(" - override output {:?} stays down and auto-repeats although its combination is not held", mask_names(extra & table_outputs & !km)) } else { String::new() }), json!({"observed": mask_names(os), "expected": acc.iter().map(|m| mask_names(*m)).collect::<Vec<_>>(), "held_by_kanata_in_order": list_names(&k_list), "pause_before_next_event_ms": left, "override_keys_result": mask_names(pure)})));
                            }
                        } else if removed & 0x1f != 0 {
                            // an override is active while kanata sleeps: fine when the combination is still
                            // held (release-on-activation off); with release-on-activation the output
                            // "cannot remain held" (configuration guide)
                            let really = real.replaced_nonmods(&k_list) & removed;
                            if roa && really != 0 {
                                bdev = Some(("C13:loop:blocked-with-override-active:release-on-activation-yes".into(), format!("override-release-on-activation is on, yet kanata blocks with the override of {:?} active (OS holds {:?})", mask_names(really), mask_names(os)), json!({"observed": mask_names(os), "expected": "the override output released and the overridden key no longer held by kanata", "held_by_kanata_in_order": list_names(&k_list)})));
                            } else {
                                out.inc("loop_blocks_with_override_active_combination_held");
                                out.inc(&format!("loop_blocks_with_override_active_input_mods_{}", in_mods_bucket(removed)));
                            }
                        } else {
                            out.inc("loop_blocks_without_active_override");
                            if roa_removal_since_block {
                                out.inc("loop_blocks_after_release_on_activation_output_released");
                            }
                            if km == 0 && os == 0 {
                                out.inc("loop_blocks_with_nothing_held");
                            }
                        }
                        roa_removal_since_block = false;
                        if let Some((sig, what, extra)) = bdev {
                            let prefix: Vec<Ev> = h[..=ei].to_vec();
                            violate_once(out, &sig, what, || witness(&sim, extra, &prefix, &text));
                            judged_ok = false;
                        }
                    }
                    break;
                }
                out.inc("loop_ticks_run_because_kanata_may_not_block");
            }
            woke = false;
            left -= 1;
            let consumed = pending.pop_front();
            sim.tick();
            collect_os_seq(&sim, &mut obs.os_seq);
            if matches!(consumed, Some(Ev::P(_)) | Some(Ev::R(_))) {
                n_consumed += 1;
            } else if pending.is_empty() && obs.settle.last().map(|(n, _)| *n) != Some(n_consumed) {
                obs.settle.push((n_consumed, sim.os.keys_down.clone()));
            }
            if !judged_ok {
                continue;
            }
            let l = sim.k.layout.b();
            if l.queue.len() != pending.len() {
                judged_ok = false;
                out.inc("pipeline_fifo_model_mismatch");
                continue;
            }
            match &consumed {
                Some(Ev::P(c)) => {
                    if let Some(i) = out_of_code(*c) {
                        phys |= 1 << i;
                        erased &= !(1 << i);
                        if inv[i] != i {
                            out.inc("pipeline_presses_of_remapped_keys");
                        }
                    }
                }
                Some(Ev::R(c)) => {
                    if let Some(i) = out_of_code(*c) {
                        phys &= !(1 << i);
                        erased &= !(1 << i);
                    }
                }
                _ => {}
            }
            // what kanata is about to hold down in this tick, in state order
            let mut k_list: Vec<usize> = vec![];
            let mut foreign = false;
            for kc in l.keycodes() {
                let c = u16::from(OsCode::from(kc));
                match idx_of_code(c) {
                    Some(i) => {
                        if !k_list.contains(&i) {
                            k_list.push(i)
                        }
                    }
                    None => foreign = true,
                }
            }
            let was_stable = prev_stable;
            let ticks_since_activation = since_activation; // 1 = this tick directly follows the activating tick
            prev_stable = true;
            if roa {
                if let Some(Ev::P(c)) = &consumed {
                    if let Some(i) = out_of_code(*c) {
                        if !is_mod(i) && !k_list.contains(&i) {
                            // activated and released at once by override-release-on-activation
                            k_list.push(i);
                            prev_stable = false;
                            out.inc("pipeline_release_on_activation_removals");
                            roa_removal_since_block = true;
                        }
                    }
                }
            }
            let km = list_mask(&k_list);
            let (acc, removed, added) = spec(&table, km);
            let mut os: Mask = 0;
            let mut os_foreign = false;
            for n in &sim.os.keys_down {
                match names.iter().position(|x| x == n) {
                    Some(i) => os |= 1 << i,
                    None => os_foreign = true,
                }
            }
            out.inc("pipeline_ticks_judged");
            prev_ok = acc.contains(&os) && !foreign && !os_foreign;
            if removed != 0 {
                out.inc("pipeline_ticks_with_active_override");
                if removed != prev_removed {
                    out.inc("pipeline_activations");
                    since_activation = 0;
                    if (0..5).any(|k| removed & !prev_removed & (1 << k) != 0 && inv[k] != k) {
                        out.inc("pipeline_activations_by_remapped_key");
                    }
                    out.inc(&format!("pipeline_activation_chord_size_{}", (removed >> 5).count_ones() + 1));
                    if loop_mode && acc.len() == 1 {
                        out.inc(&format!("loop_activations_{}_input_mods_{}", if roa { "release_on_activation_yes" } else { "release_on_activation_no" }, in_mods_bucket(removed)));
                    }
                }
            }
            if prev_removed != 0 && removed != prev_removed {
                out.inc("pipeline_combination_ends");
                // modifiers of the ended combination that are still held and are back at the OS
                let back = prev_removed & 0x1fe0 & phys & os & !removed;
                if back != 0 {
                    out.inc("pipeline_modifier_restorations");
                }
                if prev_added & !os & !km != 0 {
                    out.inc("pipeline_outputs_released_at_end");
                }
            }
            erased |= removed & 0x1f;
            let mut dev: Option<(String, String, Value)> = None;
            if foreign || os_foreign {
                dev = Some(("C13:pipeline:foreign-key".into(), "a key outside the configured universe is held".into(), json!({"observed": format!("{:?}", sim.os.keys_down)})));
            } else if !acc.contains(&os) {
                // is the difference entirely the pure function's order sensitivity?
                let pure = real.run(&k_list);
                let pure_mf = real.run(&mods_first(&k_list));
                if pure == os && nonmod_precedes_mod(&k_list) && acc.contains(&pure_mf) {
                    out.inc("pipeline_order_deviation_ticks");
                    dev = Some((SIG_ORDER.into(), format!("OS holds {:?} while kanata holds {:?}: override not applied because the non-modifier became active before its modifier", mask_names(os), list_names(&k_list)), json!({"observed": mask_names(os), "expected": mask_names(acc[0]), "held_by_kanata_in_order": list_names(&k_list)})));
                } else {
                    let extra = os & !acc[0];
                    let missing = acc[0] & !os;
                    let sig = if extra & prev_added & !km != 0 {
                        "C13:pipeline:output-not-released"
                    } else if missing & 0x1fe0 & phys != 0 {
                        "C13:pipeline:modifier-not-restored"
                    } else if pure != os {
                        "C13:pipeline:os-differs-from-override-result"
                    } else {
                        "C13:pipeline:os-set-mismatch"
                    };
                    dev = Some((sig.into(), format!("after tick {} the OS holds {:?}, specified {:?} for kanata holding {:?}", sim.now, mask_names(os), mask_names(acc[0]), list_names(&k_list)), json!({"observed": mask_names(os), "expected": acc.iter().map(|m| mask_names(*m)).collect::<Vec<_>>(), "held_by_kanata_in_order": list_names(&k_list), "override_keys_result": mask_names(pure)})));
                }
            } else {
                // link to the physical keys: nothing phantom, no held modifier lost, no unrelated key lost
                let km_now = list_mask(&l.keycodes().filter_map(|kc| idx_of_code(u16::from(OsCode::from(kc)))).collect::<Vec<_>>());
                if km_now & !phys != 0 {
                    dev = Some(("C13:pipeline:phantom-key".into(), "kanata holds a key that is not physically held".into(), json!({"observed": mask_names(km_now), "expected": mask_names(phys)})));
                } else if phys & 0x1fe0 & !km_now != 0 {
                    dev = Some(("C13:pipeline:held-modifier-lost".into(), "a physically held modifier is no longer held by kanata".into(), json!({"observed": mask_names(km_now), "expected": mask_names(phys)})));
                } else if phys & 0x1f & !erased & !km_now != 0 {
                    dev = Some(("C13:pipeline:unrelated-key-lost".into(), "a physically held key that was never part of an active override is no longer held by kanata".into(), json!({"observed": mask_names(km_now), "expected": mask_names(phys & !erased)})));
                } else if consumed.is_some() && flagged != 0 {
                    // the next key event after an override was active ends the combination: kanata lets
                    // go of the overridden non-modifier, whatever the event is and however soon it comes
                    let press = matches!(consumed, Some(Ev::P(_)));
                    out.inc(if press { "pipeline_next_event_after_override_is_press" } else { "pipeline_next_event_after_override_is_release" });
                    if ticks_since_activation == 1 {
                        out.inc("pipeline_next_event_consumed_one_tick_after_activation");
                    }
                    let ev_key = match &consumed {
                        Some(Ev::P(c)) | Some(Ev::R(c)) => out_of_code(*c).map(key_name).unwrap_or("?"),
                        _ => "?",
                    };
                    if km_now & flagged != 0 {
                        let sig = if press { "C13:pipeline:override-not-ended-by-next-press" } else { "C13:pipeline:override-not-ended-by-next-release" };
                        dev = Some((sig.into(), format!("{} of {} was processed {} tick(s) after an override replaced {:?}, yet kanata still holds {:?}: the override combination goes on together with the new event (OS holds {:?})", if press { "press" } else { "release" }, ev_key, ticks_since_activation, mask_names(flagged), mask_names(km_now & flagged), mask_names(os)), json!({"observed": mask_names(km_now), "expected": mask_names(km_now & !flagged), "os_holds": mask_names(os), "ticks_since_activation": ticks_since_activation})));
                    } else {
                        out.inc(if press { "pipeline_override_ended_by_next_press" } else { "pipeline_override_ended_by_next_release" });
                    }
                } else if consumed.is_none() && was_stable && prev_ok && (km_now != prev_km_now || os != prev_os) {
                    dev = Some(("C13:pipeline:changed-without-input".into(), "a tick that consumed no input event changed the keys kanata holds or the keys the OS holds".into(), json!({"observed": {"kanata": mask_names(km_now), "os": mask_names(os)}, "expected": {"kanata": mask_names(prev_km_now), "os": mask_names(prev_os)}})));
                } else if consumed.is_none() {
                    out.inc("pipeline_idle_ticks_unchanged");
                }
                // non-modifiers that override_keys really replaces for the keys held in this tick (taken from
                // the public function on the same list, so an override that the known order deviation
                // left unapplied marks nothing); only ticks whose OS set is as specified add marks
                if !roa && removed != 0 {
                    flagged |= real.replaced_nonmods(&k_list) & removed;
                }
            }
            since_activation = since_activation.saturating_add(1);
            {
                let km_now = list_mask(&l.keycodes().filter_map(|kc| idx_of_code(u16::from(OsCode::from(kc)))).collect::<Vec<_>>());
                flagged &= km_now;
                prev_km_now = km_now;
                prev_os = os;
            }
            if let Some((sig, what, extra)) = dev {
                if !reported || sig != SIG_ORDER {
                    let prefix: Vec<Ev> = h[..=ei].to_vec();
                    violate_once(out, &sig, what, || witness(&sim, extra, &prefix, &text));
                }
                if sig == SIG_ORDER {
                    reported = true;
                } else {
                    judged_ok = false; // one live report per history
                }
            }
            prev_removed = removed;
            prev_added = added;
            prev_unique = acc.len() == 1;
            prev_km = km;
        }
    }
    // everything is physically released, every queued event was consumed and 12 more ticks have passed
    if !sim.os.all_up() || sim.k.layout.b().keycodes().next().is_some() {
        violate_once(
            out,
            "C13:pipeline:stuck-at-end",
            format!("after all keys were released the OS still holds {:?}", sim.os.keys_down),
            || json!({"config": text, "history": render_hist(&h), "observed": format!("{:?}", sim.os.keys_down), "expected": "nothing held", "trace": sim.trace_json()}),
        );
    } else {
        out.inc("pipeline_histories_ending_all_up");
    }
    if want_sample {
        out.sample = Some(json!({"part": "pipeline", "config": text, "history": render_hist(&h), "trace": sim.trace_json()}));
    }
    Some(obs)
}

// ------------------------------------------------------------------ follow-up family

/// seed-independent follow-up cases: (output key with an override) x (physical key that outputs it) x
/// 4 combination shapes x release-on-activation no/yes
const N_FU_SYS: u64 = 4 * 5 * 4 * 2;

fn n_fu(ctx: &Ctx) -> u64 {
    N_FU_SYS + ctx.tier.sel(400, 4_000)
}

struct FuCase {
    table: Vec<Ovr>,
    map: Map,
    roa: bool,
    text: String,
    family: &'static str,
    map_kind: u64,
}

fn fu_case(ctx: &Ctx, r: u64) -> FuCase {
    if r < N_FU_SYS {
        let mut rng = Rng::new(r ^ 0xc13_f0);
        let q = (r % 4) as usize;
        let p = ((r / 4) % 5) as usize;
        let v = (r / 20) % 4;
        let roa = r / 80 == 1;
        let (in_mods, out_mods): (u8, u8) = match v {
            0 => (0b0000_0010, 0b0000_0010), // (lsft q) -> (lsft out)
            1 => (0, 0),                     // (q) -> (out)
            2 => (0b0001_0010, 0b0000_0100), // (lsft rctl q) -> (lalt out)
            _ => (0b0000_0010, 0b0000_0001), // (lsft q) -> (lctl out): the output modifier is not the held one
        };
        let mut table = vec![Ovr { in_mods, in_key: q, out_mods, out_key: (q + 1 + v as usize) % 5 }];
        if p != q && p < 4 {
            table.push(Ovr { in_mods, in_key: p, out_mods: 0, out_key: (p + 2) % 5 });
        }
        let mut map = identity_map();
        map.swap(p, q);
        let text = config(&render_table(&table, &mut rng), Some(roa), &map);
        return FuCase { table, map, roa, text, family: "systematic", map_kind: if p == q { 0 } else { 4 } };
    }
    let mut rng = Rng::for_case(ctx.seed, "C13", "followup", r);
    let table = random_table(&mut rng);
    let roa = r % 2 == 1;
    let map_kind = (r / 2) % 4;
    let map = random_map(&mut rng, map_kind);
    let text = config(&render_table(&table, &mut rng), Some(roa), &map);
    FuCase { table, map, roa, text, family: "random", map_kind }
}

/// spacing of a follow-up mini-history: 0..=2 = ticks between the key that completes the combination and
/// the follow-up event (everything before it 2 ticks apart); 3 = burst, no tick between any two events
/// 4 = loop mode (see `judge_history`): human pauses of 60..260 ms between all events, kanata ticks only
/// while it may not block
const FU_SPACINGS: usize = 5;
const FU_LOOP: usize = 4;

struct FuMini {
    entry: usize,
    /// follow-up event: press (true) / release (false) of the key with this universe index (output space)
    press: bool,
    key: usize,
    spacing: usize,
    h: Vec<Ev>,
}

/// For one table entry: its full combination typed modifiers first, then ONE follow-up event right
/// behind the key that completes it (press of every key outside the combination, release of every key
/// of the combination), each at every spacing; 3 ticks later everything is released with 0/1/2-tick gaps.
fn fu_minis(c: &FuCase) -> Vec<FuMini> {
    let cs = codes();
    let inv = inverse(&c.map);
    let mut v = vec![];
    for (ei, o) in c.table.iter().enumerate() {
        let mut mods: Vec<usize> = (0..8).filter(|i| o.in_mods & (1 << i) != 0).map(|i| i + 5).collect();
        if !mods.is_empty() {
            let n = ei % mods.len();
            mods.rotate_left(n);
        }
        let combo: Mask = mods_to_mask(o.in_mods) | (1 << o.in_key);
        for f in 0..NK {
            let press = combo & (1 << f) == 0;
            for spacing in 0..FU_SPACINGS {
                let burst = spacing == 3;
                let lp = spacing == FU_LOOP;
                // loop mode: pauses a human produces, different at every position
                let pause = |j: usize| -> u32 { 60 + ((f * 37 + ei * 11 + j * 53) % 201) as u32 };
                let mut h = vec![];
                let mut down: Vec<usize> = vec![];
                for (j, m) in mods.iter().enumerate() {
                    h.push(Ev::P(cs[inv[*m]]));
                    down.push(*m);
                    if lp {
                        h.push(Ev::T(pause(j)));
                    } else if !burst {
                        h.push(Ev::T(2));
                    }
                }
                h.push(Ev::P(cs[inv[o.in_key]]));
                down.push(o.in_key);
                if lp {
                    h.push(Ev::T(pause(8)));
                } else if !burst && spacing > 0 {
                    h.push(Ev::T(spacing as u32));
                }
                if press {
                    h.push(Ev::P(cs[inv[f]]));
                    if f % 2 == 0 {
                        down.insert(0, f); // released first
                    } else {
                        down.push(f); // released last
                    }
                } else {
                    h.push(Ev::R(cs[inv[f]]));
                    down.retain(|k| *k != f);
                }
                if lp {
                    h.push(Ev::T(pause(9)));
                } else if !burst {
                    h.push(Ev::T(3));
                }
                if (f + ei) % 3 == 0 {
                    down.reverse();
                }
                for (j, k) in down.iter().enumerate() {
                    h.push(Ev::R(cs[inv[*k]]));
                    let g = if lp {
                        pause(10 + j)
                    } else if burst {
                        0
                    } else {
                        ((spacing + j) % 3) as u32
                    };
                    if g > 0 {
                        h.push(Ev::T(g));
                    }
                }
                push_final_drain(&mut h);
                v.push(FuMini { entry: ei, press, key: f, spacing, h });
            }
        }
    }
    v
}

fn run_followup(out: &mut CaseOut, ctx: &Ctx, r: u64) {
    let c = fu_case(ctx, r);
    out.inc("followup_cases");
    out.tag(format!("fu:{}:roa={}:map={}:entries={}", c.family, c.roa, c.map_kind, c.table.len()));
    let minis = fu_minis(&c);
    let mut reference: Option<RunObs> = None;
    let mut ref_for = (usize::MAX, usize::MAX);
    let n_minis = minis.len();
    for (mi, m) in minis.iter().enumerate() {
        out.inc("followup_mini_histories");
        out.inc(match m.spacing {
            0 => "followup_event_0_ticks_behind_completing_key",
            1 => "followup_event_1_tick_behind_completing_key",
            2 => "followup_event_2_ticks_behind_completing_key",
            3 => "followup_whole_history_without_ticks",
            _ => "followup_whole_history_in_loop_mode",
        });
        out.inc(match (m.press, is_mod(m.key)) {
            (true, false) => "followup_press_of_outside_nonmodifier",
            (true, true) => "followup_press_of_outside_modifier",
            (false, false) => "followup_release_of_overridden_key",
            (false, true) => "followup_release_of_combination_modifier",
        });
        if !c.roa {
            out.inc("followup_mini_histories_release_on_activation_no");
        }
        let before = out.violations.len();
        let want_sample = r % 100 == 3 && mi == n_minis / 2;
        let Some(obs) = judge_history(out, &c.table, &c.map, c.roa, &c.text, &m.h, want_sample, m.spacing == FU_LOOP) else { return };
        if ref_for != (m.entry, m.key) {
            reference = reference_run(&c.text, &m.h);
            ref_for = (m.entry, m.key);
        }
        if let Some(rf) = &reference {
            compare_spacing(out, &c.text, &m.h, c.roa, &obs, rf);
        }
        for v in out.violations[before..].iter_mut() {
            if let Some(o) = v.witness.as_object_mut() {
                o.insert("followup".into(), json!({"entry_index": m.entry, "event": format!("{} of {}", if m.press { "press" } else { "release" }, key_name(m.key)), "spacing": m.spacing}));
            }
        }
    }
}

// ------------------------------------------------------------------ loop family

/// seed-independent loop cases: (output key with an override: a b 1 9) x (physical key that outputs it) x
/// 5 combination shapes (0, 1 and 2 input modifiers) x release-on-activation no/yes
const N_LOOP_SYS: u64 = 4 * 5 * 5 * 2;

fn n_loop(ctx: &Ctx) -> u64 {
    N_LOOP_SYS + ctx.tier.sel(8_000, 60_000)
}

/// pause between two key events of a loop-mode history: what a human produces (50..500 ms), one in six a
/// fast roll (1..20 ms)
fn loop_pause(rng: &mut Rng) -> u32 {
    if rng.chance(1, 6) {
        *rng.pick(&[1u32, 2, 3, 8, 20])
    } else {
        50 + rng.usize(451) as u32
    }
}

/// One entry's full combination typed modifiers first with human pauses, OS auto-repeats of the
/// non-modifier's physical key while everything is held (the OS repeats a held key every ~30 ms after
/// ~250 ms), then everything released, again with pauses.
fn targeted_loop_history(rng: &mut Rng, o: &Ovr, inv: &Map, cs: &[u16; NK]) -> Vec<Ev> {
    let mut h = vec![];
    let mut mods: Vec<usize> = (0..8).filter(|i| o.in_mods & (1 << i) != 0).map(|i| i + 5).collect();
    rng.shuffle(&mut mods);
    let mut down: Vec<u16> = vec![];
    for m in &mods {
        h.push(Ev::P(cs[inv[*m]]));
        down.push(cs[inv[*m]]);
        h.push(Ev::T(loop_pause(rng)));
    }
    let k = cs[inv[o.in_key]];
    h.push(Ev::P(k));
    down.push(k);
    h.push(Ev::T(50 + rng.usize(451) as u32));
    if rng.coin() {
        for _ in 0..1 + rng.usize(3) {
            h.push(Ev::Rep(k));
            h.push(Ev::T(25 + rng.usize(15) as u32));
        }
    }
    rng.shuffle(&mut down);
    for c in down {
        h.push(Ev::R(c));
        h.push(Ev::T(loop_pause(rng)));
    }
    h
}

fn loop_case(ctx: &Ctx, r: u64) -> PipeCase {
    let cs = codes();
    const GAPS: [u32; 14] = [1, 2, 5, 20, 50, 60, 75, 90, 120, 160, 220, 300, 400, 500];
    if r < N_LOOP_SYS {
        let mut rng = Rng::new(r ^ 0xc13_100b);
        let q = (r % 4) as usize;
        let p = ((r / 4) % 5) as usize;
        let v = (r / 20) % 5;
        let roa = r / 100 == 1;
        let (in_mods, out_mods): (u8, u8) = match v {
            0 => (0b0000_0010, 0b0000_0010), // (lsft q) -> (lsft out)
            1 => (0, 0),                     // (q) -> (out)
            2 => (0b0001_0010, 0b0000_0100), // (lsft rctl q) -> (lalt out)
            3 => (0b0100_0000, 0),           // (ralt q) -> (out)
            _ => (0b0000_0010, 0b0000_0001), // (lsft q) -> (lctl out): the output modifier is not the held one
        };
        let mut table = vec![Ovr { in_mods, in_key: q, out_mods, out_key: (q + 1 + v as usize) % 5 }];
        if p != q && p < 4 {
            table.push(Ovr { in_mods, in_key: p, out_mods: 0, out_key: (p + 2) % 5 });
        }
        let mut map = identity_map();
        map.swap(p, q);
        let inv = inverse(&map);
        let text = config(&render_table(&table, &mut rng), Some(roa), &map);
        let mut h = vec![];
        for o in &table {
            h.extend(targeted_loop_history(&mut rng, o, &inv, &cs));
        }
        let mut pool = table_pool(&table);
        pool.insert(4);
        let pool_codes: Vec<u16> = pool.iter().map(|i| cs[inv[*i]]).collect();
        h.extend(hist::consistent(&mut rng, &pool_codes, 10, &GAPS, true));
        push_final_drain(&mut h);
        return PipeCase { table, map, roa, text, h, family: "systematic", map_kind: if p == q { 0 } else { 4 }, pool_len: pool.len() };
    }
    let mut rng = Rng::for_case(ctx.seed, "C13", "loop", r);
    let table = random_table(&mut rng);
    let roa = r % 2 == 0;
    let map_kind = (r / 2) % 4;
    let map = random_map(&mut rng, map_kind);
    let inv = inverse(&map);
    let text = config(&render_table(&table, &mut rng), Some(roa), &map);
    let mut pool = table_pool(&table);
    pool.insert(4);
    pool.insert(5 + rng.usize(8));
    let pool_codes: Vec<u16> = pool.iter().map(|i| cs[inv[*i]]).collect();
    let n_ev = 8 + rng.usize(ctx.tier.sel(24, 40));
    let targeted = (r / 8) % 2 == 1;
    let mut h = vec![];
    if targeted {
        for _ in 0..1 + rng.usize(2) {
            let o = rng.pick(&table).clone();
            h.extend(targeted_loop_history(&mut rng, &o, &inv, &cs));
        }
    }
    h.extend(hist::consistent(&mut rng, &pool_codes, n_ev, &GAPS, true));
    push_final_drain(&mut h);
    PipeCase { table, map, roa, text, h, family: if targeted { "targeted+random" } else { "random" }, map_kind, pool_len: pool.len() }
}

fn run_loop(out: &mut CaseOut, ctx: &Ctx, r: u64) {
    let PipeCase { table, map, roa, text, h, family, map_kind, pool_len } = loop_case(ctx, r);
    out.tag(format!("loop:{family}:roa={roa}:map={map_kind}:entries={}:pool={pool_len}", table.len()));
    out.inc(&format!("loop_histories_{}", family.replace('+', "_")));
    let Some(obs) = judge_history(out, &table, &map, roa, &text, &h, r % 400 == 1, true) else { return };
    // the same press/release events ticked through 4 ticks apart: at every moment kanata blocks the OS must
    // hold what it holds there after the same events
    if let Some(reference) = reference_run(&text, &h) {
        compare_spacing(out, &text, &h, roa, &obs, &reference);
    }
}

impl Check for C13Check {
    fn id(&self) -> &'static str {
        "C13"
    }
    fn n_cases(&self, ctx: &Ctx) -> u64 {
        n_pure(ctx) + n_pipe(ctx) + n_fu(ctx) + n_loop(ctx)
    }
    fn describe(&self, ctx: &Ctx, idx: u64) -> Value {
        if idx < n_pure(ctx) {
            let (t, mut rng) = table_for(ctx, idx);
            json!({"part": "pure", "config": config(&render_table(&t, &mut rng), None, &identity_map())})
        } else if idx < n_pure(ctx) + n_pipe(ctx) {
            let pc = pipe_case(ctx, idx - n_pure(ctx));
            json!({"part": "pipeline", "case": idx - n_pure(ctx), "family": pc.family, "config": pc.text, "history": render_hist(&pc.h)})
        } else if idx < n_pure(ctx) + n_pipe(ctx) + n_fu(ctx) {
            let r = idx - n_pure(ctx) - n_pipe(ctx);
            let c = fu_case(ctx, r);
            let minis = fu_minis(&c);
            json!({"part": "followup", "case": r, "family": c.family, "config": c.text, "mini_histories": minis.len(), "first_mini_histories": minis.iter().take(8).map(|m| render_hist(&m.h)).collect::<Vec<_>>()})
        } else {
            let r = idx - n_pure(ctx) - n_pipe(ctx) - n_fu(ctx);
            let pc = loop_case(ctx, r);
            json!({"part": "loop", "case": r, "family": pc.family, "config": pc.text, "history": render_hist(&pc.h), "driver": "t:N = a pause of N ms; after an input event one tick runs, further ticks only while can_block_update_idle_waiting is false"})
        }
    }
    fn run_case(&self, ctx: &Ctx, idx: u64) -> CaseOut {
        let mut out = CaseOut::new();
        if idx < n_pure(ctx) {
            run_pure(&mut out, ctx, idx);
        } else if idx < n_pure(ctx) + n_pipe(ctx) {
            run_pipeline(&mut out, ctx, idx - n_pure(ctx));
        } else if idx < n_pure(ctx) + n_pipe(ctx) + n_fu(ctx) {
            run_followup(&mut out, ctx, idx - n_pure(ctx) - n_pipe(ctx));
        } else {
            run_loop(&mut out, ctx, idx - n_pure(ctx) - n_pipe(ctx) - n_fu(ctx));
        }
        out
    }
    fn rule(&self) -> String {
        "Pure part: one override table per case, written as configuration text and parsed by the real parser (256 seed-independent tables: every subset of the 8 modifiers as the input modifiers of an override of `a`, with a shorter combination listed before and after it; then random tables of 1-7 entries over non-modifiers {a,b,1,9} with random modifier subsets on both sides, half of them extending/shrinking another entry's combination). For each table, exhaustively every ordered list of distinct keys of length <= 3 (quick) / <= 4 (thorough) over {a,b,1,9,x} + the 8 modifiers, plus targeted lists (each entry's full combination in several orders, with an unrelated key, an extra modifier, a second non-modifier), is passed to Overrides::override_keys and the resulting key set compared with the set-based specification. Pipeline part: override-release-on-activation alternating yes/no; the base layer maps the 13 physical keys to a permutation of the same 13 key codes (identity / non-modifiers permuted / non-modifiers and modifiers each permuted / 1-3 arbitrary transpositions, a quarter of the random cases each) and the overrides are defined on the output codes; 80 seed-independent cases enumerate every pair (output key a,b,1,9 that has an override) x (physical key a,b,1,9,x that outputs it, the layer swaps the two; a second entry overrides the physical key's own code) x 4 combination shapes, each typing the full combination modifiers-first, sending OS repeats of the non-modifier's physical key while it is held, and releasing everything; the other cases use random tables with physically consistent random press/release/repeat histories over the physical keys that output the keys of the table, half of them preceded by one or two such targeted combinations; after every tick the set of keys the OS holds must equal the specification applied to the keys kanata holds in that tick (Layout::keycodes, plus the key just removed by release-on-activation), kanata's held keys must be consistent with the physical keys, and at the end nothing may be held; the histories also contain OS auto-repeat events for held keys: every repeat output must be for a key that is down at the OS, a repeat of the physical key whose output is the non-modifier of an active override must be forwarded for one of the override's output keys, never for the replaced key, and a repeat of a physical key whose output kanata holds and no active override replaces must be forwarded as that key (or as a down output of another entry for the same key), never dropped and never as an unrelated key; repeat violations on a physical key that outputs a different code get the suffix :remapped-key. End of the combination (release-on-activation off): after a tick in which override_keys replaced a non-modifier, the next press or release kanata processes (any key, any distance, also the tick directly after the activating tick) must leave that non-modifier no longer held by kanata - together with the per-tick clause this means the override outputs are released, still-held modifiers are back and the newly pressed key is sent with the modifiers that are really held; a tick that consumes no event must change neither kanata's held keys nor the OS set. Spacing independence: every pipeline history is re-run with the same press/release events 4 ticks apart (repeats dropped); at every settled point (a tick that consumed nothing while nothing was queued) the OS must hold the same keys as the widely spaced run after the same number of events, and with release-on-activation off the complete sequence of presses/releases sent to the OS must be identical. Follow-up part: 160 seed-independent cases ((output key a,b,1,9) x (physical key that outputs it) x 4 combination shapes incl. one whose output modifier differs from the held one x release-on-activation no/yes) + 400 (quick) / 4000 (thorough) random tables with random layer permutations; per case EXHAUSTIVELY every table entry x every follow-up event (press of each universe key outside the entry's combination, release of each key of the combination; 13 per entry) x 4 spacings (follow-up event 0, 1, 2 ticks behind the key that completes the combination with the modifiers 2 ticks apart; whole mini-history without any tick); 3 ticks later everything is released with 0/1/2-tick gaps; every mini-history is judged by all pipeline clauses and compared with its widely spaced run; a 5th spacing runs the mini-history in loop mode with pauses of 60..260 ms between all events. Loop part (processing-loop driver): 200 seed-independent cases ((output key a,b,1,9) x (physical key that outputs it) x 5 combination shapes: (q)->(out), (lsft q)->(lsft out), (lsft q)->(lctl out), (ralt q)->(out), (lsft rctl q)->(lalt out), i.e. 0, 1 and 2 input modifiers, x override-release-on-activation no/yes) + 8000 (quick) / 60000 (thorough) random tables (same table generator, layer permutations and release-on-activation alternation as the pipeline part), histories = [for the seed-independent and half of the random cases: one or two entries' full combination typed modifiers-first, held 50..500 ms, in half of them 1-3 OS repeats 25..40 ms apart, released in random order] + a physically consistent random press/release/repeat history; pauses between events 50..500 ms (one in six 1..20 ms). Driver: an input event is handled and one tick runs; after that a tick runs only while Kanata::can_block_update_idle_waiting(1) is false; when it is true the rest of the pause passes without any tick. Every executed tick is judged by all pipeline clauses; at every moment kanata blocks: the set of keys the OS holds must equal the specification applied to the keys kanata holds at that moment (Layout::keycodes; an override output key may be down only while its combination is held), with override-release-on-activation yes no override may be active, no accepted key event may be unprocessed; the blocked moments are the settled points compared with the unconditionally ticking widely spaced run. Non-trivial = table accepted; distinct = distinct table shape (modifier counts per entry) / pipeline class.".into()
    }
    fn assumptions(&self) -> Vec<String> {
        vec![
            "results are compared as sets of keys (the statement is set-based); duplicates and order inside the key list are not judged".into(),
            "when two entries for the same key match with the same number of modifiers the statement does not say which wins; either is accepted (the implementation takes the earliest, counted as pure_tie_resolved_to_earliest_entry)".into(),
            "overrides are applied once to the keys kanata is about to hold; an override's output is not itself overridden again".into(),
            "pipeline: 'the keys kanata is about to hold down' is read from Layout::keycodes() after each tick; with override-release-on-activation yes the overridden non-modifier is removed inside the tick, so it is added back from the input event consumed in that tick (one queued event per tick, checked against Layout.queue.len())".into(),
            "pipeline: kanata deliberately drops an overridden non-modifier's key state at the next action/release (eager erasure); such keys are exempt from the 'physically held keys stay held' check from their first override until their release".into(),
            "layer mapping: only injective mappings (permutations of the universe, plain key actions) are generated, so every output key has exactly one physical key; two physical keys that output the same code, and richer actions (chords, tap-hold, ...) as override inputs, are not judged here (C14 covers repeat forwarding for action forms)".into(),
            "repeats are judged for completeness only from a settled state: no queued event, the previous tick's OS set equal to the specification (so ticks showing the known order deviation are excluded), no key removed by release-on-activation in that tick. kanata's repeat table lists a key's own code and the non-modifier outputs of every override of that code and takes the first that is down, so a repeat forwarded as a down output of another entry for the same key is tolerated (counted as pipeline_repeats_forwarded_as_other_entry_output)".into(),
            "end of the combination: neither the statement nor the guide says when kanata stops holding an overridden key that is still physically down. Judged is what the repository's own scripted scenarios (override_release_mod_change_key: `d:lsft d:a d:c` gives `up:Kb9 dn:C`, `d:lsft d:1 d:c` gives `up:LCtrl up:Kb2 dn:LShift dn:C`, release of the modifier gives `up:LShift up:Kb9`) and the doc comment of mark_overridden_nonmodkeys_for_eager_erasure fix: the next press or release processed after a tick in which the override was active ends it. Which non-modifiers were replaced in a tick is read from the public function (OverrideStates::removed_oscs after override_keys on the keys kanata holds, in state order), and only in ticks whose OS set equals the specification, so overrides left unapplied by the known order deviation mark nothing. Only judged with override-release-on-activation no (with yes the key is dropped in the activating tick, which the per-tick clause already covers). The guide's sentence that releasing the modifier first 'sends a' describes older behaviour and is not judged either way beyond OS set = specification of the keys kanata holds".into(),
            "spacing independence assumes a configuration of plain keys and overrides only (nothing time-dependent), which is all this check generates; kanata consumes one queued event per tick, so the same events in the same order must lead through the same states. With override-release-on-activation yes the output is released one tick after activation and can share a tick with the next event, which legitimately merges/reorders outputs (a modifier that would come back for one tick never does), so there only the held sets at settled points are compared, not the output sequence. OS repeat inputs are left out of the widely spaced run and repeat outputs out of the compared sequence".into(),
            "loop mode reproduces the control flow of Kanata::start_processing_loop in whole milliseconds: the tick after an input event always runs (the loop handles the event that woke it and accounts for the elapsed millisecond without consulting the predicate), afterwards can_block_update_idle_waiting(1) is consulted before every tick exactly as the loop does. All loop-mode gaps are >= 1 ms, so every event is followed by a tick before the next one is handled; an OS repeat handled in the SAME millisecond as the press that activated an override (no tick in between) is the open finding C07 override-release-marker-cleared-by-os-repeat and is left to C07. A block whose OS set shows the known order deviation (same re-ordering test as for ticks) is counted, not reported again. That the override output is released before kanata blocks under override-release-on-activation yes is taken from the guide ('the 9 key cannot remain held when activated by the override') and the statement ('no override output key stays pressed'); 'active' is read from the public function (removed_oscs after override_keys on the keys kanata holds)".into(),
            "known deviation (DESIGN §6 #9): the implementation is order-sensitive; a deviation is classified as that class exactly when a non-modifier precedes a modifier in the list and the same keys listed modifiers-first give a specified result".into(),
        ]
    }
    fn floors(&self, ctx: &Ctx) -> Vec<(&'static str, u64)> {
        vec![
            ("tables", 6_000),
            ("pure_lists", ctx.tier.sel(10_000_000, 100_000_000)),
            ("pure_lists_with_match", 100_000),
            ("pure_match_chord_size_3", 1_000),
            ("pure_match_chord_size_4", 100),
            ("pure_lists_with_tie", 100),
            ("pipeline_ticks_judged", 50_000),
            ("pipeline_activations", 1_000),
            ("pipeline_combination_ends", 1_000),
            ("pipeline_modifier_restorations", 100),
            ("pipeline_outputs_released_at_end", 500),
            ("pipeline_release_on_activation_removals", 200),
            ("pipeline_histories_release_on_activation_yes", 500),
            ("pipeline_histories_release_on_activation_no", 500),
            ("pipeline_histories_ending_all_up", 2_000),
            ("pipeline_repeat_inputs", 10_000),
            ("pipeline_repeats_during_active_override", 200),
            ("pipeline_repeats_forwarded_for_override_output", 200),
            ("pipeline_histories_systematic", N_PIPE_SYS),
            ("pipeline_histories_targeted_random", 1_000),
            ("pipeline_histories_with_remapped_keys", 2_000),
            ("pipeline_histories_override_on_output_of_remapped_key", 1_000),
            ("pipeline_presses_of_remapped_keys", 10_000),
            ("pipeline_activations_by_remapped_key", 1_000),
            ("pipeline_repeats_during_active_override_remapped_key", 500),
            ("pipeline_repeats_forwarded_for_override_output_remapped_key", 500),
            ("pipeline_repeats_of_key_not_overridden", 2_000),
            ("pipeline_repeats_of_key_not_overridden_remapped_key", 1_000),
            ("pipeline_repeats_forwarded_for_the_key_itself", 2_000),
            ("pipeline_idle_ticks_unchanged", 500_000),
            ("pipeline_next_event_after_override_is_press", 10_000),
            ("pipeline_next_event_after_override_is_release", 5_000),
            ("pipeline_next_event_consumed_one_tick_after_activation", 10_000),
            ("pipeline_override_ended_by_next_press", 10_000),
            ("pipeline_override_ended_by_next_release", 5_000),
            ("spacing_histories_compared_with_widely_spaced_run", 50_000),
            ("spacing_settled_points_compared", 200_000),
            ("spacing_output_sequences_compared", 20_000),
            ("followup_cases", N_FU_SYS + ctx.tier.sel(400, 4_000)),
            ("followup_mini_histories", 50_000),
            ("followup_mini_histories_release_on_activation_no", 20_000),
            ("followup_event_0_ticks_behind_completing_key", 10_000),
            ("followup_event_1_tick_behind_completing_key", 10_000),
            ("followup_event_2_ticks_behind_completing_key", 10_000),
            ("followup_whole_history_without_ticks", 10_000),
            ("followup_press_of_outside_nonmodifier", 10_000),
            ("followup_press_of_outside_modifier", 10_000),
            ("followup_release_of_combination_modifier", 5_000),
            ("followup_release_of_overridden_key", 3_000),
            ("followup_whole_history_in_loop_mode", 10_000),
            ("loop_histories_systematic", N_LOOP_SYS),
            ("loop_histories_random", 3_000),
            ("loop_histories_targeted_random", 3_000),
            ("loop_histories_release_on_activation_yes", 10_000),
            ("loop_histories_release_on_activation_no", 10_000),
            ("loop_blocks_judged", 200_000),
            ("loop_blocks_followed_by_a_pause_of_50ms_or_more", 150_000),
            ("loop_ticks_run_because_kanata_may_not_block", 10_000),
            ("loop_blocks_after_release_on_activation_output_released", 10_000),
            ("loop_blocks_with_override_active_combination_held", 10_000),
            ("loop_blocks_with_override_active_input_mods_0", 2_000),
            ("loop_blocks_with_override_active_input_mods_1", 2_000),
            ("loop_blocks_with_override_active_input_mods_2", 2_000),
            ("loop_activations_release_on_activation_yes_input_mods_0", 2_000),
            ("loop_activations_release_on_activation_yes_input_mods_1", 2_000),
            ("loop_activations_release_on_activation_yes_input_mods_2", 2_000),
            ("loop_activations_release_on_activation_no_input_mods_0", 2_000),
            ("loop_activations_release_on_activation_no_input_mods_1", 2_000),
            ("loop_activations_release_on_activation_no_input_mods_2", 2_000),
            ("loop_repeat_inputs", 10_000),
            ("loop_blocks_with_nothing_held", 20_000),
        ]
    }
    fn exhaustive(&self, _ctx: &Ctx) -> bool {
        true
    }
}
