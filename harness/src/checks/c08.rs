//! C08 — macros play exactly their key list, in order, one step per millisecond with at least the
//! stated delays, and always end with every key released (also after cancellation); a repeating
//! macro restarts only while its key is held.
//!
//! Oracle: the generator keeps its own macro-body AST (keys, delays, `S-(…)` groups, output chords,
//! nested lists, one `(unicode λ)`), renders it into every macro variant and expands it with an
//! independent expander into the expected step list. The OS stream (redundant releases dropped) is
//! projected onto the macro's private key alphabet and matched against that list.
//!
//! Two further families live in c08_ext.rs: a key that carries a custom action of its own (unicode,
//! mouse button, virtual-key action, cancelling macro key) pressed at every tick offset of a macro
//! whose body contains custom items (unicode, mouse-button tap, virtual-key tap) - every custom
//! item of the macro and of the typed key must come out exactly once; and a physical key with the
//! same key code as a modifier the macro holds, pressed before / during the macro and released at
//! every tick offset - judged on the OS key state: while the body holds the modifier for a step,
//! the modifier is down in the OS model when that step's key is pressed.

use crate::core::rng::Rng;
use crate::core::sim::{code_name, osc, render_hist, Ev, OutKind, Sim};
use crate::core::{CaseOut, Check, Ctx};
use serde_json::{json, Value};
use std::collections::BTreeSet;

#[path = "c08_ext.rs"]
mod ext;

pub struct C08Check;
pub static C08: C08Check = C08Check;

// ------------------------------------------------------------------------------------------------
// macro body AST, renderer, independent expander

#[derive(Clone, Debug)]
enum Item {
    Key(String),
    Delay(u32),
    /// output chord `C-S-a`: modifiers pressed in order, key tapped, modifiers released in reverse
    Chord(Vec<String>, String),
    /// `C-S-(…)`; the bool selects the alternative spelling `C-S- (…)`
    Group(Vec<String>, Vec<Item>, bool),
    List(Vec<Item>),
    Uni(char),
    /// a mouse button tapped by the macro (custom item): index into `BTNS`
    Btn(usize),
    /// `(on-press tap-vkey v)` (custom item): index into `VKS`
    Vk(usize),
}

/// mouse buttons (configuration name, name in the OS stream)
const BTNS: &[(&str, &str)] = &[("mlft", "Left"), ("mrgt", "Right"), ("mmid", "Mid"), ("mfwd", "Forward"), ("mbck", "Backward")];
/// virtual keys (name, key it outputs); the output keys are outside every macro alphabet
const VKS: &[(&str, &str)] = &[("vka", "f13"), ("vkb", "f14"), ("vkc", "f15"), ("vkt", "f16")];

fn mod_prefix(m: &str, alt: bool) -> &'static str {
    match m {
        "lsft" => "S-",
        "rsft" => "RS-",
        "lctl" => "C-",
        "rctl" => "RC-",
        "lalt" => "A-",
        "ralt" => {
            if alt {
                "AG-"
            } else {
                "RA-"
            }
        }
        "lmet" => "M-",
        _ => "RM-",
    }
}

fn render_items(items: &[Item]) -> String {
    let mut v = vec![];
    for it in items {
        v.push(match it {
            Item::Key(k) => k.clone(),
            Item::Delay(d) => d.to_string(),
            Item::Chord(ms, k) => format!("{}{}", ms.iter().map(|m| mod_prefix(m, k.len() % 2 == 0)).collect::<String>(), k),
            Item::Group(ms, inner, spaced) => format!(
                "{}{}({})",
                ms.iter().map(|m| mod_prefix(m, inner.len() % 2 == 0)).collect::<String>(),
                if *spaced { " " } else { "" },
                render_items(inner)
            ),
            Item::List(inner) => format!("({})", render_items(inner)),
            Item::Uni(c) => format!("(unicode {c})"),
            Item::Btn(i) => BTNS[*i].0.to_string(),
            Item::Vk(i) => format!("(on-press tap-vkey {})", VKS[*i].0),
        });
    }
    v.join(" ")
}

#[derive(Clone, Copy, Debug, PartialEq, Eq)]
enum SK {
    P,
    R,
    U,
}

#[derive(Clone, Debug, PartialEq, Eq)]
struct XStep {
    kind: SK,
    /// name as the OS stream prints it
    name: String,
    /// sum of the delays written between the previous step and this one
    min_gap: u32,
    /// non-zero: this release belongs to the closing of a modifier group with several modifiers;
    /// the guide does not say in which order a group's modifiers are released, so the releases of
    /// one block may come in any order (still one per millisecond)
    block: u32,
    /// number of steps of the body that were left out of this list directly in front of this step
    /// (custom items, keys judged separately); each of them still takes one tick of the macro
    skipped: u32,
}

struct Expansion {
    steps: Vec<XStep>,
    trailing_delay: u32,
    total_delay: u32,
}

/// Independent expander: what the body spells out, written from the configuration guide.
fn expand(items: &[Item]) -> Expansion {
    fn go(items: &[Item], out: &mut Vec<XStep>, pending: &mut u32, total: &mut u32, blocks: &mut u32) {
        let push = |out: &mut Vec<XStep>, pending: &mut u32, kind: SK, name: &str| {
            let name = if kind == SK::U { name.to_string() } else { code_name(osc(name)) };
            out.push(XStep { kind, name, min_gap: *pending, block: 0, skipped: 0 });
            *pending = 0;
        };
        for it in items {
            match it {
                Item::Key(k) => {
                    push(out, pending, SK::P, k);
                    push(out, pending, SK::R, k);
                }
                Item::Delay(d) => {
                    *pending += *d;
                    *total += *d;
                }
                Item::Chord(ms, k) => {
                    for m in ms {
                        push(out, pending, SK::P, m);
                    }
                    push(out, pending, SK::P, k);
                    push(out, pending, SK::R, k);
                    for m in ms.iter().rev() {
                        push(out, pending, SK::R, m);
                    }
                }
                Item::Group(ms, inner, _) => {
                    for m in ms {
                        push(out, pending, SK::P, m);
                    }
                    go(inner, out, pending, total, blocks);
                    let first = out.len();
                    for m in ms.iter().rev() {
                        push(out, pending, SK::R, m);
                    }
                    if ms.len() > 1 {
                        *blocks += 1;
                        for s in out[first..].iter_mut() {
                            s.block = *blocks;
                        }
                    }
                }
                Item::List(inner) => go(inner, out, pending, total, blocks),
                Item::Uni(c) => push(out, pending, SK::U, &c.to_string()),
                Item::Btn(i) => push(out, pending, SK::U, &format!("btn:{}", BTNS[*i].1)),
                Item::Vk(i) => push(out, pending, SK::U, &format!("vk:{}", code_name(osc(VKS[*i].1)))),
            }
        }
    }
    let mut steps = vec![];
    let mut pending = 0;
    let mut total = 0;
    let mut blocks = 0;
    go(items, &mut steps, &mut pending, &mut total, &mut blocks);
    Expansion { steps, trailing_delay: pending, total_delay: total }
}

struct BodyGen<'a> {
    rng: &'a mut Rng,
    letters: Vec<String>,
    mods: Vec<String>,
    held: Vec<String>,
    uni: Option<char>,
    uni_used: bool,
    budget: i32,
    delays: &'static [u32],
    /// further custom items still to be placed (in this order); every one but the first placed is
    /// preceded by a delay of 5
    customs: Vec<Item>,
    customs_placed: usize,
    /// chance (percent) that the next item is one of `customs`
    custom_pct: usize,
}

impl<'a> BodyGen<'a> {
    fn free_mods(&mut self, max: usize) -> Vec<String> {
        let mut free: Vec<String> = self.mods.iter().filter(|m| !self.held.contains(m)).cloned().collect();
        self.rng.shuffle(&mut free);
        let n = (1 + self.rng.usize(max)).min(free.len());
        free.truncate(n);
        free
    }
    fn items(&mut self, depth: u32, n: usize) -> Vec<Item> {
        let mut v = vec![];
        for _ in 0..n {
            if self.budget <= 0 {
                break;
            }
            let roll = self.rng.usize(100);
            if !self.customs.is_empty() && self.rng.usize(100) < self.custom_pct {
                if self.customs_placed > 0 {
                    v.push(Item::Delay(5));
                }
                self.customs_placed += 1;
                self.budget -= 1;
                v.push(self.customs.remove(0));
                continue;
            }
            let item = if roll < 34 || depth >= 3 && roll < 55 {
                self.budget -= 2;
                if self.rng.chance(1, 10) && !self.mods.is_empty() {
                    // a modifier tapped as a plain key (only if not held by an enclosing group)
                    let f = self.free_mods(1);
                    match f.first() {
                        Some(m) => Item::Key(m.clone()),
                        None => Item::Key(self.rng.pick(&self.letters).clone()),
                    }
                } else {
                    Item::Key(self.rng.pick(&self.letters).clone())
                }
            } else if roll < 55 {
                Item::Delay(*self.rng.pick(self.delays))
            } else if roll < 70 {
                let ms = self.free_mods(2);
                if ms.is_empty() {
                    Item::Key(self.rng.pick(&self.letters).clone())
                } else {
                    self.budget -= 2 + 2 * ms.len() as i32;
                    Item::Chord(ms, self.rng.pick(&self.letters).clone())
                }
            } else if roll < 84 {
                let ms = self.free_mods(2);
                if ms.is_empty() {
                    Item::Delay(*self.rng.pick(self.delays))
                } else {
                    self.budget -= 2 * ms.len() as i32;
                    self.held.extend(ms.iter().cloned());
                    let n_in = 1 + self.rng.usize(4);
                    let mut inner = self.items(depth + 1, n_in);
                    if inner.is_empty() {
                        inner.push(Item::Key(self.rng.pick(&self.letters).clone()));
                    }
                    for _ in 0..ms.len() {
                        self.held.pop();
                    }
                    Item::Group(ms, inner, self.rng.chance(1, 8))
                }
            } else if roll < 93 {
                let n_in = 1 + self.rng.usize(3);
                let inner = self.items(depth + 1, n_in);
                if inner.is_empty() {
                    Item::Delay(1)
                } else {
                    Item::List(inner)
                }
            } else if let (Some(c), false) = (self.uni, self.uni_used) {
                self.uni_used = true;
                self.budget -= 1;
                Item::Uni(c)
            } else {
                Item::Delay(*self.rng.pick(self.delays))
            };
            v.push(item);
        }
        v
    }
}

#[derive(Clone, Copy, Debug, PartialEq, Eq)]
struct Variant {
    name: &'static str,
    repeat: bool,
    /// releasing the key cancels
    rc: bool,
    /// pressing another key cancels
    cp: bool,
}

const VARIANTS: &[Variant] = &[
    Variant { name: "macro", repeat: false, rc: false, cp: false },
    Variant { name: "macro-repeat", repeat: true, rc: false, cp: false },
    Variant { name: "macro-release-cancel", repeat: false, rc: true, cp: false },
    Variant { name: "macro-repeat-release-cancel", repeat: true, rc: true, cp: false },
    Variant { name: "macro-cancel-on-press", repeat: false, rc: false, cp: true },
    Variant { name: "macro-repeat-cancel-on-press", repeat: true, rc: false, cp: true },
    Variant { name: "macro-release-cancel-and-cancel-on-press", repeat: false, rc: true, cp: true },
    Variant { name: "macro-repeat-release-cancel-and-cancel-on-press", repeat: true, rc: true, cp: true },
];

struct Macro {
    /// physical trigger key (config name) and its code
    trigger: &'static str,
    code: u16,
    variant: Variant,
    body: Vec<Item>,
    exp: Expansion,
    /// OS names of the macro's private alphabet
    alphabet: BTreeSet<String>,
    uni: Option<char>,
}

const TRIGGERS: &[&str] = &["1", "2", "3", "4", "5", "6", "7", "8"];
const TYPED: &[&str] = &["9", "0", "-"];
const CANCEL_KEY: &str = "=";
const LETTERS: &[&str] = &[
    "a", "b", "c", "d", "e", "f", "g", "h", "i", "j", "k", "l", "m", "n", "o", "p", "q", "r", "s", "t", "u", "v", "w", "x", "y", "z",
];
const MODS: &[&str] = &["lsft", "rsft", "lctl", "rctl", "lalt", "ralt", "lmet", "rmet"];
const UNIS: &[char] = &['λ', 'ø', 'ж', 'π'];

#[derive(Clone, Copy, Debug, PartialEq, Eq)]
enum Family {
    Single,
    Cancel,
    Repeat,
    Concurrent,
    Overflow,
    /// a plain macro started by something that is not a physical press (release of a key, virtual
    /// key tapped from outside, tap-hold / tap-dance timeout) or by a press, at some offset after a
    /// cancelling macro completed / was cut by release / was cut by a press, with typing meanwhile
    Delayed,
    /// a key that carries a custom action of its own (unicode, mouse button, virtual-key action,
    /// a cancelling macro key) is pressed at EVERY tick offset of a macro whose body contains
    /// custom items (c08_ext.rs)
    CustomMeanwhile,
    /// a physical key with the same key code as a modifier the macro holds is pressed before /
    /// during the macro and released at EVERY tick offset of the body (c08_ext.rs)
    SharedKey,
}

#[derive(Clone, Copy, Debug, PartialEq, Eq)]
enum Trig {
    OnRelease,
    FakeKeyTap,
    TapHoldTimeout,
    TapDanceTimeout,
    Press,
}
const TRIGS: [Trig; 5] = [Trig::OnRelease, Trig::FakeKeyTap, Trig::TapHoldTimeout, Trig::TapDanceTimeout, Trig::Press];
const TRIG_T: u32 = 40;

/// number of cases of the six original families; the two families of c08_ext.rs follow
fn base_cases(ctx: &Ctx) -> u64 {
    ctx.tier.sel(10_000, 300_000)
}
fn ext_cases(ctx: &Ctx) -> u64 {
    ctx.tier.sel(1_200, 24_000)
}

fn family_of(ctx: &Ctx, idx: u64) -> Family {
    if idx >= base_cases(ctx) {
        return if (idx - base_cases(ctx)) % 2 == 0 { Family::CustomMeanwhile } else { Family::SharedKey };
    }
    if idx % 20 == 2 {
        return Family::Delayed;
    }
    match idx % 10 {
        0 | 1 | 2 => Family::Single,
        3 | 4 | 5 => Family::Cancel,
        6 => Family::Repeat,
        7 | 8 => Family::Concurrent,
        _ => Family::Overflow,
    }
}

struct CaseCfg {
    family: Family,
    macros: Vec<Macro>,
    text: String,
    trig: Trig,
}

fn make_cfg(ctx: &Ctx, idx: u64) -> CaseCfg {
    let family = family_of(ctx, idx);
    match family {
        Family::CustomMeanwhile => return ext::make_x(ctx, idx).cfg,
        Family::SharedKey => return ext::make_s(ctx, idx).cfg,
        _ => {}
    }
    let mut rng = Rng::for_case(ctx.seed, "C08", "cfg", idx);
    let n = match family {
        Family::Single | Family::Cancel | Family::Repeat => 1,
        Family::Delayed => 2,
        Family::CustomMeanwhile | Family::SharedKey => unreachable!(),
        Family::Concurrent => 2 + rng.usize(3),
        Family::Overflow => 5 + rng.usize(4),
    };
    let mut letters: Vec<String> = LETTERS.iter().map(|s| s.to_string()).collect();
    rng.shuffle(&mut letters);
    let mut mods: Vec<String> = MODS.iter().map(|s| s.to_string()).collect();
    rng.shuffle(&mut mods);
    let (l_per, m_per) = match n {
        1 => (6, 4),
        2..=4 => (5, 2),
        _ => (3, 2),
    };
    let mut macros = vec![];
    for i in 0..n {
        let my_letters: Vec<String> = letters.drain(..l_per).collect();
        let my_mods: Vec<String> = if mods.len() >= m_per { mods.drain(..m_per).collect() } else { vec![] };
        let variant = match family {
            Family::Single => *rng.pick(VARIANTS),
            Family::Cancel => {
                // systematic over the variants that can be cancelled
                let c: Vec<Variant> = VARIANTS.iter().copied().filter(|v| v.rc || v.cp || v.repeat).collect();
                c[((idx / 10) as usize) % c.len()]
            }
            Family::Repeat => {
                let c: Vec<Variant> = VARIANTS.iter().copied().filter(|v| v.repeat).collect();
                c[((idx / 10) as usize) % c.len()]
            }
            Family::Concurrent => {
                if rng.chance(1, 4) {
                    VARIANTS[1]
                } else {
                    VARIANTS[0]
                }
            }
            Family::Overflow => VARIANTS[0],
            Family::CustomMeanwhile | Family::SharedKey => unreachable!(),
            Family::Delayed => {
                if i == 0 {
                    // the macro whose cancellation precedes: both-cancel variants twice as often
                    let pool = [VARIANTS[6], VARIANTS[7], VARIANTS[6], VARIANTS[2], VARIANTS[4], VARIANTS[3], VARIANTS[0]];
                    pool[((idx / 20) as usize) % pool.len()]
                } else {
                    VARIANTS[0]
                }
            }
        };
        // only macro 0 carries a custom item: concurrent custom items share one delivery slot per
        // tick, which the guide documents as needing delays
        let uni = if i == 0 && family != Family::Delayed && rng.chance(1, 2) { Some(UNIS[rng.usize(UNIS.len())]) } else { None };
        let budget = match family {
            Family::Single => 4 + rng.usize(26) as i32,
            Family::Cancel => 3 + rng.usize(16) as i32,
            Family::Repeat => 2 + rng.usize(12) as i32,
            Family::Concurrent => 6 + rng.usize(16) as i32,
            Family::Overflow => 10 + rng.usize(10) as i32,
            Family::Delayed => 4 + rng.usize(10) as i32,
            Family::CustomMeanwhile | Family::SharedKey => unreachable!(),
        };
        let delays: &'static [u32] = match family {
            Family::Single => &[1, 1, 2, 3, 5, 10, 25, 60],
            Family::Overflow => &[1, 2, 3, 5, 8],
            // the cancelling macro is long (its nominal duration is the cancel-on-press window)
            Family::Delayed if i == 0 => &[20, 50, 100, 200],
            Family::Delayed => &[1, 2, 5, 12, 30],
            _ => &[1, 1, 2, 3, 5, 12],
        };
        let mut body;
        let mut tries = 0;
        loop {
            let mut g = BodyGen { rng: &mut rng, letters: my_letters.clone(), mods: my_mods.clone(), held: vec![], uni, uni_used: false, budget, delays, customs: vec![], customs_placed: 0, custom_pct: 0 };
            let n_items = 1 + g.rng.usize(7);
            body = g.items(0, n_items);
            let e = expand(&body);
            tries += 1;
            let min_steps = match family {
                Family::Overflow => 10,
                Family::Delayed => 4,
                _ => 1,
            };
            let key_steps = |e: &Expansion| e.steps.iter().filter(|s| s.kind != SK::U).count();
            if key_steps(&e) >= min_steps || tries > 20 {
                if key_steps(&e) < min_steps {
                    // pad with plain keys
                    while key_steps(&expand(&body)) < min_steps {
                        body.push(Item::Key(my_letters[body.len() % my_letters.len()].clone()));
                        body.push(Item::Delay(2));
                    }
                }
                break;
            }
        }
        if variant.repeat && uni.is_some() {
            // keep the custom item of one run away from the one of the next run
            body.push(Item::Delay(5));
        }
        let exp = expand(&body);
        let mut alphabet: BTreeSet<String> = BTreeSet::new();
        for l in my_letters.iter().chain(my_mods.iter()) {
            alphabet.insert(code_name(osc(l)));
        }
        macros.push(Macro { trigger: TRIGGERS[i], code: osc(TRIGGERS[i]), variant, body, exp, alphabet, uni });
    }
    let mut src = vec![];
    let mut lay = vec![];
    for m in &macros {
        src.push(m.trigger.to_string());
        lay.push(format!("({} {})", m.variant.name, render_items(&m.body)));
    }
    for t in TYPED.iter().chain([CANCEL_KEY].iter()) {
        src.push(t.to_string());
        lay.push(t.to_string());
    }
    let mut text = format!("(defsrc {})\n(deflayer l0\n  {}\n)\n", src.join(" "), lay.join("\n  "));
    let trig = TRIGS[((idx / 20 / 7) as usize) % TRIGS.len()];
    if family == Family::Delayed {
        // macro 1 is the plain macro under test; how it gets started depends on the trigger kind
        let plain = format!("(macro {})", render_items(&macros[1].body));
        let cell = match trig {
            Trig::OnRelease => "(on-release tap-vkey vm)".to_string(),
            Trig::FakeKeyTap => "XX".to_string(),
            Trig::TapHoldTimeout => format!("(tap-hold {TRIG_T} {TRIG_T} XX {plain})"),
            Trig::TapDanceTimeout => format!("(tap-dance {TRIG_T} ({plain} XX))"),
            Trig::Press => plain.clone(),
        };
        lay[1] = cell;
        text = format!("(defvirtualkeys vm {plain})\n(defsrc {})\n(deflayer l0\n  {}\n)\n", src.join(" "), lay.join("\n  "));
    }
    CaseCfg { family, macros, text, trig }
}

// ------------------------------------------------------------------------------------------------
// driver with history recording

struct Drv {
    sim: Sim,
    hist: Vec<Ev>,
}

impl Drv {
    fn new(cfg: &str) -> Result<Drv, String> {
        Ok(Drv { sim: Sim::new(cfg)?, hist: vec![] })
    }
    fn tick(&mut self, n: u64) {
        if n == 0 {
            return;
        }
        self.sim.ticks(n);
        if let Some(Ev::T(k)) = self.hist.last_mut() {
            *k += n as u32;
        } else {
            self.hist.push(Ev::T(n as u32));
        }
    }
    fn press(&mut self, c: u16) {
        self.sim.press(c);
        self.hist.push(Ev::P(c));
    }
    fn release(&mut self, c: u16) {
        self.sim.release(c);
        self.hist.push(Ev::R(c));
    }
    fn now(&self) -> u64 {
        self.sim.now
    }
    /// tap a virtual key the way the TCP server does
    fn fk_tap(&mut self, name: &str) {
        self.sim.fakekey(name, 't');
        self.hist.push(Ev::Fk(name.to_string(), 't'));
    }
}

#[derive(Clone, Debug)]
struct Obs {
    at: u64,
    kind: SK,
    name: String,
}

fn show_obs(o: &[Obs]) -> Vec<String> {
    o.iter()
        .map(|s| format!("{}{}@{}", match s.kind { SK::P => "↓", SK::R => "↑", SK::U => "U:" }, s.name, s.at))
        .collect()
}
fn show_exp(e: &[XStep]) -> Vec<String> {
    e.iter()
        .map(|s| format!("{}{}{}{}", if s.min_gap > 0 { format!("[{}] ", s.min_gap) } else { String::new() }, match s.kind { SK::P => "↓", SK::R => "↑", SK::U => "U:" }, s.name, if s.block != 0 { "~" } else { "" }))
        .collect()
}

/// project the OS stream (from trace index `from`) onto one macro's alphabet
fn project(sim: &Sim, from: usize, m: &Macro, with_uni: bool) -> Vec<Obs> {
    let mut v = vec![];
    for o in &sim.trace[from..] {
        if o.redundant {
            continue;
        }
        match o.kind {
            OutKind::Down if m.alphabet.contains(&o.name) => v.push(Obs { at: o.at, kind: SK::P, name: o.name.clone() }),
            OutKind::Up if m.alphabet.contains(&o.name) => v.push(Obs { at: o.at, kind: SK::R, name: o.name.clone() }),
            OutKind::Unicode if with_uni && m.uni.map(|c| c.to_string() == o.name).unwrap_or(false) => v.push(Obs { at: o.at, kind: SK::U, name: o.name.clone() }),
            _ => {}
        }
    }
    v
}

/// The best reading of an observed projection against the expected step list played cyclically.
#[derive(Clone, Debug, Default)]
struct Reading {
    /// observed steps explained as regular macro steps
    #[allow(dead_code)]
    head: usize,
    /// complete runs inside the head
    runs: usize,
    /// steps of a partial run after the complete ones
    k: usize,
    /// number of trailing observed steps explained as clean-up releases of open keys
    tail: usize,
    /// keys pressed by the head and never released (neither by a step nor by the clean-up)
    open: Vec<String>,
    /// tick of the first step of every run
    run_starts: Vec<u64>,
    /// tick of the last regular step
    last_step_at: Option<u64>,
    /// first problem that prevented a longer reading
    problem: Option<(String, String)>,
    /// observed steps that no reading explains
    unexplained: usize,
}

fn read_projection(obs: &[Obs], exp: &[XStep], trailing: u32, start_tick: u64) -> Reading {
    // greedy head: longest prefix of obs matching exp cyclically with timing rules
    // heads[j] = Some(problem) if obs[..j] is not a clean head
    let n = exp.len();
    let mut best = Reading::default();
    if n == 0 {
        best.unexplained = obs.len();
        return best;
    }
    // walk once, remembering the state after each head length
    struct St {
        open: Vec<String>,
        runs: usize,
        k: usize,
        run_starts: Vec<u64>,
        last: Option<u64>,
        /// names already released inside the current unordered block
        used: Vec<String>,
    }
    let mut states: Vec<St> = vec![St { open: vec![], runs: 0, k: 0, run_starts: vec![], last: None, used: vec![] }];
    let mut problem: Option<(String, String)> = None;
    for (j, o) in obs.iter().enumerate() {
        let prev = states.last().unwrap();
        let e = &exp[prev.k];
        let mut used = prev.used.clone();
        let matches = if e.block != 0 {
            // any not yet released modifier of this block
            let ok = o.kind == SK::R && !used.contains(&o.name) && exp.iter().any(|x| x.block == e.block && x.name == o.name);
            used.push(o.name.clone());
            if prev.k + 1 >= n || exp[prev.k + 1].block != e.block {
                used.clear();
            }
            ok
        } else {
            o.kind == e.kind && o.name == e.name
        };
        if !matches {
            problem = Some(("order".into(), format!("observed step #{j} {} where the body spells {}", show_obs(std::slice::from_ref(o))[0], show_exp(std::slice::from_ref(e))[0])));
            break;
        }
        let prev_tick = prev.last.unwrap_or(start_tick);
        if prev.last.is_some() && o.at <= prev_tick {
            problem = Some(("same-tick".into(), format!("steps #{} and #{j} of one macro in the same millisecond (tick {})", j.saturating_sub(1), o.at)));
            break;
        }
        let need = if prev.k == 0 && prev.runs > 0 { e.min_gap + trailing } else { e.min_gap };
        if o.at < prev_tick + need as u64 {
            problem = Some(("short-delay".into(), format!("step #{j} came {} ms after the previous one, the body asks for at least {}", o.at - prev_tick, need)));
            break;
        }
        let mut open = prev.open.clone();
        match o.kind {
            SK::P => open.push(o.name.clone()),
            SK::R => {
                if let Some(p) = open.iter().rposition(|x| *x == o.name) {
                    open.remove(p);
                }
            }
            SK::U => {}
        }
        let mut run_starts = prev.run_starts.clone();
        if prev.k == 0 {
            run_starts.push(o.at);
        }
        let (runs, k) = if prev.k + 1 == n { (prev.runs + 1, 0) } else { (prev.runs, prev.k + 1) };
        states.push(St { open, runs, k, run_starts, last: Some(o.at), used });
    }
    // longest head whose remainder is exactly the clean-up of its open keys
    for j in (0..states.len()).rev() {
        let st = &states[j];
        let tail = &obs[j..];
        let mut open = st.open.clone();
        let mut ok = true;
        for t in tail {
            if t.kind != SK::R || st.last.map(|l| t.at < l).unwrap_or(false) {
                ok = false;
                break;
            }
            match open.iter().position(|x| *x == t.name) {
                Some(p) => {
                    open.remove(p);
                }
                None => {
                    ok = false;
                    break;
                }
            }
        }
        if ok && (tail.is_empty() || open.is_empty()) {
            return Reading { head: j, runs: st.runs, k: st.k, tail: tail.len(), open, run_starts: st.run_starts.clone(), last_step_at: st.last, problem, unexplained: 0 };
        }
    }
    // nothing explains the remainder: report the greedy head and its problem
    let st = states.last().unwrap();
    Reading { head: states.len() - 1, runs: st.runs, k: st.k, tail: 0, open: st.open.clone(), run_starts: st.run_starts.clone(), last_step_at: st.last, problem, unexplained: obs.len() - (states.len() - 1) }
}

fn strip_uni(e: &[XStep]) -> Vec<XStep> {
    // a removed custom step hands its delay to the next step
    let mut v: Vec<XStep> = vec![];
    let mut carry = 0;
    let mut skipped = 0;
    for s in e {
        if s.kind == SK::U {
            carry += s.min_gap;
            skipped += 1;
        } else {
            let mut s = s.clone();
            s.min_gap += carry;
            s.skipped += skipped;
            carry = 0;
            skipped = 0;
            v.push(s);
        }
    }
    v
}

fn run_bound(m: &Macro) -> u64 {
    2 * (m.exp.steps.len() as u64 + m.exp.total_delay as u64) + 60
}

struct Judge<'a> {
    out: &'a mut CaseOut,
    cfg: &'a CaseCfg,
    scenario: String,
}

impl<'a> Judge<'a> {
    fn witness(&self, d: &Drv, m: &Macro, obs: &[Obs], exp: &[XStep], extra: Value) -> Value {
        json!({
            "config": self.cfg.text,
            "scenario": self.scenario,
            "history": render_hist(&d.hist),
            "macro_key": m.trigger,
            "variant": m.variant.name,
            "observed": show_obs(obs),
            "expected": show_exp(exp),
            "os_model_at_end": d.sim.os.describe(),
            "extra": extra,
        })
    }
}

/// What a scenario allows for one macro.
struct Expect {
    /// exact number of complete runs (None: any number >= min_runs)
    runs_exact: Option<usize>,
    min_runs: usize,
    /// a cut (prefix of a run followed by the release of everything open) is legitimate
    cut_ok: bool,
    /// tick the cancelling event arrived at (for the "stops after cancellation" check)
    cancel_at: Option<u64>,
    /// tick the trigger was released at (repeat variants: no run may start later)
    released_at: Option<u64>,
    /// judged with the custom item
    with_uni: bool,
}

const SLACK: u64 = 3;

/// Judge one macro's projection. Returns a short class of what was seen ("full", "cut", "evicted"…).
#[allow(clippy::too_many_arguments)]
fn judge_macro(j: &mut Judge, d: &Drv, from: usize, start_tick: u64, m: &Macro, ex: &Expect, evict_ok: bool) -> &'static str {
    // the cancelling variants put a custom action on the trigger key itself; its press/release
    // shares the one-custom-event-per-tick slot with the body's custom item (the documented "may
    // need delays" limitation), so the custom item is only judged for macro / macro-repeat
    let with_uni = ex.with_uni && !m.variant.rc && !m.variant.cp;
    let exp_steps: Vec<XStep> = if with_uni { m.exp.steps.clone() } else { strip_uni(&m.exp.steps) };
    let obs = project(&d.sim, from, m, with_uni);
    let r = read_projection(&obs, &exp_steps, m.exp.trailing_delay, start_tick);
    j.out.count("steps_observed", obs.len() as u64);
    let stuck: Vec<String> = d.sim.os.keys_down.iter().filter(|k| m.alphabet.contains(*k)).cloned().collect();
    let extra = json!({"runs": r.runs, "partial_steps": r.k, "cleanup_releases": r.tail, "still_down": stuck, "cancel_at": ex.cancel_at, "released_at": ex.released_at});
    let problem_or = |class: &str, what: String| -> (String, String) {
        match &r.problem {
            Some((c, w)) => (c.clone(), w.clone()),
            None => (class.to_string(), what),
        }
    };
    if r.unexplained > 0 && evict_ok && with_uni {
        // An evicted macro's custom item may never be delivered while its keys are released at
        // once: read the key steps alone; a clean cut with clean-up is then the eviction class.
        let exp2 = strip_uni(&m.exp.steps);
        let obs2 = project(&d.sim, from, m, false);
        let r2 = read_projection(&obs2, &exp2, m.exp.trailing_delay, start_tick);
        if r2.unexplained == 0 && (r2.k > 0 || r2.tail > 0 || r2.runs == 0) && r2.open.is_empty() {
            j.out.inc("evicted_macros");
            j.out.violate(
                "C08:evicted:concurrent-macros>4",
                format!("a macro that was running when a 5th one started stopped after {} of {} key steps; its keys were released", r2.k, exp2.len()),
                j.witness(d, m, &obs2, &exp2, extra.clone()),
            );
            return "evicted";
        }
    }
    if r.unexplained > 0 {
        let (class, what) = problem_or("order", "projection does not follow the body".into());
        j.out.violate(format!("C08:{class}"), format!("{}: {what}", m.variant.name), j.witness(d, m, &obs, &exp_steps, extra));
        return "bad";
    }
    // here: obs = head (r.runs complete runs + r.k steps) ++ tail (clean-up releases of all open keys)
    let is_cut = r.k > 0 || r.tail > 0;
    if evict_ok && !ex.cut_ok && (r.k > 0 || r.tail > 0 || r.runs == 0) {
        // cut short while more than 4 macros were running: the documented limit of four
        // simultaneous macros (known finding). Its keys must nevertheless be released.
        j.out.inc("evicted_macros");
        if r.tail == 0 && !r.open.is_empty() {
            j.out.violate(
                "C08:evicted:keys-left-down",
                format!("a macro that was running when a 5th one started stopped after {} of {} steps and left [{}] down", r.k, exp_steps.len(), r.open.join(",")),
                j.witness(d, m, &obs, &exp_steps, extra),
            );
            return "bad";
        }
        j.out.violate(
            "C08:evicted:concurrent-macros>4",
            format!("a macro that was running when a 5th one started stopped after {} of {} steps; its keys were released", r.k, exp_steps.len()),
            j.witness(d, m, &obs, &exp_steps, extra),
        );
        return "evicted";
    }
    if is_cut && !ex.cut_ok {
        let (class, what) = if r.tail > 0 {
            // a partial run followed by the clean-up of a cancellation nobody asked for
            ("cancelled-without-cause".to_string(), format!("the macro was cut after {} of {} steps and its keys were released, although nothing that cancels it happened", r.k, exp_steps.len()))
        } else if r.tail == 0 && !r.open.is_empty() {
            problem_or("stuck-key", format!("the macro stopped after {} of {} steps and left {} down", r.k, exp_steps.len(), r.open.join(",")))
        } else {
            problem_or("incomplete", format!("only {} of {} steps of a run were played although nothing cancelled it", r.k, exp_steps.len()))
        };
        j.out.violate(format!("C08:{class}"), format!("{}: {what}", m.variant.name), j.witness(d, m, &obs, &exp_steps, extra));
        return "bad";
    }
    if is_cut && r.tail == 0 && !r.open.is_empty() {
        j.out.violate("C08:not-released-after-cancel", format!("{}: cancelled after {} of {} steps but {} stayed down", m.variant.name, r.k, exp_steps.len(), r.open.join(",")), j.witness(d, m, &obs, &exp_steps, extra));
        return "bad";
    }
    if !stuck.is_empty() {
        j.out.violate("C08:stuck-key", format!("{}: {} still down at the end", m.variant.name, stuck.join(",")), j.witness(d, m, &obs, &exp_steps, extra));
        return "bad";
    }
    if is_cut {
        if let (Some(c), Some(l)) = (ex.cancel_at, r.last_step_at) {
            if l > c + SLACK {
                j.out.violate("C08:continued-after-cancel", format!("{}: a regular step at tick {l}, cancellation arrived at tick {c}", m.variant.name), j.witness(d, m, &obs, &exp_steps, extra));
                return "bad";
            }
        }
    }
    match ex.runs_exact {
        Some(n) => {
            let ok = if is_cut { r.runs < n } else { r.runs == n || (ex.cut_ok && r.runs < n) };
            if !ok {
                j.out.violate(if r.runs + (is_cut as usize) > n { "C08:extra-run" } else { "C08:incomplete" }, format!("{}: {} complete runs{} observed, {} expected", m.variant.name, r.runs, if is_cut { " and a partial one" } else { "" }, n), j.witness(d, m, &obs, &exp_steps, extra));
                return "bad";
            }
        }
        None => {
            if r.runs + (is_cut as usize) < ex.min_runs {
                j.out.violate("C08:incomplete", format!("{}: {} runs observed, at least {} expected", m.variant.name, r.runs, ex.min_runs), j.witness(d, m, &obs, &exp_steps, extra));
                return "bad";
            }
        }
    }
    if let Some(rel) = ex.released_at {
        // a run may start only while the key is held
        // (steps in front of the first one that are left out of this projection still take one tick each)
        let lead = exp_steps.first().map(|e| (e.min_gap + e.skipped) as u64).unwrap_or(0);
        for (i, s) in r.run_starts.iter().enumerate() {
            // a run is started `lead` ms (its leading delay) before its first step shows
            if i > 0 && *s > rel + SLACK + lead {
                j.out.violate("C08:restart-after-release", format!("{}: run #{} started at tick {s}, the key was released at tick {rel}", m.variant.name, i + 1), j.witness(d, m, &obs, &exp_steps, extra));
                return "bad";
            }
        }
        j.out.count("repeat_runs", r.runs as u64);
    }
    if is_cut {
        "cut"
    } else {
        "full"
    }
}

/// number of regular key steps of `m` seen since trace index `from`
fn steps_seen(sim: &Sim, from: usize, m: &Macro) -> usize {
    sim.trace[from..].iter().filter(|o| !o.redundant && matches!(o.kind, OutKind::Down | OutKind::Up) && m.alphabet.contains(&o.name)).count()
}

fn quiesce(d: &mut Drv, bound: u64) -> bool {
    // run until no macro is active and nothing was output for 12 ticks
    let t0 = d.now();
    let mut quiet = 0;
    while d.now() - t0 < bound {
        let n = d.sim.trace.len();
        d.tick(1);
        if d.sim.trace.len() > n || !d.sim.k.layout.b().active_sequences.is_empty() {
            quiet = 0;
        } else {
            quiet += 1;
        }
        if quiet >= 12 {
            return true;
        }
    }
    false
}

fn shape_tag(m: &Macro) -> String {
    fn sh(items: &[Item], s: &mut String) {
        for it in items {
            match it {
                Item::Key(_) => s.push('k'),
                Item::Delay(_) => s.push('d'),
                Item::Chord(ms, _) => s.push_str(&format!("c{}", ms.len())),
                Item::Group(ms, inner, sp) => {
                    s.push_str(&format!("g{}{}(", ms.len(), if *sp { "s" } else { "" }));
                    sh(inner, s);
                    s.push(')');
                }
                Item::List(inner) => {
                    s.push('(');
                    sh(inner, s);
                    s.push(')');
                }
                Item::Uni(_) => s.push('u'),
                Item::Btn(_) => s.push('b'),
                Item::Vk(_) => s.push('v'),
            }
        }
    }
    let mut s = String::new();
    sh(&m.body, &mut s);
    s
}

// ------------------------------------------------------------------------------------------------
// scenario families

fn typed_codes() -> Vec<u16> {
    TYPED.iter().map(|t| osc(t)).collect()
}

/// press the trigger, optionally type unrelated keys meanwhile, hold or tap, let it finish; `times` activations
fn scenario_single(out: &mut CaseOut, cfg: &CaseCfg, rng: &mut Rng, label: &str) {
    let m = &cfg.macros[0];
    let Ok(mut d) = Drv::new(&cfg.text) else {
        out.inc("configs_rejected");
        return;
    };
    let v = m.variant;
    let typing = !v.cp && rng.coin();
    let hold_through = v.rc || rng.coin();
    let times = if v.repeat { 1 } else { 1 + rng.usize(2) };
    let typed = typed_codes();
    let from = d.sim.trace.len();
    let start = d.now();
    let mut released_at = None;
    let mut typed_down: Vec<u16> = vec![];
    for _ in 0..times {
        d.press(m.code);
        let bound = run_bound(m);
        if !hold_through {
            d.tick(rng.below(3));
            d.release(m.code);
            released_at = Some(d.now());
        }
        // let the run play, typing meanwhile
        let t0 = d.now();
        loop {
            d.tick(1);
            if typing && rng.chance(1, 3) {
                if !typed_down.is_empty() && rng.coin() {
                    let i = rng.usize(typed_down.len());
                    let k = typed_down.remove(i);
                    d.release(k);
                } else {
                    let k = *rng.pick(&typed);
                    if !typed_down.contains(&k) {
                        typed_down.push(k);
                        d.press(k);
                        out.inc("typed_meanwhile");
                    }
                }
            }
            let done = d.now() - t0 >= 3 && d.sim.k.layout.b().active_sequences.is_empty();
            if v.repeat && hold_through {
                // hold for a bounded time only
                if d.now() - t0 >= bound / 2 {
                    break;
                }
            } else if done || d.now() - t0 > bound {
                break;
            }
        }
        if hold_through {
            d.release(m.code);
            released_at = Some(d.now());
        }
        for k in typed_down.drain(..) {
            d.release(k);
        }
        let q = quiesce(&mut d, bound + 40);
        if !q {
            let obs = project(&d.sim, from, m, true);
            let j = Judge { out, cfg, scenario: label.to_string() };
            let w = j.witness(&d, m, &obs, &m.exp.steps, json!({"bound": bound}));
            out.violate("C08:never-finishes", format!("{}: still running {} ticks after everything was released", v.name, bound + 40), w);
            return;
        }
    }
    let ex = if v.repeat {
        // a release-cancel repeat is cut by the release, a plain one completes its current run
        Expect { runs_exact: None, min_runs: if v.rc { 0 } else { 1 }, cut_ok: v.rc, cancel_at: if v.rc { released_at } else { None }, released_at, with_uni: !v.rc }
    } else if v.rc && !hold_through {
        unreachable!()
    } else {
        Expect { runs_exact: Some(times), min_runs: times, cut_ok: false, cancel_at: None, released_at: None, with_uni: true }
    };
    let mut j = Judge { out, cfg, scenario: format!("{label}: {} activation(s), {}{}", times, if hold_through { "held" } else { "tapped" }, if typing { ", typing meanwhile" } else { "" }) };
    let r = judge_macro(&mut j, &d, from, start, m, &ex, false);
    out.inc(&format!("single_{r}"));
    out.inc(&format!("variant_{}", v.name));
    out.tag(format!("single|{}|{}|{}|{}", v.name, shape_tag(m), hold_through, typing));
    if m.uni.is_some() {
        out.inc("bodies_with_custom_item");
    }
}

/// cancel at step index `i` (after `i` key steps were seen): by releasing the trigger or by pressing another key
fn scenario_cancel(out: &mut CaseOut, cfg: &CaseCfg, rng: &mut Rng, i: usize, by_press: bool) {
    let m = &cfg.macros[0];
    let Ok(mut d) = Drv::new(&cfg.text) else {
        out.inc("configs_rejected");
        return;
    };
    let v = m.variant;
    let x = osc(CANCEL_KEY);
    let from = d.sim.trace.len();
    let start = d.now();
    d.press(m.code);
    let bound = run_bound(m);
    if by_press {
        // the trigger is enabled while the macro is in progress: let the press be processed
        d.tick(1);
    } else if i == 0 {
        d.tick(rng.below(2));
    }
    let t0 = d.now();
    while steps_seen(&d.sim, from, m) < i && d.now() - t0 < bound {
        d.tick(1);
    }
    let cancel_at = d.now();
    let n_steps = strip_uni(&m.exp.steps).len();
    // the cancelling press is only specified while the (first) run is in progress
    let in_first_run = i < n_steps;
    let cancels = if by_press { v.cp && in_first_run } else { v.rc };
    let mut q1 = true;
    let mut trigger_released_at = cancel_at;
    if by_press {
        d.press(x);
        if v.repeat {
            // the trigger stays held: whether or not the press cancelled, keep holding for a while
            d.tick(rng.below(40));
        } else {
            q1 = quiesce(&mut d, bound + 40);
        }
        d.release(x);
        d.release(m.code);
        trigger_released_at = d.now();
    } else {
        d.release(m.code);
    }
    let q2 = quiesce(&mut d, bound + 40);
    let label = format!("cancel at step {i} by {}", if by_press { "pressing another key" } else { "releasing the key" });
    if !(q1 && q2) {
        let obs = project(&d.sim, from, m, false);
        let j = Judge { out, cfg, scenario: label.clone() };
        let w = j.witness(&d, m, &obs, &m.exp.steps, json!({"bound": bound}));
        out.violate("C08:never-finishes", format!("{}: still running long after the cancellation", v.name), w);
        return;
    }
    let ex = if cancels {
        // cut, or complete if the cancellation came too late; a repeating macro must not restart
        Expect { runs_exact: if v.repeat { None } else { Some(1) }, min_runs: 0, cut_ok: true, cancel_at: Some(cancel_at), released_at: Some(cancel_at), with_uni: false }
    } else if v.repeat {
        // releasing a plain repeating macro: the current run completes, nothing restarts.
        // (a press after the first run of a repeat-cancel-on-press macro is not specified: only the
        // invariants are judged)
        Expect { runs_exact: None, min_runs: if by_press { 0 } else { 1 }, cut_ok: by_press, cancel_at: None, released_at: Some(trigger_released_at), with_uni: false }
    } else {
        Expect { runs_exact: Some(1), min_runs: 1, cut_ok: by_press, cancel_at: None, released_at: None, with_uni: false }
    };
    let mut j = Judge { out, cfg, scenario: label };
    let r = judge_macro(&mut j, &d, from, start, m, &ex, false);
    out.inc(&format!("cancel_{r}"));
    out.inc("cancel_points");
    if cancels {
        out.inc(if by_press { "cancel_by_press" } else { "cancel_by_release" });
    } else {
        out.inc("release_of_repeat");
    }
    out.max("cancel_index", i as u64);
    out.tag(format!("cancel|{}|{}|{}|{}", v.name, by_press, i.min(20), r));
}

/// hold a repeating macro for a while, release at a random moment
fn scenario_repeat(out: &mut CaseOut, cfg: &CaseCfg, rng: &mut Rng) {
    let m = &cfg.macros[0];
    let Ok(mut d) = Drv::new(&cfg.text) else {
        out.inc("configs_rejected");
        return;
    };
    let v = m.variant;
    let from = d.sim.trace.len();
    let start = d.now();
    let one = m.exp.steps.len() as u64 + m.exp.total_delay as u64 + 2;
    let mult = 2 + rng.below(4);
    let hold = rng.range(1, one * mult);
    let typing = !v.cp && rng.coin();
    let typed = typed_codes();
    d.press(m.code);
    let mut typed_down: Vec<u16> = vec![];
    for _ in 0..hold {
        d.tick(1);
        if typing && rng.chance(1, 5) {
            if let Some(k) = typed_down.pop() {
                d.release(k);
            } else {
                let k = *rng.pick(&typed);
                typed_down.push(k);
                d.press(k);
            }
        }
    }
    d.release(m.code);
    let released_at = d.now();
    for k in typed_down.drain(..) {
        d.release(k);
    }
    let q = quiesce(&mut d, run_bound(m) + 40);
    let label = format!("repeat held for {hold} ticks{}", if typing { ", typing meanwhile" } else { "" });
    if !q {
        let obs = project(&d.sim, from, m, true);
        let j = Judge { out, cfg, scenario: label };
        let w = j.witness(&d, m, &obs, &m.exp.steps, json!({}));
        out.violate("C08:never-finishes", format!("{}: still running long after its key was released", v.name), w);
        return;
    }
    let ex = Expect { runs_exact: None, min_runs: if v.rc { 0 } else { 1 }, cut_ok: v.rc, cancel_at: if v.rc { Some(released_at) } else { None }, released_at: Some(released_at), with_uni: !v.rc };
    let mut j = Judge { out, cfg, scenario: label };
    let r = judge_macro(&mut j, &d, from, start, m, &ex, false);
    out.inc(&format!("repeat_{r}"));
    out.inc("repeat_scenarios");
    out.tag(format!("repeat|{}|{}|{}", v.name, shape_tag(m), (hold / one).min(6)));
}

/// several macros with disjoint alphabets started close together
fn scenario_concurrent(out: &mut CaseOut, cfg: &CaseCfg, rng: &mut Rng, overflow: bool) {
    let Ok(mut d) = Drv::new(&cfg.text) else {
        out.inc("configs_rejected");
        return;
    };
    let n = cfg.macros.len();
    let from = d.sim.trace.len();
    let start = d.now();
    let mut order: Vec<usize> = (0..n).collect();
    rng.shuffle(&mut order);
    let gaps: &[u64] = if overflow { &[0, 1, 1, 2, 3] } else { &[0, 1, 2, 5, 9] };
    let hold = rng.coin();
    let mut max_active = 0usize;
    let mut fifth_while_full = false;
    let trigger_codes: Vec<u16> = cfg.macros.iter().map(|m| m.code).collect();
    // tick one by one, noting whether a macro key press is about to be processed while 4 macros run
    let watch = |d: &mut Drv, n: u64, fifth: &mut bool, max_active: &mut usize| {
        for _ in 0..n {
            {
                let l = d.sim.k.layout.b();
                if l.active_sequences.len() >= 4 {
                    if let Some(kanata_keyberon::layout::Event::Press(_, c)) = l.queue.front().map(|q| q.event()) {
                        if trigger_codes.contains(&c) {
                            *fifth = true;
                        }
                    }
                }
            }
            d.tick(1);
            *max_active = (*max_active).max(d.sim.k.layout.b().active_sequences.len());
        }
    };
    for (pos, &i) in order.iter().enumerate() {
        let m = &cfg.macros[i];
        d.press(m.code);
        if !hold && !m.variant.repeat {
            // tap: release right away or a little later
            let g = rng.below(2);
            watch(&mut d, g, &mut fifth_while_full, &mut max_active);
            d.release(m.code);
        }
        if pos + 1 < n {
            let g = *rng.pick(gaps);
            watch(&mut d, g, &mut fifth_while_full, &mut max_active);
        }
    }
    let bound: u64 = cfg.macros.iter().map(run_bound).sum::<u64>();
    // repeating ones are held for a while
    let any_repeat = cfg.macros.iter().any(|m| m.variant.repeat);
    let t0 = d.now();
    let hold_for = if any_repeat { rng.range(5, bound / 2 + 6) } else { 0 };
    loop {
        watch(&mut d, 1, &mut fifth_while_full, &mut max_active);
        let idle = d.sim.k.layout.b().active_sequences.is_empty();
        if (d.now() - t0 >= hold_for && (idle || any_repeat)) || d.now() - t0 > bound {
            break;
        }
    }
    let mut released_at = vec![None; n];
    for &i in &order {
        let m = &cfg.macros[i];
        if hold || m.variant.repeat {
            d.release(m.code);
            // processed after whatever is queued in front of it
            released_at[i] = Some(d.now() + d.sim.k.layout.b().queue.len() as u64);
            d.tick(rng.below(2));
        }
    }
    let q = quiesce(&mut d, bound + 40);
    let label = format!("{} macros started in order {:?}{}", n, order.iter().map(|i| cfg.macros[*i].trigger).collect::<Vec<_>>(), if hold { ", keys held" } else { ", keys tapped" });
    out.max("concurrent_macros", max_active as u64);
    if overflow {
        out.inc("overflow_scenarios");
        if fifth_while_full {
            out.inc("fifth_started_while_4_running");
        }
    } else {
        out.inc("concurrent_scenarios");
    }
    if !q {
        let m = &cfg.macros[0];
        let obs = project(&d.sim, from, m, true);
        let j = Judge { out, cfg, scenario: label };
        let w = j.witness(&d, m, &obs, &m.exp.steps, json!({}));
        out.violate("C08:never-finishes", "macros still running long after everything was released".to_string(), w);
        return;
    }
    let mut classes = vec![];
    for (pos, &i) in order.iter().enumerate() {
        let m = &cfg.macros[i];
        // eviction can only hit a macro that was among the oldest when a 5th one started
        let evict_ok = overflow && n >= 5 && pos + 5 <= n && fifth_while_full;
        let ex = if m.variant.repeat {
            Expect { runs_exact: None, min_runs: 1, cut_ok: false, cancel_at: None, released_at: released_at[i], with_uni: true }
        } else {
            Expect { runs_exact: Some(1), min_runs: 1, cut_ok: false, cancel_at: None, released_at: None, with_uni: true }
        };
        let mut j = Judge { out, cfg, scenario: label.clone() };
        let r = judge_macro(&mut j, &d, from, start, m, &ex, evict_ok);
        out.inc(&format!("{}_{r}", if overflow { "overflow" } else { "concurrent" }));
        classes.push(r);
    }
    out.tag(format!("{}|{}|{}|{:?}", if overflow { "overflow" } else { "concurrent" }, n, max_active, classes));
}

/// several macros running, one of them release-cancel: its release cancels all of them
fn scenario_concurrent_cancel(out: &mut CaseOut, cfg: &CaseCfg, rng: &mut Rng) {
    // re-render macro 0 as release-cancel
    let n = cfg.macros.len();
    let mut src = vec![];
    let mut lay = vec![];
    for (i, m) in cfg.macros.iter().enumerate() {
        src.push(m.trigger.to_string());
        lay.push(format!("({} {})", if i == 0 { "macro-release-cancel" } else { "macro" }, render_items(&m.body)));
    }
    let text = format!("(defsrc {})\n(deflayer l0\n  {}\n)\n", src.join(" "), lay.join("\n  "));
    let Ok(mut d) = Drv::new(&text) else {
        out.inc("configs_rejected");
        return;
    };
    let cfg2 = CaseCfg { family: cfg.family, macros: vec![], text, trig: cfg.trig };
    let from = d.sim.trace.len();
    let start = d.now();
    let mut order: Vec<usize> = (0..n).collect();
    rng.shuffle(&mut order);
    for &i in &order {
        d.press(cfg.macros[i].code);
        d.tick(rng.below(4));
    }
    let total: u64 = cfg.macros.iter().map(|m| m.exp.steps.len() as u64 + m.exp.total_delay as u64).max().unwrap_or(1);
    d.tick(rng.below(total + 2));
    d.release(cfg.macros[0].code);
    // the release is processed after whatever is still queued in front of it
    let cancel_at = d.now() + d.sim.k.layout.b().queue.len() as u64;
    let bound: u64 = cfg.macros.iter().map(run_bound).sum::<u64>();
    let q1 = quiesce(&mut d, bound);
    for &i in &order {
        if i != 0 {
            d.release(cfg.macros[i].code);
        }
    }
    let q2 = quiesce(&mut d, bound);
    let label = format!("{n} macros, {} is release-cancel and released at tick {cancel_at}", cfg.macros[0].trigger);
    out.inc("concurrent_cancel_scenarios");
    if !(q1 && q2) {
        let m = &cfg.macros[0];
        let obs = project(&d.sim, from, m, false);
        let j = Judge { out, cfg: &cfg2, scenario: label };
        let w = j.witness(&d, m, &obs, &m.exp.steps, json!({}));
        out.violate("C08:never-finishes", "macros still running long after the cancellation".to_string(), w);
        return;
    }
    for &i in &order {
        let m = &cfg.macros[i];
        let ex = Expect { runs_exact: Some(1), min_runs: 0, cut_ok: true, cancel_at: Some(cancel_at), released_at: None, with_uni: false };
        let mut j = Judge { out, cfg: &cfg2, scenario: label.clone() };
        let r = judge_macro(&mut j, &d, from, start, m, &ex, false);
        out.inc(&format!("concurrent_cancel_{r}"));
    }
}

/// a plain macro started by a non-press trigger (or a press) some time after a cancelling macro
/// completed / was cut by its release / was cut by another key's press; unrelated keys are typed
/// while the plain macro runs. It must play its full expansion exactly once.
fn scenario_delayed(out: &mut CaseOut, cfg: &CaseCfg, rng: &mut Rng) {
    let a = &cfg.macros[0];
    let p = &cfg.macros[1];
    let Ok(mut d) = Drv::new(&cfg.text) else {
        out.inc("configs_rejected");
        return;
    };
    let x = osc(CANCEL_KEY);
    let typed = typed_codes();
    let dur = a.exp.steps.len() as u64 + a.exp.total_delay as u64 + 1;
    if cfg.trig == Trig::OnRelease {
        // the trigger key has to be down before anything else happens (its press must not be the
        // press that cancels / disarms)
        d.press(p.code);
        d.tick(rng.range(2, 8));
    }
    let av = a.variant;
    let mut modes = vec!["control"];
    if !av.repeat {
        modes.push("completed");
    }
    if av.rc {
        modes.push("cut-by-release");
        modes.push("cut-by-release");
    }
    if av.cp {
        modes.push("cut-by-press");
    }
    let mode = *rng.pick(&modes);
    match mode {
        "completed" => {
            d.press(a.code);
            if !av.rc && rng.coin() {
                d.tick(rng.below(3));
                d.release(a.code);
                quiesce(&mut d, run_bound(a) + 40);
            } else {
                quiesce(&mut d, run_bound(a) + 40);
                d.release(a.code);
            }
            d.tick(rng.below(20));
        }
        "cut-by-release" => {
            d.press(a.code);
            d.tick(rng.range(1, dur / 3 + 2));
            d.release(a.code);
        }
        "cut-by-press" => {
            d.press(a.code);
            d.tick(rng.range(1, dur / 3 + 2));
            d.press(x);
            d.tick(rng.range(1, 4));
            d.release(x);
            if rng.coin() {
                d.release(a.code);
            }
        }
        _ => {}
    }
    // some offset later (inside or after the cancelled macro's nominal duration) the plain macro is triggered
    d.tick(rng.range(1, dur / 2 + 4));
    let from = d.sim.trace.len();
    let start = d.now();
    match cfg.trig {
        Trig::OnRelease => d.release(p.code),
        Trig::FakeKeyTap => d.fk_tap("vm"),
        _ => d.press(p.code),
    }
    let lead = p.exp.steps.first().map(|s| s.min_gap as u64).unwrap_or(0);
    let t0 = d.now();
    while steps_seen(&d.sim, from, p) < 1 && d.now() - t0 < TRIG_T as u64 + lead + 30 {
        d.tick(1);
    }
    // unrelated typing while it runs, the first press right away
    let mut typed_down: Vec<u16> = vec![];
    let k = *rng.pick(&typed);
    typed_down.push(k);
    d.press(k);
    out.inc("typed_meanwhile");
    let bound = run_bound(p) + TRIG_T as u64;
    let t1 = d.now();
    loop {
        d.tick(1);
        if rng.chance(1, 3) {
            if !typed_down.is_empty() && rng.coin() {
                let i = rng.usize(typed_down.len());
                let k = typed_down.remove(i);
                d.release(k);
            } else {
                let k = *rng.pick(&typed);
                if !typed_down.contains(&k) {
                    typed_down.push(k);
                    d.press(k);
                    out.inc("typed_meanwhile");
                }
            }
        }
        let done = d.now() - t1 >= 3 && d.sim.k.layout.b().active_sequences.is_empty();
        if done || d.now() - t1 > bound {
            break;
        }
    }
    for k in typed_down.drain(..) {
        d.release(k);
    }
    if !matches!(cfg.trig, Trig::OnRelease | Trig::FakeKeyTap) {
        d.release(p.code);
    }
    if mode == "cut-by-press" || mode == "cut-by-release" {
        // whatever is still held of the first macro's key
        d.release(a.code);
    }
    let q = quiesce(&mut d, bound + run_bound(a) + 40);
    let label = format!("plain macro started by {:?} after the {} macro on key 1: {mode}", cfg.trig, av.name);
    if !q {
        let obs = project(&d.sim, from, p, false);
        let j = Judge { out, cfg, scenario: label };
        let w = j.witness(&d, p, &obs, &p.exp.steps, json!({}));
        out.violate("C08:never-finishes", "macros still running long after everything was released".to_string(), w);
        return;
    }
    let ex = Expect { runs_exact: Some(1), min_runs: 1, cut_ok: false, cancel_at: None, released_at: None, with_uni: false };
    let mut j = Judge { out, cfg, scenario: label };
    let r = judge_macro(&mut j, &d, from, start, p, &ex, false);
    out.inc(&format!("delayed_{r}"));
    out.inc(&format!("delayed_trigger_{:?}", cfg.trig));
    out.inc(&format!("delayed_after_{mode}"));
    // nothing of the first macro may be left down either
    let stuck: Vec<String> = d.sim.os.keys_down.iter().filter(|k| a.alphabet.contains(*k)).cloned().collect();
    if !stuck.is_empty() {
        let obs = project(&d.sim, 0, a, false);
        let j = Judge { out, cfg, scenario: format!("first macro of: plain macro started by {:?}, {mode}", cfg.trig) };
        let w = j.witness(&d, a, &obs, &a.exp.steps, json!({"still_down": stuck}));
        out.violate("C08:stuck-key", format!("{}: {} still down at the end", av.name, stuck.join(",")), w);
    }
    out.tag(format!("delayed|{:?}|{}|{mode}|{r}", cfg.trig, av.name));
}

impl Check for C08Check {
    fn id(&self) -> &'static str {
        "C08"
    }
    fn n_cases(&self, ctx: &Ctx) -> u64 {
        base_cases(ctx) + ext_cases(ctx)
    }
    fn describe(&self, ctx: &Ctx, idx: u64) -> Value {
        let c = make_cfg(ctx, idx);
        json!({"config": c.text, "family": format!("{:?}", c.family)})
    }
    fn run_case(&self, ctx: &Ctx, idx: u64) -> CaseOut {
        let mut out = CaseOut::new();
        let cfg = make_cfg(ctx, idx);
        let mut rng = Rng::for_case(ctx.seed, "C08", "hist", idx);
        if ctx.verbose {
            eprintln!("family {:?}\n{}", cfg.family, cfg.text);
            for m in &cfg.macros {
                eprintln!("  {} expands to {:?} (+{} trailing)", m.trigger, show_exp(&m.exp.steps), m.exp.trailing_delay);
            }
        }
        if Sim::new(&cfg.text).is_err() {
            out.inc("configs_rejected");
            if ctx.verbose {
                eprintln!("rejected: {:?}", Sim::new(&cfg.text).err());
            }
            return out;
        }
        out.inc("configs");
        out.count("bodies", cfg.macros.len() as u64);
        out.max("body_steps", cfg.macros.iter().map(|m| m.exp.steps.len()).max().unwrap_or(0) as u64);
        match cfg.family {
            Family::Single => {
                scenario_single(&mut out, &cfg, &mut rng, "single");
                scenario_single(&mut out, &cfg, &mut rng, "single");
            }
            Family::Cancel => {
                let v = cfg.macros[0].variant;
                let n = strip_uni(&cfg.macros[0].exp.steps).len();
                for i in 0..=n {
                    if v.rc || v.repeat {
                        scenario_cancel(&mut out, &cfg, &mut rng, i, false);
                    }
                    if v.cp {
                        scenario_cancel(&mut out, &cfg, &mut rng, i, true);
                    }
                }
            }
            Family::Repeat => {
                for _ in 0..3 {
                    scenario_repeat(&mut out, &cfg, &mut rng);
                }
            }
            Family::Concurrent => {
                scenario_concurrent(&mut out, &cfg, &mut rng, false);
                scenario_concurrent(&mut out, &cfg, &mut rng, false);
                if cfg.macros.iter().all(|m| !m.variant.repeat) {
                    scenario_concurrent_cancel(&mut out, &cfg, &mut rng);
                }
            }
            Family::Overflow => {
                scenario_concurrent(&mut out, &cfg, &mut rng, true);
                scenario_concurrent(&mut out, &cfg, &mut rng, true);
            }
            Family::Delayed => {
                for _ in 0..4 {
                    scenario_delayed(&mut out, &cfg, &mut rng);
                }
            }
            Family::CustomMeanwhile => ext::run_x(&mut out, ctx, idx, &mut rng),
            Family::SharedKey => ext::run_s(&mut out, ctx, idx, &mut rng),
        }
        if (idx % 400 < 10 && idx / 400 < 2) || (idx >= base_cases(ctx) && idx < base_cases(ctx) + 6) {
            let m = &cfg.macros[0];
            out.sample = Some(json!({"idx": idx, "family": format!("{:?}", cfg.family), "config": cfg.text, "expected_steps_of_first_macro": show_exp(&m.exp.steps)}));
        }
        out
    }
    fn rule(&self) -> String {
        "case = one configuration with 1-8 macro keys whose bodies come from the harness's own macro grammar (keys, delays, modifier groups S-(…) incl. the 'S- (…)' spelling, output chords, nested lists to depth 3, at most one (unicode x) item; every macro has a private key alphabet, a key is never pressed while the same macro already holds it) rendered in one of the 8 macro variants. Families by case index among the first 10 000 (quick) / 300 000 (thorough) cases: single (25%: 1-2 activations, held or tapped, with or without unrelated typing), cancel (30%: for EVERY step index i of the body a fresh run is cancelled after i steps - by releasing the key for release-cancel/repeat variants, by pressing another key for cancel-on-press variants), repeat (10%: held for a random time), concurrent (20%: 2-4 macros started 0-9 ms apart, plus one run where a release-cancel macro cancels all), overflow (10%: 5-8 macros started 0-3 ms apart), delayed (5%, taken from single: a plain macro is started by the release of an (on-release tap-vkey) key, by a virtual key tapped through the TCP path, by a tap-hold or tap-dance timeout, or by a press, at a random offset after a cancelling macro on another key completed / was cut by its release / was cut by another key's press, or without it; unrelated keys are typed from the plain macro's first step on; it must play its full expansion exactly once). After these cases follow two families of their own (1 200 cases in quick, 24 000 in thorough, alternating): custom-meanwhile - one macro (macro / macro-release-cancel held through / macro-repeat held for 1-2.5 runs) whose body carries 1-3 custom items (unicode character, mouse-button tap, (on-press tap-vkey v); any two separated by a delay of 5) and a second key with a custom action of its own, systematically one of: (unicode ξ), a mouse button, (on-press tap-vkey w), (on-release tap-vkey w), a macro-release-cancel key, a macro-cancel-on-press key (the last two with a private alphabet, held to the end); for EVERY offset t = 0..duration+3 a fresh run presses the second key t ms after the macro key (released 1-9 ms later); the macro's keys must read as complete runs as below, the OS events of the macro's custom items must be exactly the body's custom items once per run in the order written, the second key's own effect must appear exactly once, nothing (keys, mouse buttons) may be down at the end. shared-key - one macro (macro, macro-release-cancel, macro-cancel-on-press, macro-release-cancel-and-cancel-on-press, macro-repeat) whose body contains a modifier group around at least two keys with a delay between them; 1-2 of the modifiers it uses also exist as physical keys (lsft next to S-(…)); for EVERY offset r = 0..duration+4 a fresh run presses the physical key 1-6 ms before the macro key and releases it r ms after it, plus (not for cancel-on-press variants) 6 runs with the physical key pressed and released at random offsets inside the macro; the projection onto the macro's other keys must read as complete runs; at every key press of the macro the OS key state is inspected: a shared modifier the body holds at that step must be down, one it does not hold must be up unless its physical key may be down (from its press to 3 ms after its release); nothing down at the end. The projection of the OS stream onto each macro's alphabet must read as: complete runs of the independently expanded body, optionally one partial run followed by the release of exactly the keys it still held (only where a cancellation was issued), with strictly increasing ticks, at least the written delays, nothing regular later than 3 ticks after a cancellation, no run of a repeating macro starting later than 3 ticks after the key's release, nothing of the alphabet down at the end, finished within 2x(steps+delays)+100 ticks. Non-trivial = a scenario whose macro produced output; distinct = (family, variant, body shape, hold/tap/typing or cancel index or concurrency and outcome).".into()
    }
    fn assumptions(&self) -> Vec<String> {
        vec![
            "a macro never presses a key it already holds (nested identical modifiers are not generated: the OS stream cannot show the inner press)".into(),
            "output chords (C-S-a) must release their modifiers in reverse order; for modifier groups C-S-(…) the guide does not say in which order the group's modifiers are released at the end (the tree releases them in press order), so any order is accepted there, one release per millisecond, after the group's content".into(),
            "only one macro per configuration carries a custom item and repeating bodies with one end in a delay of 5, because the guide documents that neighbouring custom items need delays; in cancelled runs the custom item is not judged".into(),
            "keys typed meanwhile and the cancelling key are outside every macro alphabet (except the physical twins of the shared-key family); the same macro is not re-activated while it is still running".into(),
            "cancel-on-press is exercised while the first run is in progress (the guide: 'the trigger is enabled while the macro is in progress'); the cancelling press is sent at least 1 ms after the macro key".into(),
            "custom-meanwhile family: kanata reports one custom event per tick, so a custom item of the macro can come out one tick late when another key's custom action takes the slot (the guide: such items 'may need short delays'); the exact tick of a custom item relative to the neighbouring key steps is therefore not judged there, only that every custom item appears, once per run, in the order written, and that the keys follow all rules. Macro variants that a press cancels are not used as the running macro in that family (the second key's press would cancel them), and cut runs of macros with mouse-button / virtual-key items are not generated".into(),
            "shared-key family: the macro's own presses and releases of a modifier whose physical twin is down cannot show in the OS stream (the key is already down), so they are not matched as events; what is required is the OS key state at the macro's key presses. Only modifiers are shared (a letter the macro merely taps has no hold to judge). The physical key is taken as possibly down from the tick of its press to 3 ticks after its release".into(),
            "more than 4 concurrent macros: the documented limit evicts the oldest running macro; that is reported under its own known-finding signature, any other deviation in those scenarios stays live".into(),
        ]
    }
    fn floors(&self, ctx: &Ctx) -> Vec<(&'static str, u64)> {
        let s = ctx.tier.sel(1, 20);
        vec![
            ("bodies", 10_000 * s),
            ("single_full", 2_500 * s),
            ("cancel_points", 20_000 * s),
            ("cancel_cut", 10_000 * s),
            ("cancel_by_press", 7_000 * s),
            ("cancel_by_release", 8_000 * s),
            ("release_of_repeat", 4_000 * s),
            ("repeat_runs", 20_000 * s),
            ("concurrent_full", 5_000 * s),
            ("concurrent_cancel_cut", 300 * s),
            ("overflow_full", 3_000 * s),
            ("fifth_started_while_4_running", 1_000 * s),
            ("bodies_with_custom_item", 1_500 * s),
            ("typed_meanwhile", 5_000 * s),
            ("delayed_full", 1_500 * s),
            ("delayed_trigger_OnRelease", 250 * s),
            ("delayed_trigger_FakeKeyTap", 250 * s),
            ("delayed_trigger_TapHoldTimeout", 250 * s),
            ("delayed_trigger_TapDanceTimeout", 250 * s),
            ("delayed_after_cut-by-release", 300 * s),
            ("delayed_after_cut-by-press", 150 * s),
            ("delayed_after_completed", 150 * s),
            // custom-meanwhile family
            ("xcustom_scenarios", 8_000 * s),
            ("xcustom_items_seen_once", 20_000 * s),
            ("xcustom_typed_seen_once", 8_000 * s),
            ("xcustom_typed_within_1ms_of_macro_item", 2_500 * s),
            ("xcustom_typed_Unicode", 1_000 * s),
            ("xcustom_typed_Mouse", 1_000 * s),
            ("xcustom_typed_VkOnPress", 1_000 * s),
            ("xcustom_typed_VkOnRelease", 1_000 * s),
            ("xcustom_typed_RcMacro", 1_000 * s),
            ("xcustom_typed_CpMacro", 1_000 * s),
            // shared-key family
            ("shared_scenarios", 15_000 * s),
            ("shared_pressed_during_macro", 1_000 * s),
            ("shared_held_presses_judged", 120_000 * s),
            ("shared_unheld_presses_judged", 30_000 * s),
            ("shared_held_presses_after_physical_release", 50_000 * s),
        ]
    }
}
