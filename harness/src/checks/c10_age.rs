//! C10 end-to-end, systematic "very old history entry" family (seed-independent).
//!
//! The ages of the key history are u16 tick counters. "Typed at least that long ago" must stay
//! true however long ago it was: an entry that is A ticks old compares as min(A, 65535). This family
//! drives a real Kanata through the stepper with real ticks until the entry a `key-timing` leaf
//! refers to is A ticks old, for A around every place where a 16-bit (or 15-bit) counter could go
//! wrong and far beyond, with thresholds on both sides of A mod 65536, for both comparisons, for
//! every recency 1..=8, with the newer entries typed before or after the long gap, and judges the
//! witnesses with the same model as the random end-to-end part.

use super::e2e::{build_cfg, judge, universe, Fk, Scenario};
use super::model::*;
use crate::core::sim::{osc, Ev};
use crate::core::{CaseOut, Ctx};
use serde_json::{json, Value};

/// ages (ticks between the press of the referenced key and the press of the switch key)
const AGES: &[u64] = &[
    // ordinary range (control), the 15-bit boundary, the top compression edge
    5_000, 32_767, 32_768, 32_769, 40_000, 65_407, 65_408,
    // around the end of the counter range, tick by tick
    65_530, 65_531, 65_532, 65_533, 65_534, 65_535, 65_536, 65_537, 65_538, 65_539, 65_540, 65_541, 65_542, 65_543, 65_544, 65_545,
    // one full range plus something near the small thresholds
    65_536 + 199, 65_536 + 200, 65_536 + 201, 65_536 + 1_000, 65_536 + 1_001, 65_536 + 2_303, 65_536 + 2_304,
    // far beyond, two and three ranges
    70_000, 100_000, 131_071, 131_072, 131_073, 131_072 + 150, 196_608 + 3, 200_000,
];
const AGES_THOROUGH_EXTRA: &[u64] = &[
    1_000, 16_383, 16_384, 30_000, 32_766, 49_152, 65_000, 65_406, 65_409, 65_529, 65_546, 65_536 + 5, 65_536 + 6, 65_536 + 255, 65_536 + 256,
    65_536 + 30_000, 65_536 + 30_128, 65_536 + 32_767, 65_536 + 32_768, 131_072 + 5, 131_072 + 1_000, 196_607, 196_608, 262_144 + 200, 300_000,
];

/// threshold triples
const TSETS: &[[u16; 3]] = &[[0, 200, 1_000], [5, 2_303, 30_000], [12, 65_407, 65_534], [1, 32_767, 65_535]];

/// where the n-1 newer entries are typed
#[derive(Clone, Copy, Debug, PartialEq)]
enum Lay {
    /// referenced key, long gap, then the newer keys shortly before the switch key
    NewerAfterGap,
    /// referenced key and the newer keys, then the long gap: every entry is old
    AllBeforeGap,
    /// an even older key and a first long gap precede the referenced key (NewerAfterGap otherwise)
    TwoGaps,
}

struct Params {
    rec: u8,
    lay: Lay,
    age: u64,
    tset: [u16; 3],
}

fn ages(ctx: &Ctx) -> Vec<u64> {
    let mut v = AGES.to_vec();
    if ctx.tier.sel(false, true) {
        v.extend_from_slice(AGES_THOROUGH_EXTRA);
    }
    v
}
fn lays(ctx: &Ctx) -> Vec<Lay> {
    ctx.tier.sel(vec![Lay::NewerAfterGap, Lay::AllBeforeGap], vec![Lay::NewerAfterGap, Lay::AllBeforeGap, Lay::TwoGaps])
}
fn tsets(_ctx: &Ctx) -> usize {
    TSETS.len()
}

const PER_CASE: u64 = 8;

pub fn n_scenarios(ctx: &Ctx) -> u64 {
    8 * lays(ctx).len() as u64 * ages(ctx).len() as u64 * tsets(ctx) as u64
}
pub fn n_cases(ctx: &Ctx) -> u64 {
    (n_scenarios(ctx) + PER_CASE - 1) / PER_CASE
}

fn params(ctx: &Ctx, mut i: u64) -> Params {
    // the age varies fastest so that one case mixes cheap and expensive scenarios
    let a = ages(ctx);
    let l = lays(ctx);
    let age = a[(i % a.len() as u64) as usize];
    i /= a.len() as u64;
    let rec = (i % 8) as u8 + 1;
    i /= 8;
    let lay = l[(i % l.len() as u64) as usize];
    i /= l.len() as u64;
    Params { rec, lay, age, tset: TSETS[i as usize % TSETS.len()] }
}

// universe indices (see e2e::universe): a b c d e = 0..5
const TARGET: usize = 0;
const FILLERS: [usize; 4] = [1, 2, 3, 4];

fn scenario(p: &Params) -> Scenario {
    let u = universe();
    let n = p.rec;
    let [t1, t2, t3] = p.tset;
    let mut conds: Vec<Vec<E>> = vec![];
    for t in [t1, t2, t3] {
        conds.push(vec![E::Timing(n, true, t)]);
        conds.push(vec![E::Timing(n, false, t)]);
    }
    // the entry is still the n-th most recent one, and the input history still knows it
    conds.push(vec![E::KeyHist(TARGET, n)]);
    conds.push(vec![E::KeyHist(FILLERS[0], n)]);
    // input history: the switch key itself is the most recent input
    conds.push(vec![E::InputHist(Inp::Real(TARGET), (n + 1).min(8))]);
    // the most recent entry and the next older one
    conds.push(vec![E::Timing(1, true, t2)]);
    if n < 8 {
        conds.push(vec![E::Timing(n + 1, false, t2)]);
    }
    // inside operators
    conds.push(vec![E::And(vec![E::Timing(n, false, t1), E::Not(vec![E::Timing(n, true, t2)])])]);
    let cases: Vec<(Vec<E>, Fk, bool)> = conds.into_iter().enumerate().map(|(i, c)| (c, Fk::W(i), false)).collect();
    let fork = Fk::Fork(Box::new(Fk::W(20)), Box::new(Fk::W(21)), vec![1]);
    let cfg = build_cfg(&u, &cases, &fork);

    let code = |i: usize| u.keys[i].1;
    let tap = |pre: &mut Vec<Ev>, i: usize| {
        pre.push(Ev::P(code(i)));
        pre.push(Ev::T(2));
        pre.push(Ev::R(code(i)));
        pre.push(Ev::T(3));
    };
    let mut pre = vec![];
    if p.lay == Lay::TwoGaps {
        // an entry that went past the end of the range long before the referenced key is typed
        tap(&mut pre, FILLERS[3]);
        pre.push(Ev::T(66_000));
    }
    tap(&mut pre, TARGET); // 5 ticks
    let newer = (n - 1) as u64;
    // ticks between the press of the referenced key and the press of the switch key:
    // 5 (its own tap) + 5 per newer tap + 1 (last gap) + long gap
    let fixed = 5 + 5 * newer + 1;
    let gap = p.age.saturating_sub(fixed).max(1);
    if p.lay == Lay::AllBeforeGap {
        for j in 0..newer {
            tap(&mut pre, FILLERS[j as usize % 4]);
        }
        pre.push(Ev::T(gap as u32));
    } else {
        pre.push(Ev::T(gap as u32));
        for j in 0..newer {
            tap(&mut pre, FILLERS[j as usize % 4]);
        }
    }
    pre.push(Ev::T(1));
    let _ = osc;
    Scenario { cfg, u, cases, fork, pre, final_is_fork: false, class: format!("age-sys:{:?}:rec{}:tset{}", p.lay, n, t1) }
}

pub fn describe(ctx: &Ctx, idx: u64) -> Value {
    let total = n_scenarios(ctx);
    let first = idx * PER_CASE;
    let v: Vec<Value> = (first..(first + PER_CASE).min(total))
        .map(|i| {
            let p = params(ctx, i);
            let sc = scenario(&p);
            json!({"config": sc.cfg, "history": crate::core::sim::render_hist(&sc.pre), "final_key": "s"})
        })
        .collect();
    json!({"part": "e2e systematic old-history-entry family", "scenarios": v})
}

pub fn run(out: &mut CaseOut, ctx: &Ctx, idx: u64) {
    let total = n_scenarios(ctx);
    let first = idx * PER_CASE;
    for i in first..(first + PER_CASE).min(total) {
        let p = params(ctx, i);
        let sc = scenario(&p);
        out.inc("e2e_age_systematic_scenarios");
        if p.age >= 65_536 {
            out.inc(match p.lay {
                Lay::NewerAfterGap => "e2e_age_systematic_newer_entries_after_gap",
                Lay::AllBeforeGap => "e2e_age_systematic_all_entries_before_gap",
                Lay::TwoGaps => "e2e_age_systematic_two_gaps",
            });
        }
        judge(out, ctx, &sc, i == 40);
    }
}
