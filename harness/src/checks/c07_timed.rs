//! C07 part 3 — time-SENSITIVE scenarios on the real processing thread.
//!
//! "Later input is handled as if the loop had kept ticking through the gap" has a half that only
//! the real `Kanata::start_processing_loop` can violate: how the thread accounts for the time it
//! spent blocked on the channel (the wake-up timestamp, `last_tick`, the number of ticks executed
//! before / after the event that woke it). The virtual-time emulator of part 1 re-implements that
//! accounting in harness code and the real-thread cases of part 2 use configurations on which
//! extra or missing ticks are invisible, so neither can see it.
//!
//! A timed case builds one configuration around one time-dependent feature whose timeout T is
//! enormous compared with scheduling jitter (1200 .. 2000 ms) and runs 2 (quick) / 3 (thorough)
//! rounds on one real processing thread:
//!
//! ```text
//! round := [press of a plain key that stays down]   (one round in four)
//!          idle wait G = T + 500 .. T + 1000 ms      (kanata idle => the thread blocks on the channel)
//!          probe                                      (events 20 .. 60 ms apart ("short"), possibly one
//!                                                      deliberate wait of T + 600 ms ("over"))
//!          [release of the plain key]
//!          settle                                     (until kanata is idle again)
//! ```
//!
//! The expected ordered OS stream is the stepper's on the same history with the nominal waits as
//! ticks (idle waits ticked through - exactly what the property says sleeping must be equal to).
//! The scenario is only judged if the stepper gives the same stream when any single wait of a probe
//! is stretched by tol = 200 ms (a third of the smallest margin, 600 ms), when every short wait is
//! shrunk to 1 ms / every over wait by tol, and when any single / every short wait is 0 ms (two
//! events handled back to back without a tick in between: what a stall of the processing thread,
//! which the sending side cannot measure, does to a probe)
//! (so the outcome does not depend on timing within +-tol), and the run is only judged if the
//! wall-clock gaps measured between the sends stayed within tol of the nominal ones in every probe
//! (sum over the probe) and kanata was idle at the end of every idle wait. A difference is retried
//! once on a fresh thread and reported only if the second, again conclusive, run differs too.

use super::dcommon::ordered_stream;
use crate::core::rng::Rng;
use crate::core::sim::{osc, render_hist, Ev, Sim};
use crate::core::{CaseOut, Ctx};
use serde_json::{json, Value};

/// Smallest distance between a wait of a scenario and the timeout it is compared with: an "over"
/// wait is T + 600 ms, and the short waits of a probe add up to at most 8 x 60 ms < T - 600 ms.
pub const MARGIN_MS: u32 = 600;
/// A run is judged only if, in every probe, the measured waits exceeded the nominal ones by no more
/// than this in total (a third of the margin).
pub const TOL_MS: u32 = MARGIN_MS / 3;

pub fn n_timed(ctx: &Ctx) -> u64 {
    ctx.tier.sel(8, 64)
}

#[derive(Clone, Copy, PartialEq, Eq, Debug)]
pub enum W {
    /// kanata is idle: the real thread blocks; any length >= nominal is equivalent by the property
    Idle,
    /// far shorter than any timeout
    Short,
    /// deliberately longer than the timeout (by 600 ms)
    Over,
}

#[derive(Clone, Debug)]
pub enum Step {
    Wait(W, u32),
    Ev(Ev),
    /// wait until everything pending has run out (real: poll until idle; stepper: `settle_ms` ticks)
    Settle,
}

pub const FAMILIES: &[&str] = &["tap-hold", "one-shot", "tap-dance", "chords-v1", "chords-v2", "sequence", "caps-word", "timed-output"];

#[derive(Clone, Debug)]
pub struct Round {
    pub probe: &'static str,
    /// the first event after the idle wait starts a time-dependent action whose timeout is shorter
    /// than the idle wait, and the rest of the probe arrives well inside that timeout
    pub fast: bool,
    pub held_plain: bool,
    /// indices into `TimedCase::steps`: [from, to) of this round, and of its probe part
    pub from: usize,
    pub to: usize,
    pub probe_from: usize,
    pub idle_ms: u32,
}

#[derive(Clone, Debug)]
pub struct TimedCase {
    pub family: &'static str,
    pub variant: String,
    pub cfg: String,
    pub t: u32,
    pub tol: u32,
    pub settle_ms: u32,
    pub steps: Vec<Step>,
    pub rounds: Vec<Round>,
    /// which candidate this is (0 = the first one drawn was robust and sensitive)
    pub candidate: u32,
}

/// "+a" press, "-a" release, "." short wait, "~" over wait
fn script(rng: &mut Rng, s: &str, t: u32) -> Vec<Step> {
    let mut v = vec![];
    for tok in s.split_whitespace() {
        match tok {
            "." => v.push(Step::Wait(W::Short, rng.range(20, 61) as u32)),
            "~" => v.push(Step::Wait(W::Over, t + MARGIN_MS)),
            _ => {
                let (d, k) = tok.split_at(1);
                v.push(Step::Ev(if d == "+" { Ev::P(osc(k)) } else { Ev::R(osc(k)) }));
            }
        }
    }
    v
}

/// (variant name, configuration text, probes: (name, script, fast))
fn family(rng: &mut Rng, fam: &str, t: u32) -> (String, String, Vec<(&'static str, &'static str, bool)>) {
    let conc = if rng.coin() { " concurrent-tap-hold yes" } else { "" };
    let defcfg = |extra: &str| format!("(defcfg process-unmapped-keys yes{conc}{extra})\n");
    match fam {
        "tap-hold" => {
            let v = *rng.pick(&["tap-hold", "tap-hold-press", "tap-hold-release", "tap-hold-release-timeout", "tap-hold-press-timeout"]);
            let a = if v.ends_with("-timeout") { format!("({v} {t} {t} x y z)") } else { format!("({v} {t} {t} x y)") };
            (
                v.to_string(),
                format!("{}(defsrc a b f)\n(deflayer l0 {a} b f)\n", defcfg("")),
                vec![
                    ("tap", "+a . -a", true),
                    ("tap-rolled-into-plain", "+a . +b . -a . -b", true),
                    ("plain-nested-in-tap", "+a . +b . -b . -a", true),
                    ("two-taps", "+a . -a . +a . -a", true),
                    ("hold", "+a ~ -a", false),
                    ("hold-then-plain", "+a ~ +b . -b . -a", false),
                    ("plain-first", "+b . +a . -a . -b", false),
                ],
            )
        }
        "one-shot" => {
            let v = *rng.pick(&["one-shot", "one-shot-press", "one-shot-release", "one-shot-press-pcancel", "one-shot-release-pcancel"]);
            (
                v.to_string(),
                format!("{}(defsrc a b f)\n(deflayer l0 ({v} {t} lsft) b f)\n", defcfg("")),
                vec![
                    ("oneshot-then-key", "+a . -a . +b . -b", true),
                    ("oneshot-held-over-key", "+a . +b . -b . -a", true),
                    ("oneshot-then-two-keys", "+a . -a . +b . -b . +b . -b", true),
                    ("oneshot-expired-then-key", "+a . -a ~ +b . -b", false),
                    ("plain-first", "+b . -b . +a . -a . +b . -b", false),
                ],
            )
        }
        "tap-dance" => (
            "lazy+eager".to_string(),
            format!("{}(defsrc a b c f)\n(deflayer l0 (tap-dance {t} (x y z)) b (tap-dance-eager {t} (q w e)) f)\n", defcfg("")),
            vec![
                ("double-tap", "+a . -a . +a . -a", true),
                ("triple-tap", "+a . -a . +a . -a . +a . -a", true),
                ("tap-then-other-key", "+a . -a . +b . -b", true),
                ("eager-double-tap", "+c . -c . +c . -c", true),
                ("single-tap", "+a . -a", false),
                ("two-separate-taps", "+a . -a ~ +a . -a", false),
                ("eager-two-separate-taps", "+c . -c ~ +c . -c", false),
            ],
        ),
        "chords-v1" => (
            "defchords".to_string(),
            format!("{}(defsrc a b c f)\n(defchords cg {t} (k0) x (k1) y (k0 k1) q)\n(deflayer l0 (chord cg k0) (chord cg k1) c f)\n", defcfg("")),
            vec![
                ("chord", "+a . +b . -a . -b", true),
                ("chord-reversed", "+b . +a . -b . -a", true),
                ("single-member-tap", "+a . -a", true),
                ("member-then-plain", "+a . +c . -c . -a", true),
                ("too-slow", "+a ~ +b . -a . -b", false),
                ("plain-first", "+c . +a . +b . -c . -a . -b", false),
            ],
        ),
        "chords-v2" => (
            "defchordsv2".to_string(),
            format!(
                "(defcfg process-unmapped-keys yes concurrent-tap-hold yes)\n(defsrc a b c f)\n(deflayer l0 a b c f)\n(defchordsv2\n  (a b) x {t} all-released ()\n  (b c) y {t} first-release ())\n"
            ),
            vec![
                ("chord", "+a . +b . -a . -b", true),
                ("chord-first-release", "+c . +b . -b . -c", true),
                ("single-member-tap", "+a . -a", true),
                ("member-then-plain", "+a . +f . -f . -a", true),
                ("too-slow", "+a ~ +b . -a . -b", false),
            ],
        ),
        "sequence" => {
            let mode = *rng.pick(&["visible-backspaced", "hidden-suppressed", "hidden-delay-type"]);
            (
                mode.to_string(),
                format!(
                    "{}(defsrc s a b c f)\n(defvirtualkeys v0 (macro q) v1 (macro w 5 e))\n(deflayer l0 sldr a b c f)\n(defseq v0 (a b) v1 (b c a))\n",
                    defcfg(&format!(" sequence-timeout {t} sequence-input-mode {mode}"))
                ),
                vec![
                    ("sequence-of-two", "+s . -s . +a . -a . +b . -b", true),
                    ("sequence-of-three", "+s . -s . +b . -b . +c . -c . +a . -a", true),
                    ("no-such-sequence", "+s . -s . +a . -a . +c . -c", true),
                    ("too-slow-after-leader", "+s . -s ~ +a . -a . +b . -b", false),
                    ("too-slow-inside", "+s . -s . +a . -a ~ +b . -b", false),
                ],
            )
        }
        "caps-word" => {
            let v = *rng.pick(&["caps-word", "caps-word-toggle"]);
            (
                v.to_string(),
                format!("{}(defsrc w a b 1 f)\n(deflayer l0 ({v} {t}) a b 1 f)\n", defcfg("")),
                vec![
                    ("word", "+w . -w . +a . -a . +b . -b", true),
                    ("word-with-digit", "+w . -w . +a . -a . +1 . -1 . +b . -b", true),
                    ("expired-before-word", "+w . -w ~ +a . -a", false),
                    ("expired-inside-word", "+w . -w . +a . -a ~ +b . -b", false),
                ],
            )
        }
        _ => match rng.usize(4) {
            0 => (
                "macro".to_string(),
                format!("{}(defsrc a b f)\n(deflayer l0 (macro x {t} y) b f)\n", defcfg("")),
                vec![("key-inside-macro-delay", "+a . -a . +b . -b", true), ("key-after-macro", "+a . -a ~ +b . -b", false)],
            ),
            1 => (
                "macro-cancel-on-press".to_string(),
                format!("{}(defsrc a b f)\n(deflayer l0 (macro-cancel-on-press x {t} y) b f)\n", defcfg("")),
                vec![("press-inside-macro-delay", "+a . -a . +b . -b", true), ("press-after-macro", "+a . -a ~ +b . -b", false)],
            ),
            2 => (
                "hold-for-duration".to_string(),
                format!("{}(defsrc a b f)\n(defvirtualkeys v0 lctl)\n(deflayer l0 (hold-for-duration {t} v0) b f)\n", defcfg("")),
                vec![
                    ("key-inside-duration", "+a . -a . +b . -b", true),
                    ("retrigger-inside-duration", "+a . -a . +a . -a . +b . -b", true),
                    ("key-after-duration", "+a . -a ~ +b . -b", false),
                ],
            ),
            _ => (
                "mwheel".to_string(),
                format!("{}(defsrc a b f)\n(deflayer l0 (mwheel-up {t} 120) b f)\n", defcfg("")),
                vec![("short-wheel-press", "+a . -a", true), ("short-wheel-press-then-key", "+a . -a . +b . -b", true), ("wheel-held-over-interval", "+a ~ -a", false)],
            ),
        },
    }
}

/// One candidate scenario (pure function of seed, tier, idx and the attempt number).
fn candidate(ctx: &Ctx, idx: u64, attempt: u32) -> TimedCase {
    let mut rng = Rng::for_case(ctx.seed, "C07", &format!("timed/{attempt}"), idx);
    // systematic: every family appears in every run of 8 consecutive cases
    let fam = FAMILIES[(idx as usize) % FAMILIES.len()];
    let t = *rng.pick(&[1200u32, 1500, 2000]);
    let (variant, cfg, probes) = family(&mut rng, fam, t);
    let n_rounds = ctx.tier.sel(2, 3);
    let fast: Vec<&(&'static str, &'static str, bool)> = probes.iter().filter(|p| p.2).collect();
    let mut steps = vec![];
    let mut rounds = vec![];
    for r in 0..n_rounds {
        // the first round always has a probe whose first event starts the timed action
        let p = if r == 0 || rng.chance(1, 3) { **rng.pick(&fast) } else { *rng.pick(&probes) };
        let held_plain = rng.chance(1, 4);
        let idle_ms = t + 500 + rng.below(501) as u32;
        let from = steps.len();
        if held_plain {
            steps.push(Step::Ev(Ev::P(osc("f"))));
        }
        steps.push(Step::Wait(W::Idle, idle_ms));
        let probe_from = steps.len();
        steps.extend(script(&mut rng, p.1, t));
        if held_plain {
            steps.push(Step::Wait(W::Short, rng.range(20, 61) as u32));
            steps.push(Step::Ev(Ev::R(osc("f"))));
        }
        steps.push(Step::Settle);
        rounds.push(Round { probe: p.0, fast: p.2, held_plain, from, to: steps.len(), probe_from, idle_ms });
    }
    TimedCase { family: fam, variant, cfg, t, tol: TOL_MS, settle_ms: 2 * t + 1500, steps, rounds, candidate: attempt }
}

/// The scenario of case `idx` with what the stepper expects. Candidates are drawn until one is
/// robust against the timing variations *and* can tell a loop that accounts for the blocked time
/// correctly from one that does not (the stepper's stream changes when the ticks of the idle waits
/// are moved behind the events that end them); after 8 candidates the first robust one is used,
/// failing that the first.
pub fn make_timed_case(ctx: &Ctx, idx: u64) -> (TimedCase, Result<Expected, String>) {
    let mut fallback: Option<(TimedCase, Result<Expected, String>)> = None;
    for attempt in 0..8 {
        let c = candidate(ctx, idx, attempt);
        let e = expected(&c);
        match &e {
            Ok(x) if x.sensitive() => return (c, e),
            Ok(_) => {
                if !matches!(fallback, Some((_, Ok(_)))) {
                    fallback = Some((c, e));
                }
            }
            Err(_) => {
                if fallback.is_none() {
                    fallback = Some((c, e));
                }
            }
        }
    }
    fallback.expect("at least one candidate")
}

/// how the waits of a history are turned into ticks for one stepper run
#[derive(Clone, Copy, PartialEq, Debug)]
enum Variation {
    Nominal,
    /// the wait at this step index lasts `tol` longer
    Stretch(usize),
    /// every short wait lasts 1 ms, every over wait `tol` less
    Shrunk,
    /// the short wait at this step index lasts 0 ms: the two events around it are handled back to
    /// back without a tick in between, as happens when the processing thread is stalled for a
    /// few tens of milliseconds (which the sending side cannot measure)
    Bunch(usize),
    /// every short wait lasts 0 ms
    BunchAll,
    /// the model of a wrong wake-up: the ticks of every idle wait come after the event that ended it
    IdleChargedToWakeEvent,
}

fn nominal_hist(c: &TimedCase, var: Variation) -> Vec<Ev> {
    let mut h = vec![];
    let mut pending_idle: Option<u32> = None;
    for (i, s) in c.steps.iter().enumerate() {
        match s {
            Step::Wait(w, ms) => {
                let mut n = *ms;
                match var {
                    Variation::Stretch(j) if j == i => n += c.tol,
                    Variation::Shrunk => match w {
                        W::Short => n = 1,
                        W::Over => n -= c.tol,
                        W::Idle => {}
                    },
                    Variation::Bunch(j) if j == i && *w == W::Short => n = 0,
                    Variation::BunchAll if *w == W::Short => n = 0,
                    _ => {}
                }
                if var == Variation::IdleChargedToWakeEvent && *w == W::Idle {
                    pending_idle = Some(n);
                    h.push(Ev::T(1));
                } else {
                    h.push(Ev::T(n));
                }
            }
            Step::Ev(e) => {
                h.push(e.clone());
                if let Some(n) = pending_idle.take() {
                    h.push(Ev::T(n));
                }
            }
            Step::Settle => h.push(Ev::T(c.settle_ms)),
        }
    }
    h
}

/// ordered OS stream of the stepper; None = configuration rejected / stepper not idle at a point
/// where the scenario assumes it (end of a settle, end of an idle wait)
fn stepper_stream(c: &TimedCase, var: Variation) -> Option<Vec<String>> {
    let mut sim = Sim::new(&c.cfg).ok()?;
    sim.keep_trace = false;
    let mut lines: Vec<String> = vec![];
    let mut ok = true;
    let h = nominal_hist(c, var);
    // positions (in h) after which kanata must be idle: the T of a settle / of an idle wait
    // (h has one element per step, except in the wrong-wake-up model, where nothing is assumed)
    let mut must_idle = vec![];
    if var != Variation::IdleChargedToWakeEvent {
        for (i, s) in c.steps.iter().enumerate() {
            if matches!(s, Step::Wait(W::Idle, _) | Step::Settle) {
                must_idle.push(i);
            }
        }
    }
    for (i, e) in h.iter().enumerate() {
        match e {
            Ev::T(n) => {
                for _ in 0..*n {
                    if sim.k.tick_ms(1, &None).is_err() {
                        return None;
                    }
                    lines.append(&mut sim.k.kbd_out.outputs.events);
                }
                sim.k.kbd_out.log = kanata_state_machine::oskbd::LogFmt::new();
            }
            other => sim.apply(other),
        }
        if must_idle.contains(&i) && !(sim.k.is_idle() && sim.k.layout.b().queue.is_empty()) {
            ok = false;
        }
    }
    lines.append(&mut sim.k.kbd_out.outputs.events);
    if !ok {
        return None;
    }
    Some(ordered_stream(&lines).0)
}

#[derive(Clone, Debug)]
pub struct Expected {
    pub stream: Vec<String>,
    /// the stream a loop would produce that executes the ticks of an idle wait after the event
    /// that ended it (only used to name the class of a difference)
    pub charged: Option<Vec<String>>,
}

impl Expected {
    /// moving the ticks of the idle waits behind the events that end them changes the stream
    pub fn sensitive(&self) -> bool {
        self.charged.as_ref().map(|s| *s != self.stream).unwrap_or(false)
    }
}

/// Err = why the scenario is not judged
pub fn expected(c: &TimedCase) -> Result<Expected, String> {
    let Some(nominal) = stepper_stream(c, Variation::Nominal) else {
        return Err("stepper rejected the configuration or was not idle where the scenario assumes it".into());
    };
    let mut vars = vec![Variation::Shrunk, Variation::BunchAll];
    for r in &c.rounds {
        for i in r.probe_from..r.to {
            if matches!(c.steps[i], Step::Wait(W::Short | W::Over, _)) {
                vars.push(Variation::Stretch(i));
            }
            if matches!(c.steps[i], Step::Wait(W::Short, _)) {
                vars.push(Variation::Bunch(i));
            }
        }
        for i in r.from..r.probe_from {
            if matches!(c.steps[i], Step::Wait(W::Idle, _)) {
                vars.push(Variation::Stretch(i));
            }
        }
    }
    for v in vars {
        match stepper_stream(c, v) {
            Some(s) if s == nominal => {}
            _ => return Err(format!("outcome is not robust against timing variation {}", format!("{v:?}").split('(').next().unwrap_or(""))),
        }
    }
    Ok(Expected { stream: nominal, charged: stepper_stream(c, Variation::IdleChargedToWakeEvent) })
}

pub enum RealRun {
    Rejected,
    Inconclusive(String),
    Done {
        stream: Vec<String>,
        /// measured wall-clock length of every wait step (ms), in step order; settles included
        measured: Vec<(usize, u64)>,
        wall_ms: u64,
        idle_blocked_ms: u64,
    },
}

/// Drive the real processing thread through the steps with real sleeps.
pub fn run_real(c: &TimedCase) -> RealRun {
    use kanata_parser::keys::OsCode;
    use kanata_state_machine::oskbd::{KeyEvent, KeyValue};
    use kanata_state_machine::Kanata;
    use std::time::{Duration, Instant};
    let k = match Kanata::new_from_str(&c.cfg, Default::default()) {
        Ok(k) => k,
        Err(_) => return RealRun::Rejected,
    };
    let arc = std::sync::Arc::new(parking_lot::Mutex::new(k));
    let (tx, rx) = std::sync::mpsc::sync_channel::<KeyEvent>(100);
    let t0 = Instant::now();
    Kanata::start_processing_loop(arc.clone(), rx, None, true);
    let mut measured = vec![];
    let mut idle_blocked_ms = 0u64;
    let mut last_send = Instant::now();
    let mut waited_since_send: Option<usize> = None;
    for (i, s) in c.steps.iter().enumerate() {
        match s {
            Step::Wait(w, ms) => {
                // (a wait directly after a settle starts when the settle ended)
                if waited_since_send.is_none() && matches!(i.checked_sub(1).map(|j| &c.steps[j]), Some(Step::Settle) | None) {
                    last_send = Instant::now();
                }
                std::thread::sleep(Duration::from_millis(*ms as u64));
                waited_since_send = Some(i);
                if *w == W::Idle {
                    let idle = {
                        let k = arc.lock();
                        k.is_idle() && k.layout.b().queue.is_empty()
                    };
                    if !idle {
                        return RealRun::Inconclusive("kanata was not idle at the end of an idle wait".into());
                    }
                    idle_blocked_ms += *ms as u64;
                }
            }
            Step::Ev(e) => {
                let (code, value) = match e {
                    Ev::P(k) => (*k, KeyValue::Press),
                    Ev::R(k) => (*k, KeyValue::Release),
                    _ => continue,
                };
                let Some(code) = OsCode::from_u16(code) else { continue };
                let now = Instant::now();
                if let Some(wi) = waited_since_send.take() {
                    measured.push((wi, now.duration_since(last_send).as_millis() as u64));
                }
                last_send = now;
                if tx.send(KeyEvent { code, value }).is_err() {
                    return RealRun::Inconclusive("processing thread closed the channel".into());
                }
            }
            Step::Settle => {
                waited_since_send = None;
                // 101 accepted wake-ups on a 100-slot channel: the loop has received (hence handled)
                // every real event sent before them; WakeUp does nothing to the layout
                for _ in 0..101 {
                    if tx.send(KeyEvent { code: OsCode::KEY_A, value: KeyValue::WakeUp }).is_err() {
                        return RealRun::Inconclusive("processing thread closed the channel".into());
                    }
                }
                let deadline = Instant::now() + Duration::from_millis(c.settle_ms as u64 + 4000);
                let mut last_len = usize::MAX;
                let mut stable = 0;
                loop {
                    std::thread::sleep(Duration::from_millis(2));
                    let (len, idle) = {
                        let k = arc.lock();
                        (k.kbd_out.outputs.events.len(), k.is_idle() && k.layout.b().queue.is_empty())
                    };
                    if len != last_len || !idle {
                        last_len = len;
                        stable = 0;
                    } else {
                        stable += 1;
                        if stable >= 5 {
                            break;
                        }
                    }
                    if Instant::now() > deadline {
                        return RealRun::Inconclusive("real loop did not settle in time".into());
                    }
                }
            }
        }
    }
    drop(tx);
    let lines = std::mem::take(&mut arc.lock().kbd_out.outputs.events);
    RealRun::Done { stream: ordered_stream(&lines).0, measured, wall_ms: t0.elapsed().as_millis() as u64, idle_blocked_ms }
}

/// None = every probe stayed within the tolerance; Some(why) otherwise
fn timing_excess(c: &TimedCase, measured: &[(usize, u64)]) -> Option<String> {
    for (ri, r) in c.rounds.iter().enumerate() {
        let mut over = 0u64;
        for (i, got) in measured.iter().filter(|(i, _)| *i >= r.probe_from && *i < r.to) {
            if let Step::Wait(_, ms) = &c.steps[*i] {
                if *got + 2 < *ms as u64 {
                    return Some(format!("round {ri}: a wait of {ms} ms lasted only {got} ms"));
                }
                over += got.saturating_sub(*ms as u64);
            }
        }
        if over > c.tol as u64 {
            return Some(format!("round {ri}: the probe's waits lasted {over} ms longer than nominal (tolerance {} ms)", c.tol));
        }
        // the idle wait may be longer (equivalent by the property) but a stall of seconds means
        // the machine is not in a state in which anything timed should be judged
        for (i, got) in measured.iter().filter(|(i, _)| *i >= r.from && *i < r.probe_from) {
            if let Step::Wait(W::Idle, ms) = &c.steps[*i] {
                if *got < *ms as u64 || *got > *ms as u64 + 3 * c.tol as u64 {
                    return Some(format!("round {ri}: the idle wait of {ms} ms lasted {got} ms"));
                }
            }
        }
    }
    None
}

pub fn render_steps(c: &TimedCase) -> String {
    let mut v = vec![];
    for s in &c.steps {
        match s {
            Step::Wait(W::Idle, ms) => v.push(format!("idle:{ms}")),
            Step::Wait(W::Short, ms) => v.push(format!("t:{ms}")),
            Step::Wait(W::Over, ms) => v.push(format!("over:{ms}")),
            Step::Ev(e) => v.push(render_hist(std::slice::from_ref(e))),
            Step::Settle => v.push("settle".into()),
        }
    }
    v.join(" ")
}

pub fn describe(ctx: &Ctx, idx: u64) -> Value {
    let (c, _) = make_timed_case(ctx, idx);
    json!({"kind": "real-loop-timed", "family": c.family, "variant": c.variant, "config": c.cfg, "timeout_ms": c.t, "tolerance_ms": c.tol,
        "steps": render_steps(&c), "rounds": c.rounds.iter().map(|r| json!({"probe": r.probe, "fast": r.fast, "held_plain": r.held_plain, "idle_ms": r.idle_ms})).collect::<Vec<_>>()})
}

pub fn run_timed_case(ctx: &Ctx, idx: u64, out: &mut CaseOut) {
    let (c, exp) = make_timed_case(ctx, idx);
    if ctx.verbose {
        eprintln!("timed real-loop case: family {} / {} (T = {} ms, tolerance {} ms)\n{}\nsteps: {}", c.family, c.variant, c.t, c.tol, c.cfg, render_steps(&c));
    }
    out.inc("timed_cases");
    let exp = match exp {
        Ok(e) => e,
        Err(why) => {
            out.inc("timed_scenarios_not_judged");
            if ctx.verbose {
                eprintln!("not judged: {why}");
            }
            out.inconclusive = Some(format!("RealLoop-timed: scenario not judged ({why})"));
            return;
        }
    };
    let mut attempts: Vec<Value> = vec![];
    let mut first_stream: Option<Vec<String>> = None;
    for attempt in 0..2 {
        let run = run_real(&c);
        // give the processing thread a moment to observe the closed channel and drop its Kanata
        std::thread::sleep(std::time::Duration::from_millis(3));
        let (stream, measured, wall_ms, idle_blocked_ms) = match run {
            RealRun::Rejected => {
                out.inc("timed_configs_rejected");
                return;
            }
            RealRun::Inconclusive(why) => {
                out.inc("timed_inconclusive");
                out.inconclusive = Some(format!("RealLoop-timed: {why}"));
                return;
            }
            RealRun::Done { stream, measured, wall_ms, idle_blocked_ms } => (stream, measured, wall_ms, idle_blocked_ms),
        };
        out.count("timed_wall_ms", wall_ms);
        if ctx.verbose {
            eprintln!("attempt {attempt}: measured waits (step index, ms): {measured:?}\n real   : {stream:?}\n stepper: {:?}", exp.stream);
        }
        if let Some(why) = timing_excess(&c, &measured) {
            out.inc("timed_inconclusive");
            out.inconclusive = Some(format!("RealLoop-timed: wall-clock gaps outside the tolerance ({})", why.split(':').next().unwrap_or("")));
            if ctx.verbose {
                eprintln!("inconclusive: {why}");
            }
            return;
        }
        if attempt == 0 {
            // evidence is counted once per case
            out.inc("timed_cases_judged");
            out.count("timed_candidates_rejected_before_this_scenario", c.candidate as u64);
            out.inc(&format!("timed_family:{}", c.family));
            out.count("timed_rounds_judged", c.rounds.len() as u64);
            out.count("timed_idle_ms_spent_blocked", idle_blocked_ms);
            out.count("timed_outputs_compared", exp.stream.len() as u64);
            out.max("timed_probe_wait_excess_ms", {
                let mut m = 0u64;
                for (i, got) in &measured {
                    if let Step::Wait(W::Short | W::Over, ms) = &c.steps[*i] {
                        m = m.max(got.saturating_sub(*ms as u64));
                    }
                }
                m
            });
            for r in &c.rounds {
                if r.fast {
                    out.inc("timed_rounds_first_event_after_blocked_gap_starts_timed_action");
                } else {
                    out.inc("timed_rounds_control_probe");
                }
                if r.held_plain {
                    out.inc("timed_rounds_blocked_with_plain_key_held");
                }
                out.tag(format!("timed|{}|{}|{}{}", c.family, c.variant, r.probe, if r.held_plain { "|held" } else { "" }));
            }
            if exp.sensitive() {
                out.inc("timed_cases_sensitive_to_wake_tick_accounting");
            }
        }
        if stream == exp.stream {
            if attempt == 1 {
                // the first difference did not repeat: scheduling, not kanata
                out.inc("timed_difference_not_reproduced");
                if let Ok(d) = std::env::var("KV_C07_DEBUG_DIR") {
                    let _ = std::fs::write(
                        format!("{d}/notrepro-{}-{idx}-{}.json", ctx.seed, std::process::id()),
                        json!({"steps": render_steps(&c), "cfg": c.cfg, "attempts": attempts, "expected": exp.stream}).to_string(),
                    );
                }
            }
            break;
        }
        attempts.push(json!({"real_loop": stream, "measured_wait_ms_by_step_index": measured}));
        if attempt == 0 {
            first_stream = Some(stream);
            continue;
        }
        if first_stream.as_ref() != Some(&stream) {
            out.inc("timed_difference_not_reproduced");
            out.inconclusive = Some("RealLoop-timed: two runs differed from the stepper in different ways".into());
            break;
        }
        let i = stream.iter().zip(exp.stream.iter()).position(|(a, b)| a != b).unwrap_or(stream.len().min(exp.stream.len()));
        let charged = exp.charged.as_ref() == Some(&stream);
        let sig = if charged { "real-loop-after-idle:idle-gap-ticks-run-after-the-wake-event" } else { "real-loop-after-idle:timed-outcome-differs" };
        out.violate(
            sig,
            format!(
                "after an idle wait longer than the timeout the real processing thread resolved a timed action differently from the stepper that ticked through the same gaps, twice, with all measured gaps within a third of the margin (first difference at output #{i}: {:?} vs {:?}){}",
                stream.get(i),
                exp.stream.get(i),
                if charged { "; the stream equals the stepper's when the ticks of every idle wait are executed after the event that ended it" } else { "" }
            ),
            json!({"config": c.cfg, "family": c.family, "variant": c.variant, "timeout_ms": c.t, "tolerance_ms": c.tol,
                "history": render_steps(&c),
                "history_convention": "idle:N = N ms of real sleep while kanata is idle (thread blocked on the channel); t:N / over:N = N ms of real sleep; settle = wait until kanata is idle; the stepper ticks N times for each and 2T+1500 times for a settle",
                "rounds": c.rounds.iter().map(|r| json!({"probe": r.probe, "first_event_starts_timed_action": r.fast, "plain_key_held_through_idle": r.held_plain, "idle_ms": r.idle_ms})).collect::<Vec<_>>(),
                "observed": {"attempts": attempts},
                "expected": {"stepper": exp.stream, "stepper_if_idle_ticks_ran_after_the_wake_event": exp.charged}}),
        );
    }
    if idx % 8 == 0 {
        out.sample = Some(describe(ctx, idx));
    }
}
