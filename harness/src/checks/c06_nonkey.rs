//! C06 part 5 — the keys that FOLLOW a one-shot are not plain key-code keys.
//!
//! "End on the first press of another key" / "on the first release of a newly pressed key" does not
//! depend on what the other key does. Physical keys a b c d: a = ONE one-shot key (lctl, output
//! chord C-lalt, layer-while-held l1), b and c = two follower keys whose action is NOT a key code:
//! a custom action (mouse button, mouse button tap, mouse wheel, mouse movement, unicode,
//! arbitrary-code, caps-word, unshift / unmod) or another non-key action of the layout
//! (layer-while-held, XX, macro, layer-switch, output chord, release-key) - 14 kinds, each kind once
//! as b and once as c next to a different kind -, d = a plain key (d, on l1: 4). The one-shot key is
//! tapped (release in the same tick; thorough also one tick later) or held to the end; then EVERY
//! sequence of 2..=K presses and releases of b, c and d follows (K = 4; thorough 5 for T=3), so each
//! kind is the first, the second and the third following key, overlapping and released in any
//! order; all four end variants. Judged
//!  (1) per tick by the one-shot reference model of parts 1 and 3, in which such a key is "another
//!      key" exactly like a plain one (press variants: the one-shot ends rapid-event-delay ticks
//!      after its press and input is paused meanwhile; release variants: at its release), on the
//!      key codes the model knows: the one-shot's own key codes and the plain key's outputs;
//!  (2) without the model, off the OS stream: what every follower press that is VISIBLE in the
//!      output (the plain key, mouse button down, wheel / movement event, unicode, arbitrary code,
//!      the key of unshift, the key of the output chord) meets: one-shot held -> its key codes are
//!      down; tapped -> the first following key meets them iff in time, press variants: no later one
//!      does, release variants: those pressed before the first release do (iff in time), none
//!      pressed after it does;
//!  (3) nothing down, active, queued or running at the end.
//! The keys a macro plays are keys of their own for a one-shot (keyberon does that on purpose); the
//! macro follower starts with a delay longer than the timeout so that only the macro KEY matters.

use super::*;
use crate::core::sim::OutKind;

#[derive(Clone, Copy, Debug, PartialEq, Eq)]
pub enum FK {
    MouseBtn,
    Wheel,
    Move,
    Unicode,
    ArbCode,
    CapsWord,
    Unmod,
    LayerHeld,
    NoOp,
    Macro,
    LayerSwitch,
    MouseTap,
    OutChord,
    ReleaseKey,
}
pub const KINDS: [FK; 14] = [FK::MouseBtn, FK::NoOp, FK::Unicode, FK::LayerHeld, FK::Wheel, FK::CapsWord, FK::ArbCode, FK::Macro, FK::Unmod, FK::LayerSwitch, FK::Move, FK::OutChord, FK::MouseTap, FK::ReleaseKey];

// pseudo key codes of the visible non-key outputs
const PS_BTN: u16 = 60_001;
const PS_CODE: u16 = 60_002;
const PS_UNI: u16 = 60_003;
const PS_SCROLL: u16 = 60_004;
const PS_MOVE: u16 = 60_005;

impl FK {
    pub fn name(self) -> &'static str {
        match self {
            FK::MouseBtn => "mouse-button",
            FK::Wheel => "mouse-wheel",
            FK::Move => "mouse-move",
            FK::Unicode => "unicode",
            FK::ArbCode => "arbitrary-code",
            FK::CapsWord => "caps-word",
            FK::Unmod => "unmod",
            FK::LayerHeld => "layer-while-held",
            FK::NoOp => "no-op",
            FK::Macro => "macro",
            FK::LayerSwitch => "layer-switch",
            FK::MouseTap => "mouse-button-tap",
            FK::OutChord => "output-chord",
            FK::ReleaseKey => "release-key",
        }
    }
    /// is the action a custom action (handled by kanata) as opposed to another non-key action of the layout
    pub fn is_custom(self) -> bool {
        !matches!(self, FK::LayerHeld | FK::NoOp | FK::Macro | FK::LayerSwitch | FK::OutChord | FK::ReleaseKey)
    }
    /// `os_is_layer`: with a one-shot of key codes the modifiers must stay observable, so the follower
    /// only touches the shift keys (unshift); with a one-shot layer it is the general unmod
    fn render(self, os_is_layer: bool, t: u16) -> String {
        // the keys a macro plays are keys of their own for a one-shot; they come after a delay
        // longer than the timeout, when the one-shot is over whatever happened
        if self == FK::Macro {
            return format!("(macro {} y)", t + 10);
        }
        (match self {
            FK::MouseBtn => "mlft",
            FK::Wheel => "(mwheel-up 5000 120)",
            FK::Move => "(movemouse-left 5000 1)",
            FK::Unicode => "(unicode é)",
            FK::ArbCode => "(arbitrary-code 700)",
            FK::CapsWord => "(caps-word 8)",
            FK::Unmod => {
                if os_is_layer {
                    "(unmod x)"
                } else {
                    "(unshift x)"
                }
            }
            FK::LayerHeld => "(layer-while-held l2)",
            FK::NoOp => "XX",
            FK::Macro => "",
            FK::LayerSwitch => "(layer-switch l0)",
            FK::MouseTap => "mrtp",
            FK::OutChord => "S-1",
            FK::ReleaseKey => "(release-key rsft)",
        })
        .to_string()
    }
    /// code under which the press of such a key shows in the output in the tick it is processed
    fn visible(self) -> Option<u16> {
        match self {
            FK::MouseBtn | FK::MouseTap => Some(PS_BTN),
            FK::Wheel => Some(PS_SCROLL),
            FK::Move => Some(PS_MOVE),
            FK::Unicode => Some(PS_UNI),
            FK::ArbCode => Some(PS_CODE),
            FK::Unmod => Some(kc("x")),
            FK::OutChord => Some(kc("1")),
            _ => None,
        }
    }
}

pub const N_OSK: usize = 3;
fn os_role(osk: usize) -> Role {
    match osk % N_OSK {
        0 => Role::OsKeys(vec!["lctl"]),
        1 => Role::OsLayer,
        _ => Role::OsKeys(vec!["lctl", "lalt"]),
    }
}

#[derive(Clone, Debug)]
pub struct Cfg5 {
    pub p: P,
    pub osk: usize,
    pub fk: [FK; 2],
    /// the pair of follower kinds is one of the first series (each kind next to its successor)
    pub first_series: bool,
}

impl Cfg5 {
    pub fn roles(&self) -> Vec<Role> {
        vec![os_role(self.osk), Role::NonKey, Role::NonKey, Role::Plain("d", "4")]
    }
    pub fn render(&self) -> String {
        let os = os_role(self.osk);
        let layer = os == Role::OsLayer;
        let mut s = String::new();
        if self.p.red != 5 {
            s.push_str(&format!("(defcfg rapid-event-delay {})\n", self.p.red));
        }
        s.push_str("(defsrc a b c d)\n");
        s.push_str(&format!("(deflayer l0 {} {} {} d)\n", render_os(self.p.end, self.p.t % 2 == 1, self.p.t, &os), self.fk[0].render(layer, self.p.t), self.fk[1].render(layer, self.p.t)));
        s.push_str("(deflayer l1 _ _ _ 4)\n(deflayer l2 _ _ _ _)\n");
        s
    }
    pub fn label(&self) -> String {
        format!("o{}:{}+{}:{}:T{}:r{}", self.osk % N_OSK, self.fk[0].name(), self.fk[1].name(), self.p.end.name(false), self.p.t, self.p.red)
    }
}

/// follower kind pairs: every kind once as key b and once as key c, next to a different kind each time
fn pairs(tier: Tier) -> Vec<([FK; 2], bool)> {
    let n = KINDS.len();
    match tier {
        Tier::Quick => (0..n).map(|i| ([KINDS[i], KINDS[(i + 1) % n]], true)).collect(),
        Tier::Thorough => (0..n).flat_map(|i| [([KINDS[i], KINDS[(i + 1) % n]], true), ([KINDS[i], KINDS[(i + 5) % n]], false)]).collect(),
    }
}

pub fn param_sets5(tier: Tier) -> Vec<Cfg5> {
    let ts: &[u16] = tier.sel(&[3, 20], &[3, 9, 80]);
    let mut v = vec![];
    for (fk, first_series) in pairs(tier) {
        for osk in 0..N_OSK {
            for end in ENDS {
                for &t in ts {
                    for red in [5u16, 0, 1] {
                        v.push(Cfg5 { p: P { shape: 9, end, t, red }, osk, fk, first_series });
                    }
                }
            }
        }
    }
    v
}

pub const PREFIX_NAMES: [&str; 3] = ["tap0", "held", "tap1"];
/// quick: one-shot tapped (release in the same tick) or held; thorough also tapped with the release a tick later
pub fn n_prefix(tier: Tier) -> u64 {
    tier.sel(2, 3)
}
pub fn n_cases5(tier: Tier) -> u64 {
    param_sets5(tier).len() as u64 * n_prefix(tier)
}
/// maximal number of follow-up events
pub fn k_max(tier: Tier, cfg: &Cfg5) -> usize {
    match tier {
        Tier::Quick => 4,
        Tier::Thorough => {
            if cfg.p.t <= 3 && cfg.first_series {
                5
            } else {
                4
            }
        }
    }
}

/// one output of a tick: key codes as they are, visible non-key outputs under a pseudo code
fn nk_outs(outs: &[crate::core::sim::Out]) -> TickOut {
    let mut v = Vec::with_capacity(outs.len());
    for o in outs {
        if o.redundant {
            continue;
        }
        match o.kind {
            OutKind::Down => v.push((true, name_code(&o.name))),
            OutKind::Up => v.push((false, name_code(&o.name))),
            OutKind::BtnDown => v.push((true, PS_BTN)),
            OutKind::BtnUp => v.push((false, PS_BTN)),
            OutKind::Code => v.push((o.name.ends_with("Press"), PS_CODE)),
            OutKind::Unicode => v.push((true, PS_UNI)),
            OutKind::Scroll => v.push((true, PS_SCROLL)),
            OutKind::Move => v.push((true, PS_MOVE)),
            _ => v.push((true, ODD)),
        }
    }
    v
}

fn fmt_code(c: u16) -> String {
    match c {
        PS_BTN => "<mouse-button>".into(),
        PS_CODE => "<arbitrary-code>".into(),
        PS_UNI => "<unicode>".into(),
        PS_SCROLL => "<wheel>".into(),
        PS_MOVE => "<mouse-move>".into(),
        ODD => "<other>".into(),
        c => code_name(c),
    }
}
fn fmt_all(t: &TickOut) -> String {
    t.iter().map(|(d, c)| format!("{}{}", if *d { "↓" } else { "↑" }, fmt_code(*c))).collect::<Vec<_>>().join(" ")
}

pub struct Lock5 {
    pub cfg: Cfg5,
    pub sim: Sim,
    pub model: Model,
    pub codes: [u16; 4],
    judged: Vec<u16>,
    /// everything written, key codes and pseudo codes: (tick, press, code)
    pub outs: Vec<OutEv>,
    pub all_trace: Vec<(u64, TickOut)>,
    pub mtrace: Vec<(u64, TickOut)>,
    t0: u64,
}

impl Lock5 {
    pub fn new(cfg: Cfg5, text: &str) -> Result<Lock5, String> {
        let sim = Sim::new(text)?;
        let roles = cfg.roles();
        let mut judged: Vec<u16> = vec![kc("d"), kc("4")];
        if let Role::OsKeys(v) = &roles[0] {
            judged.extend(v.iter().map(|k| kc(k)));
        }
        Ok(Lock5 { model: Model::with_roles(cfg.p.clone(), roles), cfg, sim, codes: [kc("a"), kc("b"), kc("c"), kc("d")], judged, outs: vec![], all_trace: vec![], mtrace: vec![], t0: 0 })
    }
    fn tick(&mut self) -> Option<Bad> {
        self.sim.tick();
        let all = nk_outs(self.sim.last());
        let m = self.model.tick();
        let t = self.sim.now - self.t0;
        for o in &all {
            self.outs.push((t, o.0, o.1));
        }
        if self.sim.last().iter().any(|o| o.repress) {
            return Some(Bad { sig: "C06:nonkey:repress".into(), what: format!("tick {t}: something that is already down was pressed again: [{}]", fmt_all(&all)) });
        }
        if all.iter().any(|o| o.1 == ODD) {
            return Some(Bad { sig: "C06:nonkey:unexpected-output".into(), what: format!("tick {t}: an output that no key of the configuration produces: [{}]", fmt_all(&all)) });
        }
        let k: TickOut = all.iter().filter(|o| self.judged.contains(&o.1)).copied().collect();
        if !all.is_empty() {
            self.all_trace.push((t, all));
        }
        if !m.is_empty() {
            self.mtrace.push((t, m.clone()));
        }
        if k != m && !no_model() {
            return Some(Bad { sig: format!("C06:nonkey:model:{}", classify(&k, &m)), what: format!("tick {t}: on the one-shot's and the plain key's key codes kanata wrote [{}], the one-shot model (a non-key follower is another key like any other) expects [{}]", fmt_tick(&k), fmt_tick(&m)) });
        }
        None
    }
    pub fn run(&mut self, h: &[Ev]) -> Option<Bad> {
        self.outs.clear();
        self.all_trace.clear();
        self.mtrace.clear();
        self.t0 = self.sim.now;
        for e in h {
            match e {
                Ev::T(n) => {
                    for _ in 0..*n {
                        if let Some(b) = self.tick() {
                            return Some(b);
                        }
                    }
                }
                Ev::P(code) | Ev::R(code) => {
                    let press = matches!(e, Ev::P(_));
                    let Some(k) = self.codes.iter().position(|x| x == code) else { continue };
                    if press {
                        self.sim.press(*code);
                    } else {
                        self.sim.release(*code);
                    }
                    self.model.push(press, k);
                    if !self.sim.last().is_empty() {
                        return Some(Bad { sig: "C06:nonkey:output-at-event".into(), what: "output while an input event was handled".into() });
                    }
                }
                _ => {}
            }
        }
        let p = &self.cfg.p;
        let bound = 3 * (p.t as u64 + 2 + p.red as u64) + 80 + 8 * h.len() as u64;
        let mut n = 0;
        while n < bound {
            if let Some(b) = self.tick() {
                return Some(b);
            }
            n += 1;
            if self.model.quiescent() && n >= 2 && self.sim.is_idle() {
                break;
            }
        }
        if !self.model.quiescent() {
            return Some(Bad { sig: "C06:harness:model-not-quiescent".into(), what: "reference model did not settle within the drain bound".into() });
        }
        let l = self.sim.k.layout.b();
        if !l.states.is_empty() || !l.oneshot.keys.is_empty() || !l.queue.is_empty() || !self.sim.os.all_up() || !self.sim.is_idle() {
            return Some(Bad { sig: "C06:nonkey:lingers".into(), what: format!("after every key was released and the timeout passed: states={:?} active one-shots={} queue={} idle={} os={}", l.states, l.oneshot.keys.len(), l.queue.len(), self.sim.is_idle(), self.sim.os.describe()) });
        }
        None
    }
}

#[derive(Default)]
pub struct Fam5 {
    pub visible_checks: u64,
    /// of those: the press showed as a non-key output (mouse button, wheel, movement, unicode, arbitrary code)
    pub visible_non_key_checks: u64,
    pub ambiguous: u64,
    /// (follower key index 1..=3, position among the follower presses 0-based, in time)
    pub first_follower: Option<(usize, bool)>,
    pub later_followers: Vec<usize>,
    /// key whose release was the first release of a follower, and whether that was within the timeout
    pub first_release_of: Option<(usize, bool)>,
}

/// oracle (2): every visible follower press against the statement, read off the OS stream
pub fn family5(cfg: &Cfg5, tapped: bool, n_prefix: usize, keys: &[usize], gaps: &[usize], gv: &[u32], outs: &[OutEv]) -> Result<Fam5, Bad> {
    let p = &cfg.p;
    let t = p.t as u64;
    let os = os_role(cfg.osk);
    let os_codes: Vec<u16> = if let Role::OsKeys(v) = &os { v.iter().map(|k| kc(k)).collect() } else { vec![] };
    let pr = proc_ticks(keys, gaps, gv);
    let x = pr[0];
    let vis_of = |k: usize| -> Option<Vec<u16>> {
        match k {
            1 | 2 => cfg.fk[k - 1].visible().map(|c| vec![c]),
            _ => Some(vec![kc("d"), kc("4")]),
        }
    };
    let all_vis: Vec<u16> = (1..=3).filter_map(vis_of).flatten().collect();
    // visible presses with what the OS held: exactly before them (stream order), at the end of the
    // previous tick and at the end of their own tick
    struct Vis {
        tick: u64,
        code: u16,
        exact: bool,
        before: bool,
        after: bool,
    }
    let mut vis: Vec<Vis> = vec![];
    {
        let all_down = |down: &[u16]| !os_codes.is_empty() && os_codes.iter().all(|c| down.contains(c));
        let mut down: Vec<u16> = vec![];
        let mut i = 0;
        while i < outs.len() {
            let tk = outs[i].0;
            let before = all_down(&down);
            let first = vis.len();
            while i < outs.len() && outs[i].0 == tk {
                let (_, d, c) = outs[i];
                if d && all_vis.contains(&c) {
                    vis.push(Vis { tick: tk, code: c, exact: all_down(&down), before, after: false });
                }
                if c < 60_000 {
                    if d {
                        if !down.contains(&c) {
                            down.push(c);
                        }
                    } else {
                        down.retain(|y| *y != c);
                    }
                }
                i += 1;
            }
            let after = all_down(&down);
            for v in &mut vis[first..] {
                v.after = after;
            }
        }
    }
    let bad = |sig: &str, what: String| Err(Bad { sig: format!("C06:nonkey:{sig}"), what });
    let mut fam = Fam5::default();
    let mut down = [false; 4];
    let mut n_vis = 0usize;
    let mut first_seen = false;
    let mut ended_by_release = false;
    for i in n_prefix..keys.len() {
        let k = keys[i];
        if k == 0 {
            continue;
        }
        if down[k] {
            down[k] = false;
            if !ended_by_release {
                fam.first_release_of = Some((k, pr[i] < x + t));
            }
            ended_by_release = true;
            continue;
        }
        down[k] = true;
        let in_time = pr[i] < x + t;
        let (expect, sig): (bool, &str) = if !tapped {
            (true, "h:held-one-shot-not-acting-as-plain-key")
        } else if !first_seen {
            (in_time, if in_time { "g:first-follower-not-modified" } else { "g:first-follower-modified-after-expiry" })
        } else if p.end.is_press() {
            (false, "g:press-variant-later-follower-modified")
        } else if ended_by_release {
            (false, "g:release-variant-press-after-first-follower-release-modified")
        } else {
            (in_time, if in_time { "g:release-variant-overlapping-follower-not-modified" } else { "g:release-variant-overlapping-follower-modified-after-expiry" })
        };
        if !first_seen {
            fam.first_follower = Some((k, in_time));
        } else {
            fam.later_followers.push(k);
        }
        first_seen = true;
        let Some(codes) = vis_of(k) else { continue };
        let Some(v) = vis.get(n_vis) else { return bad("g:follower-press-missing", format!("visible follower press #{n_vis} of the schedule (event #{i}) produced no output")) };
        if !codes.contains(&v.code) {
            return bad("g:follower-press-out-of-order", format!("visible follower press #{n_vis} of the schedule (event #{i}) should show as {}, the output has {} in tick {}", codes.iter().map(|c| fmt_code(*c)).collect::<Vec<_>>().join("/"), fmt_code(v.code), v.tick));
        }
        n_vis += 1;
        let got: Option<bool> = match &os {
            Role::OsLayer => {
                if k == 3 {
                    Some(v.code == kc("4"))
                } else {
                    None
                }
            }
            _ => {
                if v.code < 60_000 {
                    Some(v.exact)
                } else if v.before == v.after {
                    Some(v.before)
                } else {
                    fam.ambiguous += 1;
                    None
                }
            }
        };
        let Some(got) = got else { continue };
        fam.visible_checks += 1;
        if v.code >= 60_000 {
            fam.visible_non_key_checks += 1;
        }
        if got != expect {
            let who = if k == 3 { "plain".to_string() } else { cfg.fk[k - 1].name().to_string() };
            return bad(sig, format!("one-shot {} (processed in tick {x}, T={t}), event #{i} of the schedule = press of the {who} key (processed in tick {} when nothing pauses input): expected {}modified; {} written in tick {} {} the one-shot's key codes / layer", if tapped { "tapped" } else { "held" }, pr[i], if expect { "" } else { "un" }, fmt_code(v.code), v.tick, if got { "with" } else { "without" }));
        }
    }
    if vis.len() != n_vis {
        return bad("g:extra-follower-output", format!("{} visible follower presses in the schedule, {} written", n_vis, vis.len()));
    }
    Ok(fam)
}

pub struct Fresh5 {
    pub bad: Option<Bad>,
    pub observed: Vec<String>,
    pub expected: Vec<String>,
}

pub fn fresh5(cfg: &Cfg5, text: &str, h: &[Ev], tapped: bool, n_prefix: usize, keys: &[usize], gaps: &[usize], gv: &[u32]) -> Option<Fresh5> {
    let mut l = Lock5::new(cfg.clone(), text).ok()?;
    let mut bad = l.run(h);
    if bad.is_none() {
        if let Err(b) = family5(cfg, tapped, n_prefix, keys, gaps, gv, &l.outs) {
            bad = Some(b);
        }
    }
    if bad.is_some() {
        for _ in 0..(cfg.p.t as u64 + cfg.p.red as u64 + 4) {
            l.sim.tick();
            let k = nk_outs(l.sim.last());
            if !k.is_empty() {
                l.all_trace.push((l.sim.now - l.t0, k));
            }
        }
    }
    Some(Fresh5 { bad, observed: l.all_trace.iter().map(|(t, o)| format!("@{t}: {}", fmt_all(o))).collect(), expected: fmt_trace(&l.mtrace) })
}

impl C06Check {
    /// part 5: one one-shot key, two follower keys that are not key-code keys, one plain key
    pub(super) fn run_nonkey(&self, ctx: &Ctx, j: u64, out: &mut CaseOut) {
        let ps = param_sets5(ctx.tier);
        let np = n_prefix(ctx.tier);
        let cfg = ps[(j / np) as usize].clone();
        let kind = (j % np) as usize;
        let p = cfg.p.clone();
        let text = cfg.render();
        let kmax = k_max(ctx.tier, &cfg);
        let mut gv = gapvals(p.t);
        for g in [0u32, 1, 2, p.red as u32 + 1] {
            if !gv.contains(&g) {
                gv.push(g);
            }
        }
        gv.sort();
        let gi = |vals: &[u32]| -> Vec<usize> {
            let mut v: Vec<usize> = vals.iter().filter_map(|g| gv.iter().position(|x| x == g)).collect();
            v.sort();
            v.dedup();
            v
        };
        // first follow-up event: well in time, last tick in time, first tick too late (thorough: also one tick later)
        let after_os = match ctx.tier {
            Tier::Quick => gi(&[1, p.t as u32 - 1, p.t as u32]),
            Tier::Thorough => {
                if kmax > 4 {
                    gi(&[1, p.t as u32 - 1, p.t as u32])
                } else {
                    gi(&[1, p.t as u32 - 1, p.t as u32, p.t as u32 + 1])
                }
            }
        };
        let inter = gi(&[0, p.red as u32 + 1]);
        let (prefix, prefix_gaps): (Vec<usize>, Vec<Vec<usize>>) = match kind {
            0 => (vec![0, 0], vec![gi(&[0]), gi(&[0])]),
            2 => (vec![0, 0], vec![gi(&[0]), gi(&[1])]),
            _ => (vec![0], vec![gi(&[0])]),
        };
        let tapped = kind != 1;
        let mut lock = match Lock5::new(cfg.clone(), &text) {
            Ok(l) => l,
            Err(e) => {
                out.violate("C06:config-rejected", format!("one-shot configuration rejected: {}", e.lines().next().unwrap_or("")), json!({"config": text, "error": e, "history": "", "observed": "parse error", "expected": "accepted"}));
                return;
            }
        };
        let codes = lock.codes;
        let tail = p.t as u32 + 4;
        let mut bads: Vec<(Vec<Ev>, Bad, Vec<usize>, Vec<usize>)> = vec![];
        #[derive(Default)]
        struct Acc {
            schedules: u64,
            statement_checks: u64,
            visible_checks: u64,
            visible_non_key_checks: u64,
            ambiguous: u64,
            held: u64,
            ended_by_press_of: [u64; 4],
            ended_by_release_of: [u64; 4],
            ended_by_release_of_later: u64,
            later: [u64; 4],
        }
        let mut acc = Acc::default();
        let flush = |out: &mut CaseOut, m: &Model| {
            out.count("one_shot_activations", m.activations);
            out.count("ended_by_timeout", m.ends_by_timeout);
            out.count("ended_by_input", m.ends_by_input);
            out.count("nonkey_one_shots_ended_by_input", m.ends_by_input);
            out.count("nonkey_one_shots_ended_by_timeout", m.ends_by_timeout);
        };
        for k in 2..=kmax {
            let n = prefix.len() + k;
            let mut choices: Vec<Vec<usize>> = vec![];
            for &x in &prefix {
                choices.push(vec![x]);
            }
            for _ in 0..k {
                choices.push(vec![1, 2, 3]);
            }
            for g in &prefix_gaps {
                choices.push(g.clone());
            }
            choices.push(after_os.clone());
            for _ in 1..k {
                choices.push(inter.clone());
            }
            let first_gaps: Vec<usize> = choices[n..].iter().map(|c| c[0]).collect();
            for_each_choice(&choices, |c| {
                let (keys, gaps) = c.split_at(n);
                let h = schedule_to_hist(&codes, keys, gaps, &gv, tail, 1);
                let mut bad = lock.run(&h);
                let mut fam = None;
                if bad.is_none() {
                    match family5(&cfg, tapped, prefix.len(), keys, gaps, &gv, &lock.outs) {
                        Ok(f) => fam = Some(f),
                        Err(b) => bad = Some(b),
                    }
                }
                acc.schedules += 1;
                if let Some(f) = fam {
                    acc.statement_checks += 1;
                    acc.visible_checks += f.visible_checks;
                    acc.visible_non_key_checks += f.visible_non_key_checks;
                    acc.ambiguous += f.ambiguous;
                    if tapped {
                        // the model agreed tick by tick: the one-shot ended as the statement says for this key
                        if let Some((k, true)) = f.first_follower {
                            if p.end.is_press() {
                                acc.ended_by_press_of[k] += 1;
                            }
                            if let Some((r, true)) = f.first_release_of {
                                if !p.end.is_press() {
                                    acc.ended_by_release_of[r] += 1;
                                    if r != k {
                                        acc.ended_by_release_of_later += 1;
                                    }
                                }
                            }
                        }
                        for k in &f.later_followers {
                            acc.later[*k] += 1;
                        }
                    } else {
                        acc.held += 1;
                    }
                }
                if gaps.iter().zip(first_gaps.iter()).all(|(a, b)| a == b) {
                    let ks: String = keys.iter().map(|k| char::from(b'a' + *k as u8)).collect();
                    out.tag(format!("N:{}:{ks}", cfg.label()));
                }
                if let Some(b) = bad {
                    bads.push((h, b, keys.to_vec(), gaps.to_vec()));
                    match Lock5::new(cfg.clone(), &text) {
                        Ok(l) => {
                            flush(out, &lock.model);
                            lock = l
                        }
                        Err(_) => return false,
                    }
                    return bads.len() < 3;
                }
                clear_trace(&mut lock.sim);
                true
            });
            if bads.len() >= 3 {
                break;
            }
        }
        flush(out, &lock.model);
        out.count("schedules", acc.schedules);
        out.count("nonkey_schedules", acc.schedules);
        out.count("statement_checks", acc.statement_checks);
        out.count("nonkey_statement_checks", acc.statement_checks);
        out.count("nonkey_visible_follower_press_checks", acc.visible_checks);
        out.count("nonkey_visible_non_key_output_checks", acc.visible_non_key_checks);
        out.count("nonkey_visible_press_in_the_tick_the_one_shot_ends_not_judged", acc.ambiguous);
        out.count("nonkey_held_one_shot_schedules", acc.held);
        out.count("nonkey_release_variant_ended_by_release_of_later_pressed_follower", acc.ended_by_release_of_later);
        for k in 1..=3usize {
            let name = if k == 3 { "plain" } else { cfg.fk[k - 1].name() };
            out.count(&format!("nonkey_press_variant_ended_by_press_of:{name}"), acc.ended_by_press_of[k]);
            out.count(&format!("nonkey_release_variant_ended_by_release_of:{name}"), acc.ended_by_release_of[k]);
            out.count(&format!("nonkey_later_follower:{name}"), acc.later[k]);
            if k != 3 {
                out.count("nonkey_press_variant_ended_by_press_of_non_key_follower", acc.ended_by_press_of[k]);
                out.count("nonkey_release_variant_ended_by_release_of_non_key_follower", acc.ended_by_release_of[k]);
                if cfg.fk[k - 1].is_custom() {
                    out.count("nonkey_press_variant_ended_by_press_of_custom_action_key", acc.ended_by_press_of[k]);
                    out.count("nonkey_release_variant_ended_by_release_of_custom_action_key", acc.ended_by_release_of[k]);
                }
            }
        }
        for (h, b, keys, gaps) in bads.iter().take(3) {
            let followers = json!({"b": cfg.fk[0].name(), "c": cfg.fk[1].name(), "d": "plain key"});
            match fresh5(&cfg, &text, h, tapped, prefix.len(), keys, gaps, &gv) {
                Some(Fresh5 { bad: Some(b2), observed, expected }) => {
                    out.violate(b2.sig.clone(), b2.what.clone(), json!({"part": "non-key followers", "config": text, "params": cfg.label(), "followers": followers, "history": render_hist(h), "observed": observed, "expected": expected, "reproduced_on_fresh_instance": true}));
                }
                _ => {
                    out.violate(
                        format!("C06:carry-over:{}", b.sig.trim_start_matches("C06:")),
                        format!("{} (only after earlier histories on the same instance)", b.what),
                        json!({"part": "non-key followers", "config": text, "params": cfg.label(), "followers": followers, "history": render_hist(h), "observed": b.what, "expected": "agreement with the model", "reproduced_on_fresh_instance": false}),
                    );
                }
            }
        }
        out.inc("nonkey_param_sets_x_prefix");
        out.inc(&format!("nonkey_prefix:{}", PREFIX_NAMES[kind]));
        out.inc(&format!("nonkey_variant:{}", p.end.name(false)));
        out.inc(&format!("nonkey_one_shot_of:{}", ["key", "layer", "chord"][cfg.osk % N_OSK]));
        if kind == 0 && (j / np) % 97 == 5 {
            out.sample = Some(json!({"part": "non-key followers", "config": text, "params": cfg.label(), "prefix": PREFIX_NAMES[kind], "max_follow_up_events": kmax,
                "gaps_after_one_shot": after_os.iter().map(|i| gv[*i]).collect::<Vec<_>>(), "gaps_between_follow_up_events": inter.iter().map(|i| gv[*i]).collect::<Vec<_>>(),
                "example_history": render_hist(&schedule_to_hist(&codes, &[0, 0, 1, 1, 3, 3], &[0, 0, after_os[0], inter[0], *inter.last().unwrap_or(&0), inter[0]], &gv, tail, 1))}));
        }
    }
}
