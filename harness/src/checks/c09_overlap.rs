//! C09, overlapping-activations family (defchordsv2): several chords are held at the same time and
//! their activations and releases interleave in every way, nested or not (A and B held, A let go, C
//! pressed, C let go while B is still held ...), over tables of chords that are disjoint or share keys
//! (an all-released chord stays active on the keys that are still down; the key that was let go can
//! take part in another chord meanwhile).
//!
//! A history is a walk over "episodes": start a chord whose keys are all up (its keys go down 0-2
//! ticks apart, in any order), let go of one held key, let go of every held key of one chord, or press
//! a single key; 0 .. T+8 ticks between the steps; everything is released at the end. Even-numbered
//! cases use a fixed generator seed (the same histories for every run), odd-numbered ones the run's.
//!
//! Judged:
//!  * accounting, as everywhere (every press accounted for exactly once by its own key or by one fired
//!    chord, nothing else is output, nothing stays down);
//!  * per activation: the chord's action stays down until the chord's own release rule is met by the
//!    releases of the very presses it consumed (first-release: the first of them, all-released: the
//!    last of them) and goes up at most `SLACK` ticks after that - whatever other chords are pressed or
//!    released meanwhile; together with the accounting (a release of something that is not down is an
//!    unexpected output, something still down at the end is stuck) each activation is released exactly
//!    once;
//!  * an isolated episode (no other press within T+8 ticks before its first or after its first press)
//!    activates exactly its chord, whatever else is held.
//!
//! Two classes are known on the unchanged tree and have signatures of their own, each restricted to
//! what its mechanism explains (structure of the history *and* the tick in which the action went up):
//! `chord-released-early:participant-release-queued-before-its-press` and
//! `chord-release-delayed-until-pending-press-decided` (findings/C09-v2-stale-release-releases-new-chord.md,
//! findings/C09-v2-release-waits-for-pending-press.md). Every other early / late release is live.

use super::*;

pub(super) const SUFFIX: &str = "overlapping-activations";
pub(super) const HIST_PER_CASE: usize = 40;
/// release slack: the chord's Release event waits in the layout's queue behind the events in front of
/// it, with the input pause (rapid-event-delay 5) between them. Where the upper bound is judged (at
/// most 8 key events around the release) the largest lateness measured on the tree is 22 ticks
/// (counter `max_overlap_release_lateness`).
const SLACK: u64 = 3 * R_DELAY as u64 + 12;

pub(super) fn configs() -> Vec<Conf> {
    let mut v = vec![];
    for table in 0..TABLES.len() {
        if !TABLES[table].ov {
            continue;
        }
        for release in 0..3 {
            v.push(Conf { v2: true, table, release, on_l2: false, counting: false, blocker: false });
        }
    }
    v
}

pub(super) fn cases_per_conf(ctx: &Ctx) -> u64 {
    ctx.tier.sel(24, 400)
}

pub(super) fn n_cases(ctx: &Ctx) -> u64 {
    configs().len() as u64 * cases_per_conf(ctx)
}

pub(super) struct Episode {
    ci: usize,
    /// indexes of its presses among the key events of the history
    press_idx: Vec<usize>,
}

fn gen(rng: &mut Rng, c: &Conf) -> (Vec<Ev>, Vec<Episode>) {
    let tb = c.tb();
    let t = tb.t;
    let mut h: Vec<Ev> = vec![];
    let mut eps: Vec<Episode> = vec![];
    let mut down = [false; 6];
    let mut nev = 0usize;
    let code = |k: usize| osc(key_name(k));
    let step_gaps = [0u32, 0, 1, 1, 2, 3, 8, t + 8, t + 8, t + 8];
    let steps = 6 + rng.usize(16);
    for _ in 0..steps {
        let startable: Vec<usize> = (0..tb.chords.len()).filter(|ci| mask_keys(tb.chords[*ci]).iter().all(|k| !down[*k])).collect();
        let downs: Vec<usize> = (0..6).filter(|k| down[*k]).collect();
        let ups: Vec<usize> = (0..6).filter(|k| !down[*k] && (*k < tb.nkeys || *k == 5)).collect();
        let mut opts: Vec<(u32, u8)> = vec![];
        if !startable.is_empty() {
            opts.push((6, 0));
        }
        if !downs.is_empty() {
            opts.push((3, 1));
            opts.push((3, 2));
        }
        if !ups.is_empty() {
            opts.push((3, 3));
        }
        if opts.is_empty() {
            break;
        }
        match *rng.pick_weighted(&opts) {
            0 => {
                let ci = *rng.pick(&startable);
                let mut ks = mask_keys(tb.chords[ci]);
                rng.shuffle(&mut ks);
                let mut ep = Episode { ci, press_idx: vec![] };
                for (i, k) in ks.iter().enumerate() {
                    if i > 0 {
                        let g = *rng.pick(&[0u32, 0, 0, 1, 1, 2]);
                        if g > 0 {
                            h.push(Ev::T(g));
                        }
                    }
                    h.push(Ev::P(code(*k)));
                    down[*k] = true;
                    ep.press_idx.push(nev);
                    nev += 1;
                }
                eps.push(ep);
            }
            1 => {
                let k = *rng.pick(&downs);
                h.push(Ev::R(code(k)));
                down[k] = false;
                nev += 1;
            }
            2 => {
                let held: Vec<usize> = (0..tb.chords.len()).filter(|ci| mask_keys(tb.chords[*ci]).iter().any(|k| down[*k])).collect();
                if held.is_empty() {
                    // only the key outside every chord is down
                    let k = *rng.pick(&downs);
                    h.push(Ev::R(code(k)));
                    down[k] = false;
                    nev += 1;
                } else {
                    let ci = *rng.pick(&held);
                    let mut ks: Vec<usize> = mask_keys(tb.chords[ci]).into_iter().filter(|k| down[*k]).collect();
                    rng.shuffle(&mut ks);
                    for (i, k) in ks.iter().enumerate() {
                        if i > 0 {
                            let g = *rng.pick(&[0u32, 0, 1, 3]);
                            if g > 0 {
                                h.push(Ev::T(g));
                            }
                        }
                        h.push(Ev::R(code(*k)));
                        down[*k] = false;
                        nev += 1;
                    }
                }
            }
            _ => {
                // a single key goes down; half of the time (when something is held) as the motif
                // "one held key is let go and the single key pressed in the same tick, the other
                // held keys follow 0-2 ticks later": as many events arrive as left the queue, the
                // single key's press stays pending, and the releases must still be acted on at once
                let k = *rng.pick(&ups);
                let motif = !downs.is_empty() && rng.coin();
                if motif {
                    let d = *rng.pick(&downs);
                    h.push(Ev::R(code(d)));
                    down[d] = false;
                    nev += 1;
                }
                h.push(Ev::P(code(k)));
                down[k] = true;
                nev += 1;
                if motif {
                    let g = *rng.pick(&[1u32, 1, 1, 2]);
                    if g > 0 {
                        h.push(Ev::T(g));
                    }
                    let mut others: Vec<usize> = (0..6).filter(|x| down[*x] && *x != k).collect();
                    rng.shuffle(&mut others);
                    for o in others {
                        h.push(Ev::R(code(o)));
                        down[o] = false;
                        nev += 1;
                    }
                    // a calm stretch, so that the release bound is judged
                    h.push(Ev::T(t + 8));
                    continue;
                }
            }
        }
        let g = *rng.pick(&step_gaps);
        if g > 0 {
            h.push(Ev::T(g));
        }
    }
    let mut rest: Vec<usize> = (0..6).filter(|k| down[*k]).collect();
    rng.shuffle(&mut rest);
    for k in rest {
        h.push(Ev::R(code(k)));
        let g = *rng.pick(&[0u32, 1, 3, t + 8]);
        if g > 0 {
            h.push(Ev::T(g));
        }
    }
    (h, eps)
}

/// Directed history: a chord P is held and has long fired; one of its keys is let go and a key of a
/// disjoint chord Q pressed in the same tick (Q's press stays pending); 1-2 ticks later the rest of
/// P is let go. The releases must be acted on without waiting for Q's pending press to be decided.
fn gen_directed(rng: &mut Rng, c: &Conf) -> Option<(Vec<Ev>, Vec<Episode>)> {
    let tb = c.tb();
    let code = |k: usize| osc(key_name(k));
    let mut pairs = vec![];
    for p in 0..tb.chords.len() {
        for q in 0..tb.chords.len() {
            if p != q && tb.chords[p] & tb.chords[q] == 0 {
                pairs.push((p, q));
            }
        }
    }
    if pairs.is_empty() {
        return None;
    }
    let (p, q) = *rng.pick(&pairs);
    let mut pk = mask_keys(tb.chords[p]);
    rng.shuffle(&mut pk);
    let mut qk = mask_keys(tb.chords[q]);
    rng.shuffle(&mut qk);
    let mut h = vec![];
    let mut ep = Episode { ci: p, press_idx: vec![] };
    for (i, k) in pk.iter().enumerate() {
        h.push(Ev::P(code(*k)));
        ep.press_idx.push(i);
    }
    h.push(Ev::T(tb.t + 30));
    h.push(Ev::R(code(pk[0])));
    h.push(Ev::P(code(qk[0])));
    h.push(Ev::T(*rng.pick(&[1u32, 1, 2])));
    for k in pk.iter().skip(1) {
        h.push(Ev::R(code(*k)));
    }
    h.push(Ev::T(tb.t + 40));
    h.push(Ev::R(code(qk[0])));
    h.push(Ev::T(tb.t + 8));
    Some((h, vec![ep]))
}

#[derive(Default)]
struct Stats {
    fired: u64,
    rule_judged: u64,
    rule_skipped_ambiguous_press: u64,
    rule_skipped_reactivated: u64,
    late_judged: u64,
    isolated: u64,
    non_nested: u64,
    on_remaining_key: u64,
    max_held: u64,
    max_late: u64,
}

fn judge(c: &Conf, ins: &[InEv], obs: &[Obs], settled: bool, eps: &[Episode], st: &mut Stats) -> Option<(String, String)> {
    let tb = c.tb();
    let t = tb.t as u64;
    if !settled {
        return Some((format!("C09:v2:stuck:{SUFFIX}"), "kanata did not return to idle with every key up".into()));
    }
    let acct = match accounting(c, ins, obs) {
        Ok(a) => a,
        Err((k, what)) => return Some((format!("C09:v2:{k}:{SUFFIX}"), what)),
    };
    st.fired = acct.fired.len() as u64;
    // (chord, tick it fired, tick its release rule is met, participants (key, press arrival, release))
    let mut acts: Vec<(usize, u64, u64, Vec<(usize, u64, u64)>)> = vec![];
    for (fi, (ci, at, _, arr)) in acct.fired.iter().enumerate() {
        let mut parts = vec![];
        // which press of a key the chord consumed is only certain if there was one candidate
        let ambiguous = acct.fired_choice.get(fi).copied().unwrap_or(true);
        for (k, a) in arr {
            let pi = ins.iter().position(|e| e.press && e.key == *k && e.at == *a).unwrap_or(0);
            let rel = ins[pi..].iter().find(|e| !e.press && e.key == *k).map(|e| e.at).unwrap_or(u64::MAX);
            parts.push((*k, *a, rel));
        }
        if ambiguous || parts.iter().any(|p| p.2 == u64::MAX) {
            st.rule_skipped_ambiguous_press += 1;
            continue;
        }
        let rule = if c.first_release_of(*ci) { parts.iter().map(|p| p.2).min().unwrap_or(0) } else { parts.iter().map(|p| p.2).max().unwrap_or(0) };
        acts.push((*ci, *at, rule, parts));
    }
    for (ci, at, rule, parts) in &acts {
        let Some(up) = obs.iter().find(|o| !o.down && o.id == 10 + *ci as u8 && o.at >= *at).map(|o| o.at) else { continue };
        // the same chord completed again before its action went up (a release takes a few ticks to
        // reach the OS): the two activations are one uninterrupted press, judged at the later one
        if acct.fired.iter().any(|f| f.0 == *ci && f.1 > *at && f.1 <= up) {
            st.rule_skipped_reactivated += 1;
            continue;
        }
        st.rule_judged += 1;
        let lo = (*at).max(*rule + 1);
        let hi = (*at).max(*rule) + SLACK;
        let rname = if c.first_release_of(*ci) { "the first of its keys was released" } else { "all of its keys were released" };
        if up < lo {
            let others: Vec<String> = acts.iter().filter(|a| a.1 <= up && a.2 + SLACK >= up && (a.0, a.1) != (*ci, *at)).map(|a| unit_name(10 + a.0 as u8, tb)).collect();
            // known on the unchanged tree: the release of a participant that arrived *before* that
            // participant's press (the key was let go and pressed again) but while an earlier participant
            // was already pending is still queued when the chord fires, and is then counted as a release
            // of the chord (findings/C09-v2-stale-release-releases-new-chord.md)
            // Only what that explains belongs to the class: the action goes up as if the participants
            // with such a release had been let go the moment the chord fired.
            let idx_of = |k: usize, a: u64| ins.iter().position(|e| e.press && e.key == k && e.at == a).unwrap_or(0);
            let first_idx = parts.iter().map(|(k, a, _)| idx_of(*k, *a)).min().unwrap_or(0);
            let is_stale = |k: usize, a: u64| {
                let pi = idx_of(k, a);
                pi > first_idx && ins[first_idx..pi].iter().any(|e| !e.press && e.key == k)
            };
            let fresh: Vec<u64> = parts.iter().filter(|(k, a, _)| !is_stale(*k, *a)).map(|p| p.2).collect();
            let stale = fresh.len() < parts.len() && {
                let rule2 = if c.first_release_of(*ci) { 0 } else { fresh.iter().copied().max().unwrap_or(0) };
                // the release waits in the layout's queue behind the events in front of it: two more
                // ticks per key event that arrived in the 30 ticks before and the slack after
                let ref2 = (*at).max(rule2);
                let busy2 = ins.iter().filter(|e| e.at + 30 >= ref2 && e.at <= ref2 + SLACK).count() as u64;
                up >= (*at).max(rule2 + 1) && up <= ref2 + SLACK + 2 * busy2
            };
            let class = if stale { "chord-released-early:participant-release-queued-before-its-press" } else { "chord-released-early" };
            return Some((
                format!("C09:v2:{class}:{SUFFIX}"),
                format!("{} (fired in tick {at}) was released in tick {up}, before {rname} (tick {rule}); other chords held or released around that tick: [{}]", unit_name(10 + *ci as u8, tb), others.join(", ")),
            ));
        }
        // the release is an event in the layout's queue like any other and waits behind the events in
        // front of it; the upper bound is judged where at most 8 key events arrived in the 30 ticks
        // before the rule was met and the slack after it
        let ref_t = (*at).max(*rule);
        let busy = ins.iter().filter(|e| e.at + 30 >= ref_t && e.at <= ref_t + SLACK).count();
        if busy > 8 {
            continue;
        }
        st.late_judged += 1;
        if up > hi {
            // known on the unchanged tree: while the press of another key is pending in the chords queue
            // the queue is only looked at again when its length changes; if as many events arrive as
            // left it in the pass before, the release waits until the pending press is decided, at
            // most its chord timeout later (findings/C09-v2-release-waits-for-pending-press.md)
            // Only what that explains belongs to the class: the action goes up when the pending press is
            // decided, i.e. at its timeout or when the next event arrives, whichever is first.
            let next_arrival = ins.iter().map(|e| e.at).filter(|a| *a > ref_t + 1).min().unwrap_or(u64::MAX);
            let pending = ins.iter().any(|e| {
                let stall_end = (e.at + t).min(next_arrival);
                e.press && e.at <= ref_t && e.at + t >= ref_t && !parts.iter().any(|(k, a, _)| *k == e.key && *a == e.at) && up + 2 >= stall_end && up <= stall_end + SLACK
            });
            if pending {
                // The part of this class that is repaired in /repo (17c2bbd: as many events arrive as
                // left the queue in the pass before) has the deciding release arrive alone in its tick.
                // What remains on the unchanged tree (findings/C09-v2-release-waits-for-pending-press.md,
                // "Remainder") has it arrive together with other events; only that is a known class.
                let alone = ins.iter().filter(|e| e.at == *rule).count() <= 1;
                let arrival = if alone { "deciding-release-arrived-alone" } else { "deciding-release-arrived-with-other-events" };
                return Some((
                    format!("C09:v2:chord-release-delayed-until-pending-press-decided:{arrival}:{SUFFIX}"),
                    format!("{} (fired in tick {at}) was released in tick {up}, more than {SLACK} ticks after {rname} (tick {rule}), when the press of another key that was pending in the chords queue was decided", unit_name(10 + *ci as u8, tb)),
                ));
            }
            return Some((
                format!("C09:v2:chord-released-late:{SUFFIX}"),
                format!("{} (fired in tick {at}) was released in tick {up}, more than {SLACK} ticks after {rname} (tick {rule})", unit_name(10 + *ci as u8, tb)),
            ));
        }
        st.max_late = st.max_late.max(up - (*at).max(*rule));
    }
    // isolated episodes must activate exactly their chord
    for ep in eps {
        let pr: Vec<(usize, u64)> = ep.press_idx.iter().filter_map(|i| ins.get(*i)).map(|e| (e.key, e.at)).collect();
        let first = pr.iter().map(|p| p.1).min().unwrap_or(0);
        let isolated = ins.iter().enumerate().filter(|(i, e)| e.press && !ep.press_idx.contains(i)).all(|(_, e)| e.at + t + 8 <= first || e.at >= first + t + 8);
        if !isolated {
            continue;
        }
        st.isolated += 1;
        let mut want = pr.clone();
        want.sort();
        let ok = acct.fired.iter().any(|(ci, _, _, arr)| {
            let mut got = arr.clone();
            got.sort();
            *ci == ep.ci && got == want
        });
        if !ok {
            return Some((
                format!("C09:v2:positive:not-fired:{SUFFIX}"),
                format!("all keys of {} pressed within 2 ticks (first in tick {first}), no other press within {} ticks, but the chord did not fire for them", unit_name(10 + ep.ci as u8, tb), t + 8),
            ));
        }
    }
    // what was exercised
    for (i, (_, at, _, parts)) in acts.iter().enumerate() {
        let held = acts.iter().filter(|a| a.1 <= *at && a.2 >= *at).count() as u64;
        st.max_held = st.max_held.max(held);
        // non-nested: an older chord A and a younger chord B were held together, A has been let go, B
        // is still held when this one fires
        let non_nested = acts.iter().enumerate().any(|(bi, b)| bi != i && b.1 < *at && b.2 > *at && acts.iter().any(|a| a.1 < b.1 && a.2 >= b.1 && a.2 < *at));
        if non_nested {
            st.non_nested += 1;
        }
        // a key of this activation was let go by an all-released chord that is still active on its other keys
        let on_remaining = acts.iter().enumerate().any(|(bi, b)| {
            bi != i && !c.first_release_of(b.0) && b.1 < *at && b.2 > *at && b.3.iter().any(|(bk, _, brel)| *brel < *at && parts.iter().any(|(k, _, _)| k == bk))
        });
        if on_remaining {
            st.on_remaining_key += 1;
        }
    }
    None
}

pub(super) fn run_case(ctx: &Ctx, oidx: u64, out: &mut CaseOut) {
    let confs = configs();
    let per = cases_per_conf(ctx);
    let c = &confs[(oidx / per) as usize % confs.len()];
    let tb = c.tb();
    let nm = names();
    let cfg = c.text();
    // even cases: the same histories in every run; odd cases: the run's seed
    let seed = if oidx % 2 == 0 { 0x5eed_c09 } else { ctx.seed };
    let mut rng = Rng::for_case(seed, "C09", "overlap", oidx);
    let Ok(mut sim) = new_sim(c) else {
        out.inconclusive = Some("config rejected".into());
        return;
    };
    let mut reported: std::collections::BTreeSet<String> = Default::default();
    for hi in 0..HIST_PER_CASE {
        let (h, eps) = match if hi == 0 { gen_directed(&mut rng, c) } else { None } {
            Some(x) => {
                out.inc("overlap_directed_release_plus_pending_press_histories");
                x
            }
            None => gen(&mut rng, c),
        };
        let (ins, obs, mut raw, settled) = drive_random(&mut sim, &h, tb, &nm);
        let mut st = Stats::default();
        let mut sig = judge(c, &ins, &obs, settled, &eps, &mut st);
        if sig.is_some() {
            // confirm on a fresh instance
            if hi > 0 {
                if let Ok(mut fresh) = new_sim(c) {
                    let (i2, o2, r2, s2) = drive_random(&mut fresh, &h, tb, &nm);
                    let mut st2 = Stats::default();
                    let sig2 = judge(c, &i2, &o2, s2, &eps, &mut st2);
                    if sig2.is_none() {
                        out.inc("mismatch_not_reproduced_on_fresh_instance");
                        out.inconclusive = Some("a mismatch on a re-used instance did not reproduce on a fresh one".into());
                    }
                    sig = sig2;
                    raw = r2;
                    st = st2;
                }
            }
            match new_sim(c) {
                Ok(s2) => sim = s2,
                Err(_) => return,
            }
        }
        out.inc("overlap_histories");
        out.count("overlap_events", ins.len() as u64);
        out.count("overlap_chords_fired", st.fired);
        out.count("overlap_activations_judged_by_release_rule", st.rule_judged);
        out.count("overlap_activations_judged_by_release_upper_bound", st.late_judged);
        out.count("overlap_activations_not_judged_ambiguous_press", st.rule_skipped_ambiguous_press);
        out.count("overlap_activations_not_judged_chord_completed_again_before_release_reached_os", st.rule_skipped_reactivated);
        out.count("overlap_isolated_episodes_judged_must_fire", st.isolated);
        out.count("overlap_activations_after_older_of_two_held_chords_was_released", st.non_nested);
        out.count("overlap_activations_with_key_let_go_by_still_active_chord", st.on_remaining_key);
        out.max("overlap_chords_held_together", st.max_held);
        out.max("overlap_release_lateness", st.max_late);
        if st.max_held >= 2 {
            out.inc("overlap_histories_with_two_or_more_chords_held_together");
        }
        if st.fired > 0 {
            out.tag(format!("ov|{}|f{}|h{}|nn{}|rk{}", c.label(), st.fired.min(6), st.max_held, st.non_nested.min(3), st.on_remaining_key.min(2)));
        }
        if let Some((sig, what)) = sig {
            if reported.insert(sig.clone()) {
                out.violate(
                    sig,
                    format!("{}: {what}", c.label()),
                    json!({"config": cfg, "history": render_hist(&h), "observed": raw, "expected": "every press accounted for exactly once; every activated chord stays down until its own release rule is met by the keys it consumed and is released once, shortly after; an isolated complete chord fires"}),
                );
            }
        }
        if out.sample.is_none() && oidx % 16 == 0 && st.non_nested > 0 {
            out.sample = Some(json!({"config": cfg, "history": render_hist(&h), "observed": raw}));
        }
    }
}
