//! C09 — input chords (defchords "v1" groups and defchordsv2 entries) fire for exactly the pressed
//! key set, in any press order.
//!
//! Oracle (rules written from the configuration guide, boundary conventions calibrated on the tree,
//! DESIGN appendix A: a v1 chord completes iff every further participant arrives < T after the
//! first, a v2 chord iff <= T):
//!  * accounting (every scenario and every random history): every key press is accounted for exactly
//!    once — either by the key's own output or as a participant of exactly one fired chord whose
//!    participants were all pressed; nothing else is output, individually delivered keys keep their
//!    press order, nothing stays down, kanata returns to idle;
//!  * positive scenarios (exactly the keys of a defined, enabled chord pressed within its window,
//!    from idle, every order): that chord's witness key is pressed exactly once, released per the
//!    release rule (v1: all participants released; v2: first-release / all-released) and not later
//!    than that plus the measured slack;
//!  * a chord never fires when its participants' presses span more than its window, nor on a layer
//!    where it is disabled;
//!  * v1: key sets that are no chord are decomposed greedily into the largest defined sub-chords in
//!    press order;
//!  * parser: participating key sets are unique regardless of the order they are written in;
//!  * delayed start (`c09_delayed.rs`): the group keys are typed while an undecided tap-hold on another
//!    key keeps every event in the layout queue, 0 .. 4 x the chord timeout apart. "Pressed within its
//!    timeout" is about when the keys were *pressed*: the time a press waited in the queue neither
//!    widens nor narrows the window. Judged by accounting, by "a chord never fires for presses whose
//!    arrival span exceeds its window + the processing lag", and (v1) by the same reference grouping
//!    over arrival times as from idle (measured: a queued press joins iff it arrived <= T after the
//!    group's first press; the tick T itself is not judged);
//!  * held-over group key (`c09_carry.rs`, defchords): one or two keys of the group are still held from
//!    an earlier chord (or from their own single-key chord) while the next chord is typed, and are let
//!    go at every position among the new presses - at an idle kanata (release and next press in the
//!    same tick included) and with the whole of it queued behind the undecided blocker. "A chord
//!    triggers [...] by a key release": the release of a group key ends the collection whether or not
//!    the key is one of the collected ones; what was pressed before it is one unit (chord or greedy
//!    decomposition), a group key pressed after it starts a chord of its own and is used exactly once.
//!    Judged by accounting and by the reference grouping with a cut at each such release;
//!  * overlapping activations (`c09_overlap.rs`, defchordsv2): several chords held at the same time
//!    over six tables of disjoint and key-sharing chords (all-released / first-release / alternating),
//!    activations and releases interleaved in every way, nested or not. Judged by accounting and, per
//!    activation, by the release rule: the action stays down until the rule is met by the releases of
//!    the very presses the chord consumed and goes up shortly after, whatever other chords do
//!    meanwhile; an isolated complete chord fires whatever else is held.

use crate::core::rng::Rng;
use crate::core::sim::{code_name, osc, render_hist, Ev, OutKind, Sim};
use crate::core::{CaseOut, Check, Ctx};
use crate::gen::hist;
use serde_json::{json, Value};
use std::collections::VecDeque;

pub struct C09Check;
pub static C09: C09Check = C09Check;

const KEYS: [&str; 5] = ["a", "b", "c", "d", "e"];
const XKEY: &str = "x";
const WIT: [&str; 6] = ["1", "2", "3", "4", "5", "6"];
const R_DELAY: u32 = 5;
/// the "blocker": a key that is in no chord and carries a plain tap-hold; while it is undecided every
/// later event waits in the layout queue (delayed-start family, `c09_delayed.rs`)
const BLOCKER: &str = "z";
const BLOCKER_HOLD: &str = "y";
/// index of the blocker key in `InEv::key` / the accounting (`KEYS` are 0..=4, `XKEY` is 5)
const BLOCKER_KEY: usize = 6;
/// size of the layout's event queue (keyberon `QUEUE_SIZE`)
const LAYOUT_QUEUE_SLOTS: usize = 32;

#[path = "c09_delayed.rs"]
mod delayed;
#[path = "c09_carry.rs"]
mod carry;
#[path = "c09_overlap.rs"]
mod overlap;

fn key_name(k: usize) -> &'static str {
    match k {
        0..=4 => KEYS[k],
        5 => XKEY,
        _ => BLOCKER,
    }
}

struct Table {
    name: &'static str,
    nkeys: usize,
    chords: &'static [u8],
    /// the timeout of every chord; for mixed tables the largest one
    t: u32,
    /// per-chord timeouts (defchordsv2 only); empty = every chord has timeout `t`
    ts: &'static [u32],
    /// inter-press gaps of the scenarios; empty = {0,1,t-1,t,t+1}
    gaps: &'static [u32],
    /// defchordsv2 table of the overlapping-activations family only (`c09_overlap.rs`): several chords
    /// that can be held at the same time; not part of the scenario enumeration
    ov: bool,
}

impl Table {
    fn mixed(&self) -> bool {
        !self.ts.is_empty()
    }
    fn timeout(&self, ci: usize) -> u32 {
        self.ts.get(ci).copied().unwrap_or(self.t)
    }
    fn gap_set(&self) -> Vec<u32> {
        if self.gaps.is_empty() {
            vec![0, 1, self.t - 1, self.t, self.t + 1]
        } else {
            self.gaps.to_vec()
        }
    }
}

const TABLES: &[Table] = &[
    Table { name: "pair", nkeys: 2, chords: &[0b00011], t: 12, ts: &[], gaps: &[], ov: false },
    Table { name: "sub+super", nkeys: 3, chords: &[0b00011, 0b00111], t: 12, ts: &[], gaps: &[], ov: false },
    Table { name: "overlap", nkeys: 3, chords: &[0b00011, 0b00110], t: 25, ts: &[], gaps: &[], ov: false },
    Table { name: "triple", nkeys: 3, chords: &[0b00111], t: 12, ts: &[], gaps: &[], ov: false },
    Table { name: "two-triples", nkeys: 4, chords: &[0b00111, 0b01011], t: 12, ts: &[], gaps: &[], ov: false },
    Table { name: "pairs+quad", nkeys: 4, chords: &[0b00011, 0b01100, 0b01111], t: 25, ts: &[], gaps: &[], ov: false },
    Table { name: "chain", nkeys: 4, chords: &[0b00011, 0b00111, 0b01111], t: 12, ts: &[], gaps: &[], ov: false },
    Table { name: "five", nkeys: 5, chords: &[0b11111, 0b00011, 0b11000, 0b01110], t: 12, ts: &[], gaps: &[], ov: false },
    // defchordsv2 only: chords with different timeouts. Chords that are comparable by inclusion share
    // a timeout; an unrelated chord on the same first key has a much shorter (or longer) one.
    Table { name: "mixed:ab,abc|ad-short", nkeys: 4, chords: &[0b00011, 0b00111, 0b01001], t: 25, ts: &[25, 25, 8], gaps: &[0, 1, 7, 9, 23], ov: false },
    Table { name: "mixed:ac,acd|ab-short", nkeys: 4, chords: &[0b00101, 0b01101, 0b00011], t: 25, ts: &[25, 25, 8], gaps: &[0, 1, 7, 9, 23], ov: false },
    Table { name: "mixed:ab|cd-long|ce-short", nkeys: 5, chords: &[0b00011, 0b01100, 0b10100], t: 30, ts: &[12, 30, 6], gaps: &[0, 1, 5, 7, 13], ov: false },
    // overlapping-activations family only (defchordsv2): chords that can be held side by side, disjoint
    // and with shared keys (an all-released chord stays active on the keys that are still down)
    Table { name: "ov:two-pairs", nkeys: 4, chords: &[0b00011, 0b01100], t: 60, ts: &[], gaps: &[], ov: true },
    Table { name: "ov:shared", nkeys: 4, chords: &[0b00011, 0b00110, 0b01001], t: 20, ts: &[], gaps: &[], ov: true },
    Table { name: "ov:ring", nkeys: 5, chords: &[0b00011, 0b00110, 0b01100, 0b11000, 0b10001], t: 20, ts: &[], gaps: &[], ov: true },
    Table { name: "ov:pairs+e", nkeys: 5, chords: &[0b00011, 0b01100, 0b10001, 0b10100], t: 60, ts: &[], gaps: &[], ov: true },
    Table { name: "ov:triple+pairs", nkeys: 5, chords: &[0b00111, 0b11000, 0b01001, 0b10010], t: 20, ts: &[], gaps: &[], ov: true },
    Table { name: "ov:sub+super+pair", nkeys: 5, chords: &[0b00011, 0b00111, 0b11000], t: 20, ts: &[], gaps: &[], ov: true },
];

#[derive(Clone, Debug)]
struct Conf {
    v2: bool,
    table: usize,
    /// v2: 0 = all chords all-released, 1 = all first-release, 2 = chords with an even index
    /// all-released and chords with an odd index first-release (overlapping-activations family only)
    release: u8,
    /// v2: run on layer l2 where chords with an even index are disabled
    on_l2: bool,
    /// every chord action additionally taps a virtual key whose macro types a counter key of its
    /// own, so that the number of times the action was performed is visible in the OS stream
    counting: bool,
    /// the layer additionally has the blocker key `z` = (tap-hold TH TH z y), TH = `delayed::blocker_hold`
    blocker: bool,
}

const COUNTERS: [&str; 4] = ["p", "q", "r", "s"];

fn configs() -> Vec<Conf> {
    let mut v = vec![];
    for table in 0..TABLES.len() {
        if TABLES[table].ov {
            continue;
        }
        if TABLES[table].mixed() {
            for release in 0..2 {
                v.push(Conf { v2: true, table, release, on_l2: false, counting: false, blocker: false });
            }
            continue;
        }
        v.push(Conf { v2: false, table, release: 0, on_l2: false, counting: false, blocker: false });
        for release in 0..2 {
            for on_l2 in [false, true] {
                v.push(Conf { v2: true, table, release, on_l2, counting: false, blocker: false });
            }
        }
        v.push(Conf { v2: false, table, release: 0, on_l2: false, counting: true, blocker: false });
        v.push(Conf { v2: true, table, release: 0, on_l2: false, counting: true, blocker: false });
    }
    // delayed-start family: the same tables with a blocker key on the layer (appended, so that the
    // indexes of the configurations above do not move)
    for table in 0..TABLES.len() {
        if TABLES[table].mixed() || TABLES[table].ov {
            continue;
        }
        v.push(Conf { v2: false, table, release: 0, on_l2: false, counting: false, blocker: true });
        for release in 0..2 {
            v.push(Conf { v2: true, table, release, on_l2: false, counting: false, blocker: true });
        }
    }
    v
}

fn mask_keys(m: u8) -> Vec<usize> {
    (0..5).filter(|i| m >> i & 1 == 1).collect()
}

impl Conf {
    fn tb(&self) -> &'static Table {
        &TABLES[self.table]
    }
    fn label(&self) -> String {
        if self.v2 {
            format!("v2|{}|{}|{}{}", self.tb().name, ["all-released", "first-release", "alternating"][self.release.min(2) as usize], if self.on_l2 { "l2" } else { "base" }, if self.counting { "|counting" } else if self.blocker { "|blocker" } else { "" })
        } else {
            format!("v1|{}{}", self.tb().name, if self.counting { "|counting" } else if self.blocker { "|blocker" } else { "" })
        }
    }
    fn disabled(&self, chord_idx: usize) -> bool {
        self.v2 && self.on_l2 && chord_idx % 2 == 0
    }
    fn first_release(&self) -> bool {
        self.v2 && self.release == 1
    }
    /// release behaviour of one chord
    fn first_release_of(&self, ci: usize) -> bool {
        self.v2 && (self.release == 1 || (self.release == 2 && ci % 2 == 1))
    }
    fn text(&self) -> String {
        let tb = self.tb();
        // participants are written in descending order for odd chords: the written order must not matter
        let keylist = |ci: usize, m: u8| {
            let mut ks: Vec<&str> = mask_keys(m).into_iter().map(|k| KEYS[k]).collect();
            if ci % 2 == 1 || ks.len() > 2 {
                ks.reverse();
            }
            if ks.len() > 3 {
                ks.swap(0, 2);
            }
            ks.join(" ")
        };
        let action = |ci: usize| if self.counting { format!("(multi {} (on-press tap-vkey c{ci}))", WIT[ci]) } else { WIT[ci].to_string() };
        let vkeys = if self.counting {
            format!("(defvirtualkeys {})\n", (0..tb.chords.len()).map(|ci| format!("c{ci} (macro {})", COUNTERS[ci])).collect::<Vec<_>>().join(" "))
        } else {
            String::new()
        };
        let (bsrc, bact) = if self.blocker {
            let th = delayed::blocker_hold(tb);
            (format!(" {BLOCKER}"), format!(" (tap-hold {th} {th} {BLOCKER} {BLOCKER_HOLD})"))
        } else {
            (String::new(), String::new())
        };
        if self.v2 {
            let mut s = format!(
                "(defcfg process-unmapped-keys yes concurrent-tap-hold yes)\n(defsrc {k} {XKEY} n m{bsrc})\n(deflayer base {k} {XKEY} (layer-switch l2) (layer-switch base){bact})\n(deflayer l2 {k} {XKEY} (layer-switch l2) (layer-switch base){bact})\n(defchordsv2\n",
                k = KEYS.join(" ")
            );
            for (ci, m) in tb.chords.iter().enumerate() {
                s.push_str(&format!(
                    "  ({}) {} {} {} ({})\n",
                    keylist(ci, *m),
                    action(ci),
                    tb.timeout(ci),
                    if self.first_release_of(ci) { "first-release" } else { "all-released" },
                    if ci % 2 == 0 { "l2" } else { "" }
                ));
            }
            s.push_str(")\n");
            s.push_str(&vkeys);
            s
        } else {
            let acts: Vec<String> = (0..5).map(|k| if k < tb.nkeys { format!("(chord g {})", KEYS[k]) } else { KEYS[k].to_string() }).collect();
            let mut s = format!("(defcfg process-unmapped-keys yes)\n(defsrc {} {XKEY}{bsrc})\n(deflayer base {} {XKEY}{bact})\n(defchords g {}\n", KEYS.join(" "), acts.join(" "), tb.t);
            for k in 0..tb.nkeys {
                s.push_str(&format!("  ({}) {}\n", KEYS[k], KEYS[k]));
            }
            for (ci, m) in tb.chords.iter().enumerate() {
                s.push_str(&format!("  ({}) {}\n", keylist(ci, *m), action(ci)));
            }
            s.push_str(")\n");
            s.push_str(&vkeys);
            s
        }
    }
}

// ------------------------------------------------------------------------------------------------
// scenarios

#[derive(Clone, Debug)]
struct Scen {
    /// (key, gap before the press); first gap 0
    presses: Vec<(usize, u32)>,
    /// (key, gap before the release); the first gap is the hold time after the last press
    releases: Vec<(usize, u32)>,
}

impl Scen {
    fn hist(&self) -> Vec<Ev> {
        let mut h = vec![];
        for (k, g) in &self.presses {
            if *g > 0 {
                h.push(Ev::T(*g));
            }
            h.push(Ev::P(osc(KEYS[*k])));
        }
        for (k, g) in &self.releases {
            if *g > 0 {
                h.push(Ev::T(*g));
            }
            h.push(Ev::R(osc(KEYS[*k])));
        }
        h
    }
}

fn factorial(n: usize) -> u64 {
    (1..=n as u64).product::<u64>().max(1)
}

fn nth_perm(items: &[usize], mut idx: u64) -> Vec<usize> {
    let mut pool = items.to_vec();
    let mut out = vec![];
    for i in (1..=pool.len()).rev() {
        let f = factorial(i - 1);
        let j = (idx / f) as usize;
        idx %= f;
        out.push(pool.remove(j));
    }
    out
}

const N_HOLD: u64 = 3;
const N_RELGAP: u64 = 3;

fn scen_space(n: usize) -> u64 {
    factorial(n) * 5u64.pow(n as u32 - 1) * factorial(n) * N_HOLD * N_RELGAP
}

fn make_scen(keys: &[usize], tb: &Table, mut idx: u64) -> Scen {
    let n = keys.len();
    let t = tb.t;
    let gaps = tb.gap_set();
    debug_assert!(gaps.len() == 5);
    let pp = idx % factorial(n);
    idx /= factorial(n);
    let mut g = vec![];
    for _ in 1..n {
        g.push(gaps[(idx % 5) as usize]);
        idx /= 5;
    }
    let rp = idx % factorial(n);
    idx /= factorial(n);
    let hold = [0u32, 1, t + 3][(idx % N_HOLD) as usize];
    idx /= N_HOLD;
    let relgap = [0u32, 2, 9][(idx % N_RELGAP) as usize];
    let porder = nth_perm(keys, pp);
    let rorder = nth_perm(keys, rp);
    Scen {
        presses: porder.iter().enumerate().map(|(i, k)| (*k, if i == 0 { 0 } else { g[i - 1] })).collect(),
        releases: rorder.iter().enumerate().map(|(i, k)| (*k, if i == 0 { hold } else { relgap })).collect(),
    }
}

/// the exhaustive work list of a configuration: (subset mask, number of scenarios, total space)
fn work(ctx: &Ctx, c: &Conf) -> Vec<(u8, u64, u64)> {
    let tb = c.tb();
    let kmax = ctx.tier.sel(4, 5);
    // subsets of up to 3 keys are enumerated completely in both tiers; larger ones are sampled with a
    // fixed stride (seed-independent)
    let cap: u64 = ctx.tier.sel(40_000, 300_000);
    let mut v = vec![];
    for m in 1u8..(1 << tb.nkeys) {
        let n = m.count_ones() as usize;
        if n > kmax {
            continue;
        }
        let space = scen_space(n);
        v.push((m, space.min(cap), space));
    }
    // defchordsv2: every chord together with one bystander (a plain key of the layer that is in no
    // chord), pressed and released among the participants in every order
    if c.v2 && tb.nkeys < 5 {
        let by = 1u8 << tb.nkeys;
        for (ci, m) in tb.chords.iter().enumerate() {
            let n = m.count_ones() as usize + 1;
            if c.disabled(ci) || n > kmax {
                continue;
            }
            let space = scen_space(n);
            v.push((m | by, space.min(cap), space));
        }
    }
    v
}

const STRIDE: u64 = 1_000_003;

const CHUNK: u64 = 4096;

#[derive(Clone, Debug)]
enum CaseKind {
    /// (config, first scenario, last scenario (exclusive)) in the concatenated work list
    Exh(usize, u64, u64),
    Random(usize),
    ParserDup,
    /// one hub key that takes part in many two-key chords (more than any fixed-size candidate buffer)
    Wide(usize),
    /// delayed-start family (`c09_delayed.rs`): (blocker config, first scenario, last scenario (exclusive))
    Delayed(usize, u64, u64),
    /// held-over family (`c09_carry.rs`): (v1 blocker config, first scenario, last scenario (exclusive))
    Carry(usize, u64, u64),
    /// overlapping-activations family (`c09_overlap.rs`): case number within the family
    Overlap(u64),
}

fn n_random(ctx: &Ctx) -> u64 {
    ctx.tier.sel(1200, 6000)
}

fn layout(ctx: &Ctx) -> Vec<CaseKind> {
    let mut v = vec![];
    for (ci, c) in configs().iter().enumerate() {
        if c.blocker {
            continue;
        }
        let tot: u64 = work(ctx, c).iter().map(|w| w.1).sum();
        let mut s = 0;
        while s < tot {
            v.push(CaseKind::Exh(ci, s, (s + CHUNK).min(tot)));
            s += CHUNK;
        }
    }
    v.push(CaseKind::ParserDup);
    for w in 0..WIDE_VARIANTS {
        v.push(CaseKind::Wide(w));
    }
    for (ci, c) in configs().iter().enumerate() {
        if !c.blocker {
            continue;
        }
        let tot: u64 = delayed::work(ctx, c).iter().map(|w| w.1).sum();
        let mut s = 0;
        while s < tot {
            v.push(CaseKind::Delayed(ci, s, (s + delayed::D_CHUNK).min(tot)));
            s += delayed::D_CHUNK;
        }
    }
    for (ci, c) in configs().iter().enumerate() {
        let tot: u64 = carry::work(ctx, c).iter().map(|w| w.2).sum();
        let mut s = 0;
        while s < tot {
            v.push(CaseKind::Carry(ci, s, (s + carry::C_CHUNK).min(tot)));
            s += carry::C_CHUNK;
        }
    }
    for o in 0..overlap::n_cases(ctx) {
        v.push(CaseKind::Overlap(o));
    }
    v
}

// ------------------------------------------------------------------------------------------------
// observation

#[derive(Clone, Debug, PartialEq, Eq)]
struct Obs {
    at: u64,
    down: bool,
    /// 0..=4 individual key, 5 = x, 6 / 7 = the blocker key's tap / hold output, 10+i = witness of chord i, 20+i = counter key of chord i, 255 = anything else
    id: u8,
    /// a chord activation seen in kanata's key state while the chord's witness key was already down
    /// (invisible in the OS stream); only produced by the random-history driver
    merged: bool,
}

struct Names {
    keys: Vec<String>,
    x: String,
    wit: Vec<String>,
    cnt: Vec<String>,
    blk: [String; 2],
}
fn names() -> Names {
    Names {
        blk: [code_name(osc(BLOCKER)), code_name(osc(BLOCKER_HOLD))],
        keys: KEYS.iter().map(|k| code_name(osc(k))).collect(),
        x: code_name(osc(XKEY)),
        wit: WIT.iter().map(|k| code_name(osc(k))).collect(),
        cnt: COUNTERS.iter().map(|k| code_name(osc(k))).collect(),
    }
}

fn v2_accepts(sim: &Sim) -> bool {
    sim.k.layout.b().chords_v2.as_ref().map(|c| c.accepts_chords_chv2()).unwrap_or(true)
}

fn settle(sim: &mut Sim, min_ticks: u64, max_ticks: u64) -> bool {
    let start = sim.now;
    loop {
        let quiet = sim.trace.last().map(|o| sim.now - o.at >= 3).unwrap_or(true);
        if sim.now - start >= min_ticks && sim.is_idle() && sim.os.all_up() && v2_accepts(sim) && quiet {
            return true;
        }
        if sim.now - start >= max_ticks {
            return false;
        }
        sim.tick();
    }
}

fn collect(sim: &Sim, base: u64, nm: &Names) -> (Vec<Obs>, Vec<String>) {
    let mut outs = vec![];
    let mut raw = vec![];
    for o in &sim.trace {
        let p = match o.kind {
            OutKind::Down => "↓",
            OutKind::Up => "↑",
            _ => "?",
        };
        raw.push(format!("{p}{}@{}{}", o.name, o.at - base, if o.redundant { "(redundant)" } else { "" }));
        if o.redundant {
            continue;
        }
        let down = match o.kind {
            OutKind::Down => true,
            OutKind::Up => false,
            _ => {
                outs.push(Obs { at: o.at - base, down: true, id: 255, merged: false });
                continue;
            }
        };
        let id = if let Some(i) = nm.keys.iter().position(|n| *n == o.name) {
            i as u8
        } else if o.name == nm.x {
            5
        } else if let Some(i) = nm.blk.iter().position(|n| *n == o.name) {
            6 + i as u8
        } else if let Some(i) = nm.wit.iter().position(|n| *n == o.name) {
            10 + i as u8
        } else if let Some(i) = nm.cnt.iter().position(|n| *n == o.name) {
            20 + i as u8
        } else {
            255
        };
        outs.push(Obs { at: o.at - base, down, id: if o.repress { 254 } else { id }, merged: false });
    }
    (outs, raw)
}

// ------------------------------------------------------------------------------------------------
// oracle

#[derive(Clone, Debug)]
struct InEv {
    at: u64,
    key: usize, // 0..=4, 5 = x, 6 = blocker
    press: bool,
    /// the layout's 32-slot event queue was full when this event arrived: it pushed the oldest
    /// queued event out for immediate processing (only measured by the random-history driver; no
    /// scenario comes near 32 queued events)
    overflow: bool,
}

#[derive(Default)]
struct Acct {
    /// fired chords: (chord index, tick, arrival span of the accounted presses, arrivals of the matched presses)
    fired: Vec<(usize, u64, u64, Vec<(usize, u64)>)>,
    /// units in output order: individual key k -> k (the blocker, tap or hold output -> 6), chord i -> 10+i
    units: Vec<u8>,
    /// chord completions while the chord's witness key was still down (invisible in the OS stream)
    merged: u64,
    /// counter key presses per chord (counting configurations)
    counted: [u64; 6],
    /// per fired chord: one of its keys had more than one unaccounted press when it fired (which press
    /// it consumed is the accounting's reading, not an observation)
    fired_choice: Vec<bool>,
}

/// Known on the unchanged tree (v2), one root cause with two triggers: a chord that completes in the
/// processing pass in which its deadline is reached (completing press T-1 or T ticks after the first
/// press), or in which a release of one of its keys is already queued, is activated twice.
/// Everything else that performs an action twice is a different failure.
fn twice_class(c: &Conf, acct: &Acct, ins: &[InEv], ci: usize) -> &'static str {
    let t = c.tb().t as u64;
    if !c.v2 {
        return "action-performed-twice";
    }
    if acct.fired.iter().any(|f| f.0 == ci && (f.2 == t || f.2 + 1 == t)) {
        return "action-performed-twice:completing-press-at-timeout";
    }
    for (fci, fat, _, arr) in &acct.fired {
        if *fci != ci {
            continue;
        }
        let first = arr.iter().map(|x| x.1).min().unwrap_or(0);
        if ins.iter().any(|e| !e.press && e.at >= first && e.at < *fat && arr.iter().any(|(k, _)| *k == e.key)) {
            return "action-performed-twice:release-queued-before-chord-fired";
        }
    }
    "action-performed-twice"
}

/// The accounting oracle. Returns Err((class, description)) at the first inconsistency.
/// When a key of a fired chord has several unaccounted presses (tapped, then pressed again for the
/// chord), the OS stream does not say which press the chord consumed: the earliest is tried first,
/// then the latest one that had arrived when the chord fired, then (several chords fired) every
/// combination of the two per fired chord; only if no reading is consistent is the (first)
/// inconsistency reported.
fn accounting(c: &Conf, ins: &[InEv], obs: &[Obs]) -> Result<Acct, (&'static str, String)> {
    let e = match accounting_with(c, ins, obs, 0) {
        Ok(a) => return Ok(a),
        Err(e) => e,
    };
    if let Ok(a) = accounting_with(c, ins, obs, u64::MAX) {
        return Ok(a);
    }
    // several chords fired in one history: each of them may have taken the earlier or the later press
    // (the n-th fired chord takes the latest one iff bit n of the mask is set)
    let n = obs.iter().filter(|o| o.down && (10..20).contains(&o.id)).count().min(10);
    if n >= 2 {
        for mask in 1..(1u64 << n) - 1 {
            if let Ok(a) = accounting_with(c, ins, obs, mask) {
                return Ok(a);
            }
        }
    }
    Err(e)
}

fn accounting_with(c: &Conf, ins: &[InEv], obs: &[Obs], latest_mask: u64) -> Result<Acct, (&'static str, String)> {
    let mut chord_no = 0u32;
    let mut tainted = [false; 7];
    let tb = c.tb();
    let mut acct = Acct::default();
    let mut unacc: Vec<VecDeque<(usize, u64)>> = vec![VecDeque::new(); 7];
    let mut next_in = 0usize;
    let mut last_individual: Option<usize> = None;
    let mut down: Vec<u8> = vec![];
    for o in obs {
        while next_in < ins.len() && ins[next_in].at < o.at {
            if ins[next_in].press {
                unacc[ins[next_in].key].push_back((next_in, ins[next_in].at));
            }
            next_in += 1;
        }
        if (20..26).contains(&o.id) {
            if !c.counting {
                return Err(("unexpected-output", "counter key in a configuration without counters".into()));
            }
            if o.down {
                acct.counted[(o.id - 20) as usize] += 1;
            }
            continue;
        }
        if o.id >= 254 {
            return Err(("unexpected-output", format!("output #{} is neither a key of the scenario nor a chord action (or is a re-press of a key that is down)", acct.units.len())));
        }
        if !o.down {
            if !down.contains(&o.id) {
                return Err(("unexpected-output", "release of something that is not down".into()));
            }
            down.retain(|x| *x != o.id);
            continue;
        }
        if o.merged {
            acct.merged += 1;
        } else {
            down.push(o.id);
        }
        if o.id <= 7 {
            // the blocker key is delivered by its tap output or by its hold output
            let k = (o.id as usize).min(BLOCKER_KEY);
            let is_chord_key = k < tb.nkeys;
            // match the earliest unaccounted press of this key that keeps the delivery order
            // monotone (an earlier press that was swallowed stays unaccounted and is reported at
            // the end); if there is none, the earliest one (then the order did change)
            let pos = unacc[k].iter().position(|(idx, _)| last_individual.map(|l| *idx > l).unwrap_or(true)).unwrap_or(0);
            match unacc[k].remove(pos) {
                Some((idx, _)) => {
                    if unacc[k].is_empty() {
                        tainted[k] = false;
                    }
                    // only the relative order of individually delivered keys is required
                    if let Some(l) = last_individual {
                        if idx < l {
                            return Err(("order-changed", format!("key {} was pressed before a key that was delivered earlier", key_name(k))));
                        }
                    }
                    last_individual = Some(idx);
                    let _ = is_chord_key;
                }
                None => return Err(("key-invented", format!("key {} output without an unaccounted press of it", key_name(k)))),
            }
            acct.units.push(k as u8);
        } else {
            let ci = (o.id - 10) as usize;
            let Some(m) = tb.chords.get(ci) else {
                return Err(("unexpected-output", "witness of a chord that is not in the table".into()));
            };
            if c.disabled(ci) {
                return Err(("fired-on-disabled-layer", format!("chord ({}) fired on a layer where it is disabled", mask_keys(*m).iter().map(|k| KEYS[*k]).collect::<Vec<_>>().join(" "))));
            }
            let latest = latest_mask >> chord_no.min(63) & 1 == 1;
            chord_no += 1;
            let mut arr = vec![];
            let mut choice = false;
            for k in mask_keys(*m) {
                // a choice made for an earlier chord leaves it open which press is left for this one
                choice |= unacc[k].len() > 1 || tainted[k];
                tainted[k] = unacc[k].len() > 1;
                let taken = if latest && unacc[k].len() > 1 { unacc[k].pop_back() } else { unacc[k].pop_front() };
                match taken {
                    Some((_, a)) => arr.push((k, a)),
                    None => {
                        let cname = mask_keys(*m).iter().map(|k| KEYS[*k]).collect::<Vec<_>>().join(" ");
                        if o.merged {
                            // a second activation of the chord for the same presses
                            return Err((twice_class(c, &acct, ins, ci), format!("chord ({cname}) was activated a second time without new presses of its keys (seen in kanata's key state at a new virtual coordinate)")));
                        }
                        return Err(("fired-without-all-participants", format!("chord ({cname}) fired although {} had no unaccounted press", KEYS[k])));
                    }
                }
            }
            let lo = arr.iter().map(|x| x.1).min().unwrap_or(0);
            let hi = arr.iter().map(|x| x.1).max().unwrap_or(0);
            acct.fired.push((ci, o.at, hi - lo, arr));
            acct.fired_choice.push(choice);
            acct.units.push(o.id);
        }
    }
    while next_in < ins.len() {
        if ins[next_in].press {
            unacc[ins[next_in].key].push_back((next_in, ins[next_in].at));
        }
        next_in += 1;
    }
    if !down.is_empty() {
        return Err(("stuck", "a key is still down at the end".into()));
    }
    if c.counting {
        for ci in 0..tb.chords.len() {
            let fired = acct.fired.iter().filter(|f| f.0 == ci).count() as u64;
            if acct.counted[ci] > fired {
                return Err((twice_class(c, &acct, ins, ci), format!("{} fired {fired} time(s) but its action was performed {} times", unit_name(10 + ci as u8, tb), acct.counted[ci])));
            }
            if acct.counted[ci] < fired {
                return Err(("action-not-performed", format!("{} fired {fired} time(s) but its action was performed {} times", unit_name(10 + ci as u8, tb), acct.counted[ci])));
            }
        }
    }
    for (k, q) in unacc.iter().enumerate() {
        if let Some((_, a)) = q.front() {
            // known on the unchanged tree (v2): a participant released and pressed again before the
            // pending chord fired loses the second press (the chord consumes every queued press of
            // its keys)
            let repress_before_fire = c.v2 && acct.fired.iter().any(|(_, f, _, arr)| *f > *a && arr.iter().any(|(kk, ak)| *kk == k && *ak <= *a));
            // known on the unchanged tree (v1): an event arriving at a full queue forces whatever is
            // waiting to be decided at once; for a pending chord that means "no action", so the group
            // key that started it is dropped (findings/C09-v1-chord-start-dropped-on-queue-overflow.md).
            // Only a group key whose press had arrived when the queue overflowed belongs to this class.
            let overflowed_after = !c.v2 && k < tb.nkeys && ins.iter().any(|e| e.overflow && e.at >= *a);
            let class = if repress_before_fire {
                "key-swallowed:repress-before-pending-chord-fired"
            } else if overflowed_after {
                "key-swallowed:group-key-pending-at-queue-overflow"
            } else {
                "key-swallowed"
            };
            return Err((class, format!("{} press(es) of {} produced neither the key nor a chord", q.len(), key_name(k))));
        }
    }
    Ok(acct)
}

/// v1 reference: units fired for presses (key, arrival) that all precede the first release.
/// Groups: a press joins the pending group iff it arrives < T after the group's first press; a group
/// fires as soon as its key set is a chord with no defined strict superset, otherwise at its
/// timeout / the first release, as its chord or greedily decomposed in press order.
///
/// `delayed`: every press waited in the queue behind an undecided blocker. The first group then does
/// not start from idle either, but its window is still measured from the *arrival* of its first press
/// (the time spent in the queue is carried along); measured on the tree, a queued press joins iff it
/// arrived <= T after the group's first press, where a press arriving at a running chord joins iff
/// < T: the tick T itself is left undetermined.
fn v1_expected(c: &Conf, presses: &[(usize, u64)], ambiguous: &mut bool, delayed: bool) -> Vec<u8> {
    v1_expected_cut(c, presses, ambiguous, delayed, &[])
}

/// The same with releases of group keys among the presses: `cut[j]` says that a key of the group was
/// released between press j-1 and press j. "A chord triggers [...] by a key release": the release of a
/// group key ends the collection, whether or not the released key is one of the collected ones (it may
/// be held over from an earlier chord), so press j starts a new group. An empty `cut` = no releases.
fn v1_expected_cut(c: &Conf, presses: &[(usize, u64)], ambiguous: &mut bool, delayed: bool, cut: &[bool]) -> Vec<u8> {
    let is_cut = |j: usize| cut.get(j).copied().unwrap_or(false);
    let tb = c.tb();
    let t = tb.t as u64;
    // all chords incl. the single-key ones: (mask, unit id)
    let mut chords: Vec<(u8, u8)> = (0..tb.nkeys).map(|k| (1u8 << k, k as u8)).collect();
    chords.extend(tb.chords.iter().enumerate().map(|(i, m)| (*m, 10 + i as u8)));
    let get = |m: u8| chords.iter().find(|x| x.0 == m).map(|x| x.1);
    let unamb = |m: u8| -> Option<u8> {
        if chords.iter().any(|x| x.0 != m && x.0 & m == m) {
            None
        } else {
            get(m)
        }
    };
    let mut units = vec![];
    let mut i = 0;
    while i < presses.len() {
        let start = presses[i].1;
        let mut active = 1u8 << presses[i].0;
        let mut order = vec![presses[i].0];
        let mut j = i + 1;
        let mut fired = false;
        if let Some(u) = unamb(active) {
            units.push(u);
            fired = true;
        }
        // A group that does not start from idle starts when its first press is *processed*, which is up
        // to `lag` ticks after it arrived (earlier keys are replayed one per tick). Whether a press
        // near the end of such a group's window still joins is not determined by the statement.
        if i > 0 {
            let lag = i as u64 + 2;
            if let Some(p) = presses.get(j).filter(|_| !is_cut(j)) {
                let d = p.1 - start;
                if !fired && d + lag >= t && d < t + lag {
                    *ambiguous = true;
                }
            }
            // counting configurations: the virtual-key tap of an earlier chord's action is a queued
            // non-chord press that legitimately ends a later group's chording
            if c.counting && units.iter().any(|u| *u >= 10) {
                *ambiguous = true;
            }
        } else if delayed && !fired {
            if let Some(p) = presses.get(j).filter(|_| !is_cut(j)) {
                if p.1 - start == t {
                    *ambiguous = true;
                }
            }
        }
        while !fired && j < presses.len() && !is_cut(j) && presses[j].1 - start < t {
            active |= 1 << presses[j].0;
            order.push(presses[j].0);
            j += 1;
            if let Some(u) = unamb(active) {
                units.push(u);
                fired = true;
            }
            if i > 0 && !fired {
                let lag = i as u64 + 2;
                if let Some(p) = presses.get(j).filter(|_| !is_cut(j)) {
                    let d = p.1 - start;
                    if d + lag >= t && d < t + lag {
                        *ambiguous = true;
                    }
                }
            } else if delayed && !fired {
                if let Some(p) = presses.get(j).filter(|_| !is_cut(j)) {
                    if p.1 - start == t {
                        *ambiguous = true;
                    }
                }
            }
        }
        if !fired {
            if let Some(u) = get(active) {
                units.push(u);
            } else {
                // greedy decomposition in press order
                let mut s = 0;
                while s < order.len() {
                    let mut e = order.len();
                    let mut found = false;
                    while e > s {
                        let m = order[s..e].iter().fold(0u8, |a, k| a | 1 << k);
                        if let Some(u) = get(m) {
                            units.push(u);
                            found = true;
                            break;
                        }
                        e -= 1;
                    }
                    s = if found { e } else { s + 1 };
                }
            }
        }
        i = j;
    }
    units
}

fn unit_name(u: u8, tb: &Table) -> String {
    if u < 10 {
        key_name(u as usize).to_string()
    } else {
        let m = tb.chords.get((u - 10) as usize).copied().unwrap_or(0);
        format!("chord({})", mask_keys(m).iter().map(|k| KEYS[*k]).collect::<Vec<_>>().join(" "))
    }
}

struct Verdict {
    sig: Option<(String, String)>,
    class: &'static str,
    units: Vec<u8>,
    expected: String,
}

fn judge_scen(c: &Conf, s: &Scen, obs: &[Obs], settled: bool) -> Verdict {
    let tb = c.tb();
    let ver = if c.v2 { "v2" } else { "v1" };
    let mut v = Verdict { sig: None, class: "other", units: vec![], expected: String::new() };
    // inputs with arrival ticks
    let mut ins = vec![];
    let mut t = 0u64;
    for (k, g) in &s.presses {
        t += *g as u64;
        ins.push(InEv { at: t, key: *k, press: true, overflow: false });
    }
    let first_press = ins[0].at;
    let last_press = t;
    let mut rel_at = [0u64; 5];
    for (k, g) in &s.releases {
        t += *g as u64;
        ins.push(InEv { at: t, key: *k, press: false, overflow: false });
        rel_at[*k] = t;
    }
    let span = last_press - first_press;
    let smask = s.presses.iter().fold(0u8, |a, (k, _)| a | 1 << k);
    let exact = tb.chords.iter().position(|m| *m == smask);
    if tb.mixed() {
        return judge_mixed(c, s, obs, settled, &ins, &rel_at, exact, v);
    }
    let in_window = if c.v2 { span <= tb.t as u64 } else { span < tb.t as u64 };
    // v2 at a span of exactly T: the tree completes the chord unless another press arrived exactly
    // one tick before the deadline (then the deadline is evaluated one tick earlier). The guide does
    // not decide that tick, so these scenarios are only judged by the other rules.
    let v2_boundary = c.v2 && span == tb.t as u64 && ins.iter().filter(|e| e.press).any(|e| e.at - first_press == tb.t as u64 - 1);
    v.class = match exact {
        Some(ci) if c.disabled(ci) => "disabled-layer",
        Some(_) if v2_boundary => "boundary-undetermined",
        Some(_) if in_window => "positive",
        Some(_) => "too-slow",
        None => {
            if tb.chords.iter().enumerate().any(|(ci, m)| !c.disabled(ci) && m & smask == smask) {
                "incomplete"
            } else if tb.chords.iter().any(|m| m & smask == *m) {
                "undefined-superset"
            } else {
                "no-chord"
            }
        }
    };
    if !settled {
        v.sig = Some((format!("C09:{ver}:stuck"), "kanata did not return to idle with every key up".into()));
        return v;
    }
    let acct = match accounting(c, &ins, obs) {
        Ok(a) => a,
        Err((k, what)) => {
            v.sig = Some((format!("C09:{ver}:{k}"), what));
            return v;
        }
    };
    v.units = acct.units.clone();
    // a chord only fires if its participants arrived within its window
    for (ci, _, sp, arr) in &acct.fired {
        // exact from idle; a chord whose first participant arrived while earlier keys were still being
        // processed has its window measured from when that press is processed (bounded lag)
        let from_idle = arr.iter().map(|x| x.1).min() == Some(first_press);
        let lag = if from_idle { 0 } else { R_DELAY as u64 + 2 * s.presses.len() as u64 };
        let ok = if c.v2 { *sp <= tb.timeout(*ci) as u64 + lag } else { *sp < tb.t as u64 + lag };
        if !ok {
            v.sig = Some((format!("C09:{ver}:fired-outside-window"), format!("{} fired although its participants' presses span {} ticks (timeout {})", unit_name(10 + *ci as u8, tb), sp, tb.t)));
            return v;
        }
    }
    // individually delivered keys are released after their physical release
    let mut i = 0;
    while i < obs.len() {
        let o = &obs[i];
        if !o.down && o.id < 5 && o.at <= rel_at[o.id as usize] {
            v.sig = Some((format!("C09:{ver}:released-early"), format!("{} released before its physical release", KEYS[o.id as usize])));
            return v;
        }
        i += 1;
    }
    // positive scenario: exactly that chord, once; release rule
    if v.class == "positive" {
        let ci = exact.unwrap_or(0);
        v.expected = unit_name(10 + ci as u8, tb);
        if acct.units != vec![10 + ci as u8] {
            v.sig = Some((
                format!("C09:{ver}:positive:not-fired"),
                format!("all keys of {} pressed within the timeout but the outcome was [{}]", v.expected, acct.units.iter().map(|u| unit_name(*u, tb)).collect::<Vec<_>>().join(", ")),
            ));
            return v;
        }
    }
    // release rule for fired chords (v1: only without decomposition, i.e. in positive scenarios)
    if c.v2 || v.class == "positive" {
        for (ci, at, _, arr) in &acct.fired {
            let rels: Vec<u64> = arr.iter().map(|(k, _)| rel_at[*k]).collect();
            let t_rule = if c.first_release() { rels.iter().copied().min().unwrap_or(0) } else { rels.iter().copied().max().unwrap_or(0) };
            let up = obs.iter().find(|o| !o.down && o.id == 10 + *ci as u8 && o.at >= *at).map(|o| o.at);
            let Some(up) = up else { continue };
            let lo = (*at).max(t_rule + 1);
            // the counting variant queues the virtual key's press and release (and its macro) ahead of the
            // chord's release: three more queue slots
            let slack = (R_DELAY * (acct.fired.len().max(1) as u32) + 2 * s.presses.len() as u32 + 2 + if c.counting { 3 } else { 0 }) as u64;
            let hi = (*at).max(t_rule) + slack;
            if up < lo {
                v.sig = Some((format!("C09:{ver}:chord-released-early"), format!("{} released in tick {up}, before the release rule allows ({})", unit_name(10 + *ci as u8, tb), if c.first_release() { "first participant release" } else { "all participants released" })));
                return v;
            }
            if up > hi {
                // known on the unchanged tree (v2): the release can be delayed by up to the chord
                // timeout; anything later than that is a different failure
                let class = if c.v2 && up <= hi + tb.t as u64 + 2 { "chord-release-delayed-within-timeout" } else { "chord-released-late" };
                v.sig = Some((format!("C09:{ver}:{class}"), format!("{} released in tick {up}, more than {slack} ticks after its release rule was met (tick {t_rule})", unit_name(10 + *ci as u8, tb))));
                return v;
            }
        }
    }
    // v1 decomposition
    if !c.v2 {
        let pr: Vec<(usize, u64)> = ins.iter().filter(|e| e.press).map(|e| (e.key, e.at)).collect();
        let mut ambiguous = false;
        let exp = v1_expected(c, &pr, &mut ambiguous, false);
        v.expected = exp.iter().map(|u| unit_name(*u, tb)).collect::<Vec<_>>().join(", ");
        if ambiguous {
            v.class = "v1-late-group-boundary-undetermined";
        } else if exp != acct.units {
            v.sig = Some((
                format!("C09:v1:decomposition"),
                format!("expected [{}], observed [{}]", v.expected, acct.units.iter().map(|u| unit_name(*u, tb)).collect::<Vec<_>>().join(", ")),
            ));
            return v;
        }
    }
    v
}

/// Tables whose chords have different timeouts (defchordsv2). The guide: "The time begins when the
/// first participant is pressed"; kanata keeps the keys pending only as long as the shortest timeout
/// among the chords that are still possible. Judged here:
///  * accounting, as everywhere;
///  * a chord never fires with a span above its own timeout;
///  * must-fire: exactly the keys of a defined chord C pressed from idle, every press arriving before
///    the shortest timeout among the chords that were still possible *before that press* (chords
///    containing every key pressed so far) — then C and nothing else fires. Chords that earlier
///    presses have ruled out must not shorten the wait;
///  * the release rule.
/// Scenarios in which a still-possible chord with a shorter timeout expires first are judged by
/// accounting only (the guide does not say whether the keys are then still pending).
#[allow(clippy::too_many_arguments)]
fn judge_mixed(c: &Conf, s: &Scen, obs: &[Obs], settled: bool, ins: &[InEv], rel_at: &[u64; 5], exact: Option<usize>, mut v: Verdict) -> Verdict {
    let tb = c.tb();
    v.class = "mixed-other";
    if !settled {
        v.sig = Some(("C09:v2:stuck".into(), "kanata did not return to idle with every key up".into()));
        return v;
    }
    let acct = match accounting(c, ins, obs) {
        Ok(a) => a,
        Err((k, what)) => {
            v.sig = Some((format!("C09:v2:{k}"), what));
            return v;
        }
    };
    v.units = acct.units.clone();
    let first_press = ins.iter().filter(|e| e.press).map(|e| e.at).min().unwrap_or(0);
    for (ci, _, sp, arr) in &acct.fired {
        let from_idle = arr.iter().map(|x| x.1).min() == Some(first_press);
        let lag = if from_idle { 0 } else { R_DELAY as u64 + 2 * s.presses.len() as u64 };
        if *sp > tb.timeout(*ci) as u64 + lag {
            v.sig = Some(("C09:v2:fired-outside-window".into(), format!("{} fired although its participants' presses span {} ticks (its timeout is {})", unit_name(10 + *ci as u8, tb), sp, tb.timeout(*ci))));
            return v;
        }
    }
    if let Some(ci) = exact {
        // is every press early enough for every chord that was still possible before it?
        let presses: Vec<&InEv> = ins.iter().filter(|e| e.press).collect();
        let mut so_far = 0u8;
        let mut determined = true;
        let mut ruled_out_shorter = false;
        for (i, p) in presses.iter().enumerate() {
            if i > 0 {
                let possible: Vec<usize> = (0..tb.chords.len()).filter(|x| tb.chords[*x] & so_far == so_far).collect();
                let min_t = possible.iter().map(|x| tb.timeout(*x)).min().unwrap_or(0) as u64;
                // one tick of margin: the tick in which a timeout expires is not decided by the guide
                if p.at - first_press + 1 >= min_t {
                    determined = false;
                }
                if (0..tb.chords.len()).any(|x| !possible.contains(&x) && (tb.timeout(x) as u64) < p.at - first_press + 2) {
                    ruled_out_shorter = true;
                }
            }
            so_far |= 1 << p.key;
        }
        if determined {
            v.class = if ruled_out_shorter { "mixed-positive-after-shorter-chord-ruled-out" } else { "mixed-positive" };
            v.expected = unit_name(10 + ci as u8, tb);
            if acct.units != vec![10 + ci as u8] {
                v.sig = Some((
                    "C09:v2:mixed-timeouts:positive:not-fired".into(),
                    format!(
                        "all keys of {} pressed before any still-possible chord's timeout, but the outcome was [{}]",
                        v.expected,
                        acct.units.iter().map(|u| unit_name(*u, tb)).collect::<Vec<_>>().join(", ")
                    ),
                ));
                return v;
            }
        } else {
            v.class = "mixed-undetermined";
        }
    }
    for (ci, at, _, arr) in &acct.fired {
        let rels: Vec<u64> = arr.iter().map(|(k, _)| rel_at[*k]).collect();
        let t_rule = if c.first_release() { rels.iter().copied().min().unwrap_or(0) } else { rels.iter().copied().max().unwrap_or(0) };
        let Some(up) = obs.iter().find(|o| !o.down && o.id == 10 + *ci as u8 && o.at >= *at).map(|o| o.at) else { continue };
        let lo = (*at).max(t_rule + 1);
        let slack = (R_DELAY * (acct.fired.len().max(1) as u32) + 2 * s.presses.len() as u32 + 2) as u64;
        let hi = (*at).max(t_rule) + slack;
        if up < lo {
            v.sig = Some(("C09:v2:chord-released-early".into(), format!("{} released in tick {up}, before the release rule allows", unit_name(10 + *ci as u8, tb))));
            return v;
        }
        if up > hi {
            v.sig = Some(("C09:v2:chord-released-late".into(), format!("{} released in tick {up}, more than {slack} ticks after its release rule was met (tick {t_rule})", unit_name(10 + *ci as u8, tb))));
            return v;
        }
    }
    v
}

// ------------------------------------------------------------------------------------------------
// running

fn new_sim(c: &Conf) -> Result<Sim, String> {
    let mut sim = Sim::new(&c.text())?;
    if c.on_l2 {
        sim.press(osc("n"));
        sim.ticks(3);
        sim.release(osc("n"));
        settle(&mut sim, 30, 400);
    }
    Ok(sim)
}

fn run_scen(sim: &mut Sim, c: &Conf, s: &Scen, nm: &Names) -> (Vec<Obs>, Vec<String>, bool) {
    sim.trace.clear();
    sim.last_step_start = 0;
    let base = sim.now;
    let mut scan = VScan::default();
    for (k, g) in &s.presses {
        for _ in 0..*g {
            sim.tick();
            scan.after_tick(sim, base, nm);
        }
        sim.press(osc(KEYS[*k]));
    }
    for (k, g) in &s.releases {
        for _ in 0..*g {
            sim.tick();
            scan.after_tick(sim, base, nm);
        }
        sim.release(osc(KEYS[*k]));
    }
    let min = (c.tb().t + R_DELAY + 8) as u64 + if c.counting { 12 } else { 0 };
    let settled = settle_scan(sim, min, 600, &mut scan, base, nm);
    let (o, r) = collect(sim, base, nm);
    (scan.merge_into(o), r, settled)
}

// ------------------------------------------------------------------------------------------------
// a hub key that takes part in many chords

const WIDE_VARIANTS: usize = 6;
const WIDE_PARTNERS: [&str; 20] = ["a", "b", "c", "d", "e", "f", "g", "h", "i", "j", "k", "l", "m", "n", "o", "p", "q", "r", "s", "t"];
const WIDE_OUT: [&str; 20] = ["1", "2", "3", "4", "5", "6", "7", "8", "9", "0", "f13", "f14", "f15", "f16", "f17", "f18", "f19", "f20", "f21", "f22"];

/// variant: bit 0 = release behaviour, then the number of partner chords: 15 / 17 / 20
fn wide_shape(w: usize) -> (bool, usize) {
    (w % 2 == 1, [15, 17, 20][(w / 2) % 3])
}

fn wide_cfg(w: usize) -> String {
    let (first_release, n) = wide_shape(w);
    let mut s = format!("(defcfg process-unmapped-keys yes concurrent-tap-hold yes)\n(defsrc spc {})\n(deflayer base spc {})\n(defchordsv2\n", WIDE_PARTNERS[..n].join(" "), WIDE_PARTNERS[..n].join(" "));
    for i in 0..n {
        // written hub-first for even and partner-first for odd chords
        let keys = if i % 2 == 0 { format!("spc {}", WIDE_PARTNERS[i]) } else { format!("{} spc", WIDE_PARTNERS[i]) };
        s.push_str(&format!("  ({keys}) {} 40 {} ()\n", WIDE_OUT[i], if first_release { "first-release" } else { "all-released" }));
    }
    s.push_str(")\n");
    s
}

/// Every chord of the hub key, in both press orders, with gaps 0 / 1 / 20 (< timeout 40): exactly that
/// chord's output is pressed once and released; neither the hub key nor the partner is output.
fn wide_case(w: usize, out: &mut CaseOut) {
    let (_, n) = wide_shape(w);
    let cfg = wide_cfg(w);
    let Ok(mut sim) = Sim::new(&cfg) else {
        out.violate("C09:v2:wide:config-rejected", "a hub key with many two-key chords was rejected".to_string(), json!({"config": cfg, "history": "", "observed": "rejected", "expected": "accepted"}));
        return;
    };
    let hub = osc("spc");
    let mut reported = false;
    for i in 0..n {
        for hub_first in [true, false] {
            for gap in [0u32, 1, 20] {
                let partner = osc(WIDE_PARTNERS[i]);
                let (k1, k2) = if hub_first { (hub, partner) } else { (partner, hub) };
                let h = vec![Ev::P(k1), Ev::T(gap), Ev::P(k2), Ev::T(30), Ev::R(k1), Ev::T(2), Ev::R(k2)];
                sim.trace.clear();
                sim.last_step_start = 0;
                let base = sim.now;
                sim.run(&h);
                settle(&mut sim, 60, 600);
                let want = code_name(osc(WIDE_OUT[i]));
                let downs: Vec<String> = sim.trace.iter().filter(|o| matches!(o.kind, OutKind::Down)).map(|o| o.name.clone()).collect();
                let ok = downs == vec![want.clone()] && sim.os.all_up();
                out.inc("wide_scenarios");
                if hub_first {
                    out.inc("wide_scenarios_hub_pressed_first");
                }
                if i >= 16 {
                    out.inc("wide_scenarios_chord_listed_17th_or_later");
                }
                if !ok && !reported {
                    reported = true;
                    let raw: Vec<String> = sim.trace.iter().map(|o| format!("{:?}{}@{}", o.kind, o.name, o.at - base)).collect();
                    out.violate(
                        "C09:v2:wide:positive:not-fired",
                        format!("hub key with {n} chords: {} did not give exactly chord #{i} ({})", render_hist(&h), want),
                        json!({"config": cfg, "history": render_hist(&h), "observed": raw, "expected": format!("press and release of {want} only")}),
                    );
                }
                if !ok {
                    match Sim::new(&cfg) {
                        Ok(s2) => sim = s2,
                        Err(_) => return,
                    }
                }
            }
        }
    }
}

fn parser_dup_case(out: &mut CaseOut) {
    // a chord that lists a key twice, or more keys than the runtime can track, must be rejected
    // (accepted, it overflowed the 16-slot list of an active chord's keys and panicked at run time)
    let seventeen = "a b c d e f g h i j k l m n o p q";
    for (what, keys) in [
        ("lists a key twice", "a a b".to_string()),
        ("lists a key twice (last)", "a b b".to_string()),
        ("lists one key 16 times", format!("{} b", vec!["a"; 16].join(" "))),
        ("has 17 distinct keys", seventeen.to_string()),
    ] {
        let all = "a b c d e f g h i j k l m n o p q";
        let cfg = format!("(defcfg process-unmapped-keys yes concurrent-tap-hold yes)\n(defsrc {all})\n(deflayer base {all})\n(defchordsv2\n  ({keys}) 1 20 all-released ()\n)\n");
        out.inc("parser_malformed_key_lists");
        if Sim::new(&cfg).is_ok() {
            out.violate(
                "C09:v2:malformed-key-list-accepted",
                format!("a chord that {what} was accepted"),
                json!({"config": cfg, "history": "", "observed": "accepted", "expected": "rejected: a chord's keys are a set of at most 16 keys"}),
            );
            return;
        }
    }
    // the same key set written in two different orders must be rejected ("The list must be unique per chord")
    let sets: [&[&str]; 4] = [&["a", "b"], &["a", "b", "c"], &["b", "c", "d"], &["a", "b", "c", "d"]];
    for set in sets {
        let items: Vec<usize> = (0..set.len()).collect();
        for p in 1..factorial(set.len()) {
            let perm = nth_perm(&items, p);
            let k1 = set.join(" ");
            let k2 = perm.iter().map(|i| set[*i]).collect::<Vec<_>>().join(" ");
            let cfg = format!("(defcfg process-unmapped-keys yes concurrent-tap-hold yes)\n(defsrc a b c d)\n(deflayer base a b c d)\n(defchordsv2\n  ({k1}) 1 20 all-released ()\n  ({k2}) 2 20 all-released ()\n)\n");
            out.inc("parser_permuted_duplicate_sets");
            if Sim::new(&cfg).is_ok() {
                out.violate(
                    "C09:v2:permuted-duplicate-key-set-accepted",
                    format!("({k1}) and ({k2}) are the same key set but both were accepted as different chords"),
                    json!({"config": cfg, "history": "", "observed": "accepted", "expected": "rejected: participating key sets must be unique"}),
                );
                return;
            }
            // and the written order alone is accepted
            let cfg1 = format!("(defcfg process-unmapped-keys yes concurrent-tap-hold yes)\n(defsrc a b c d)\n(deflayer base a b c d)\n(defchordsv2\n  ({k2}) 2 20 all-released ()\n)\n");
            if Sim::new(&cfg1).is_err() {
                out.violate(
                    "C09:v2:key-order-rejected",
                    format!("({k2}) rejected"),
                    json!({"config": cfg1, "history": "", "observed": "rejected", "expected": "accepted"}),
                );
                return;
            }
        }
    }
}

/// Watches kanata's key state for v2 chord activations (they live at virtual coordinates above
/// KEY_MAX). An activation of a chord whose witness key is already down does not show in the OS
/// stream; it is reported as a synthetic "merged" press so that the accounting can see it.
#[derive(Default)]
struct VScan {
    present: Vec<u16>,
    synth: Vec<Obs>,
}
impl VScan {
    fn after_tick(&mut self, sim: &Sim, base: u64, nm: &Names) {
        use kanata_keyberon::layout::State;
        let mut now_present: Vec<u16> = vec![];
        for st in sim.k.layout.b().states.iter() {
            if let State::NormalKey { keycode, coord, .. } = st {
                if coord.0 == 0 && coord.1 > 767 {
                    now_present.push(coord.1);
                    if !self.present.contains(&coord.1) {
                        let name = format!("{:?}", keycode);
                        if let Some(i) = nm.wit.iter().position(|n| *n == name) {
                            // visible in the OS stream of this tick?
                            let visible = sim.last().iter().any(|o| o.kind == OutKind::Down && o.name == name && !o.repress);
                            if !visible {
                                if std::env::var("KV_DEBUG").is_ok() { eprintln!("synth at {} coord {} last={:?} states={:?}", sim.now - base, coord.1, sim.last().iter().map(|o| o.short()).collect::<Vec<_>>(), sim.k.layout.b().states); }
                                self.synth.push(Obs { at: sim.now - base, down: true, id: 10 + i as u8, merged: true });
                            }
                        }
                    }
                }
            }
        }
        self.present = now_present;
    }
    fn merge_into(&self, obs: Vec<Obs>) -> Vec<Obs> {
        if self.synth.is_empty() {
            return obs;
        }
        let mut all = obs;
        for s in &self.synth {
            // after the outputs of the same tick (releases come first within a tick)
            let pos = all.iter().position(|o| o.at > s.at).unwrap_or(all.len());
            all.insert(pos, s.clone());
        }
        all
    }
}

fn settle_scan(sim: &mut Sim, min_ticks: u64, max_ticks: u64, scan: &mut VScan, base: u64, nm: &Names) -> bool {
    let start = sim.now;
    loop {
        let quiet = sim.trace.last().map(|o| sim.now - o.at >= 3).unwrap_or(true);
        if sim.now - start >= min_ticks && sim.is_idle() && sim.os.all_up() && v2_accepts(sim) && quiet {
            return true;
        }
        if sim.now - start >= max_ticks {
            return false;
        }
        sim.tick();
        scan.after_tick(sim, base, nm);
    }
}

fn drive_random(sim: &mut Sim, h: &[Ev], tb: &Table, nm: &Names) -> (Vec<InEv>, Vec<Obs>, Vec<String>, bool) {
    sim.trace.clear();
    sim.last_step_start = 0;
    let base = sim.now;
    let mut ins = vec![];
    let mut scan = VScan::default();
    for e in h {
        match e {
            Ev::P(code) | Ev::R(code) => {
                let key = if *code == osc(XKEY) {
                    5
                } else if *code == osc(BLOCKER) {
                    BLOCKER_KEY
                } else {
                    KEYS.iter().position(|k| osc(k) == *code).unwrap_or(5)
                };
                let overflow = sim.k.layout.b().queue.len() >= LAYOUT_QUEUE_SLOTS;
                ins.push(InEv { at: sim.now - base, key, press: matches!(e, Ev::P(_)), overflow });
                sim.apply(e);
            }
            Ev::T(n) => {
                for _ in 0..*n {
                    sim.tick();
                    scan.after_tick(sim, base, nm);
                }
            }
            _ => {}
        }
    }
    let settled = settle_scan(sim, (tb.t + R_DELAY + 8) as u64, 800, &mut scan, base, nm);
    let (obs, raw) = collect(sim, base, nm);
    let obs = scan.merge_into(obs);
    (ins, obs, raw, settled)
}

fn random_case(ctx: &Ctx, ridx: u64, out: &mut CaseOut) {
    let mut rng = Rng::for_case(ctx.seed, "C09", "random", ridx);
    let confs = configs();
    let c = &confs[rng.usize(confs.len())];
    let nm = names();
    let cfg = c.text();
    let tb = c.tb();
    let Ok(mut sim) = new_sim(c) else {
        out.inconclusive = Some("config rejected".into());
        return;
    };
    let ver = if c.v2 { "v2" } else { "v1" };
    let mut keys: Vec<u16> = (0..tb.nkeys).map(|k| osc(KEYS[k])).collect();
    keys.push(osc(XKEY));
    if tb.nkeys < 5 && rng.coin() {
        keys.push(osc(KEYS[tb.nkeys]));
    }
    if c.blocker {
        keys.push(osc(BLOCKER));
    }
    let gaps = [0u32, 1, 1, 2, 3, tb.t - 1, tb.t, tb.t + 1, 3 * tb.t];
    for hi in 0..8 {
        let n = 4 + rng.usize(30);
        let mut h = hist::consistent(&mut rng, &keys, n, &gaps, false);
        if hi % 4 == 1 {
            // flood: 1-3 group keys go down, then (after 0-2 ticks, i.e. with the chord still
            // pending or just decided) 16-19 zero-gap taps of the key outside the group arrive,
            // which overflows the 32-slot layout queue once or several times; nothing may be
            // swallowed, and every press is accounted for exactly once as for any other history
            h.clear();
            let ng = 1 + rng.usize(3.min(tb.nkeys));
            let mut gk: Vec<usize> = (0..tb.nkeys).collect();
            rng.shuffle(&mut gk);
            gk.truncate(ng);
            for (i, k) in gk.iter().enumerate() {
                if i > 0 && rng.chance(1, 3) {
                    h.push(Ev::T(1));
                }
                h.push(Ev::P(osc(KEYS[*k])));
            }
            let lead = *rng.pick(&[0u32, 0, 1, 2]);
            if lead > 0 {
                h.push(Ev::T(lead));
            }
            for _ in 0..16 + rng.usize(4) {
                h.push(Ev::P(osc(XKEY)));
                h.push(Ev::R(osc(XKEY)));
            }
            h.push(Ev::T(*rng.pick(&[1u32, tb.t, 3 * tb.t])));
            rng.shuffle(&mut gk);
            for k in &gk {
                h.push(Ev::R(osc(KEYS[*k])));
                h.push(Ev::T(*rng.pick(&[0u32, 1, 9])));
            }
            out.inc("random_flood_histories");
        }
        let flood = hi % 4 == 1;
        let (mut ins, mut obs, raw, settled) = drive_random(&mut sim, &h, tb, &nm);
        if flood {
            // a tap that is pushed out of the full queue is processed between two ticks and never
            // shows at the OS - that is the queue's behaviour for any key and not a statement about
            // chords: the flooding key is left out of the accounting, the group keys are judged
            ins.retain(|e| e.key != 5);
            obs.retain(|o| o.id != 5);
        }
        out.inc("random_histories");
        out.count("random_events", ins.len() as u64);
        let mut sig: Option<(String, String)> = None;
        if !settled {
            sig = Some((format!("C09:{ver}:stuck"), "kanata did not return to idle with every key up".into()));
        } else {
            match accounting(c, &ins, &obs) {
                Ok(a) => {
                    out.count("random_chords_fired", a.fired.len() as u64);
                    out.count("random_chord_completions_while_witness_down", a.merged);
                    out.count("random_keys_individual", a.units.iter().filter(|u| **u < 10).count() as u64);
                    if c.blocker {
                        out.inc("random_histories_with_blocker_key");
                        out.count("random_blocker_key_decisions", a.units.iter().filter(|u| **u as usize == BLOCKER_KEY).count() as u64);
                    }
                    if !a.fired.is_empty() {
                        out.tag(format!("rnd|{}|{}", c.label(), a.units.iter().map(|u| u.to_string()).collect::<Vec<_>>().join(",").chars().take(40).collect::<String>()));
                    }
                }
                Err((k, what)) => sig = Some((format!("C09:{ver}:{k}"), format!("(random history) {what}"))),
            }
        }
        if let Some((sig, what)) = sig {
            // confirm on a fresh instance
            let mut confirmed = true;
            if hi > 0 {
                if let Ok(mut fresh) = new_sim(c) {
                    let (mut i2, mut o2, _, st) = drive_random(&mut fresh, &h, tb, &nm);
                    if flood {
                        i2.retain(|e| e.key != 5);
                        o2.retain(|o| o.id != 5);
                    }
                    confirmed = !st || accounting(c, &i2, &o2).is_err();
                }
            }
            if confirmed {
                out.violate(sig, format!("{}: {what}", c.label()), json!({"config": cfg, "history": render_hist(&h), "observed": raw, "expected": "every press accounted for exactly once by its own key or by one fired chord; nothing else; everything released"}));
            } else {
                out.inc("random_mismatch_not_reproduced_on_fresh_instance");
                out.inconclusive = Some("a mismatch on a re-used instance did not reproduce on a fresh one".into());
            }
            match new_sim(c) {
                Ok(s2) => sim = s2,
                Err(_) => return,
            }
        }
    }
}

impl Check for C09Check {
    fn id(&self) -> &'static str {
        "C09"
    }
    fn n_cases(&self, ctx: &Ctx) -> u64 {
        layout(ctx).len() as u64 + n_random(ctx)
    }
    fn describe(&self, ctx: &Ctx, idx: u64) -> Value {
        let lay = layout(ctx);
        match lay.get(idx as usize) {
            Some(CaseKind::Exh(ci, a, b)) => json!({"config": configs()[*ci].text(), "scenarios": format!("exhaustive scenarios #{a}..#{b}")}),
            Some(CaseKind::ParserDup) => json!({"kind": "parser duplicate key sets"}),
            Some(CaseKind::Delayed(ci, a, b)) => json!({"config": configs()[*ci].text(), "scenarios": format!("delayed-start scenarios #{a}..#{b} (group keys typed behind an undecided tap-hold)")}),
            Some(CaseKind::Wide(w)) => json!({"kind": "hub key with many chords", "variant": w, "config": wide_cfg(*w)}),
            Some(CaseKind::Carry(ci, a, b)) => json!({"config": configs()[*ci].text(), "scenarios": format!("held-over scenarios #{a}..#{b} (a group key held from an earlier chord is released among the presses of the next one)")}),
            Some(CaseKind::Overlap(o)) => json!({"kind": "overlapping chord activations (defchordsv2)", "index": o}),
            _ => json!({"kind": "random histories", "index": idx - lay.len() as u64}),
        }
    }
    fn run_case(&self, ctx: &Ctx, idx: u64) -> CaseOut {
        let mut out = CaseOut::new();
        let lay = layout(ctx);
        let kind = match lay.get(idx as usize) {
            Some(k) => k.clone(),
            None => CaseKind::Random((idx - lay.len() as u64) as usize),
        };
        let (ci, a, b) = match kind {
            CaseKind::Wide(w) => {
                wide_case(w, &mut out);
                return out;
            }
            CaseKind::ParserDup => {
                parser_dup_case(&mut out);
                return out;
            }
            CaseKind::Delayed(ci, a, b) => {
                delayed::run_chunk(ctx, ci, a, b, &mut out);
                return out;
            }
            CaseKind::Carry(ci, a, b) => {
                carry::run_chunk(ctx, ci, a, b, &mut out);
                return out;
            }
            CaseKind::Overlap(o) => {
                overlap::run_case(ctx, o, &mut out);
                return out;
            }
            CaseKind::Random(r) => {
                random_case(ctx, r as u64, &mut out);
                return out;
            }
            CaseKind::Exh(ci, a, b) => (ci, a, b),
        };
        let confs = configs();
        let c = &confs[ci];
        let tb = c.tb();
        let nm = names();
        let cfg = c.text();
        let mut sim = match new_sim(c) {
            Ok(s) => s,
            Err(e) => {
                out.inconclusive = Some(format!("config rejected: {}", e.lines().next().unwrap_or("")));
                return out;
            }
        };
        let wl = work(ctx, c);
        let ver = if c.v2 { "v2" } else { "v1" };
        let mut reported: std::collections::BTreeSet<String> = Default::default();
        let mut off = 0u64;
        for (m, cnt, space) in wl {
            let lo = a.max(off);
            let hi = b.min(off + cnt);
            let mut i = lo;
            while i < hi {
                let local = i - off;
                let sidx = if cnt < space { (local.wrapping_mul(STRIDE)) % space } else { local };
                let keys = mask_keys(m);
                let s = make_scen(&keys, tb, sidx);
                let (obs, raw, settled) = run_scen(&mut sim, c, &s, &nm);
                let mut v = judge_scen(c, &s, &obs, settled);
                let mut raw = raw;
                if v.sig.is_some() {
                    // confirm on a fresh instance
                    match new_sim(c) {
                        Ok(mut fresh) => {
                            let (o2, r2, st2) = run_scen(&mut fresh, c, &s, &nm);
                            let v2 = judge_scen(c, &s, &o2, st2);
                            if v2.sig.is_none() {
                                out.inc("mismatch_not_reproduced_on_fresh_instance");
                                out.inconclusive = Some("a mismatch on a re-used instance did not reproduce on a fresh one".into());
                            }
                            v = v2;
                            raw = r2;
                        }
                        Err(_) => {}
                    }
                    if let Ok(s2) = new_sim(c) {
                        sim = s2;
                    }
                }
                out.inc("scenarios");
                out.inc(&format!("{ver}_scenarios"));
                out.inc(&format!("{ver}_class_{}", v.class));
                if c.v2 && (m >> tb.nkeys) != 0 {
                    out.inc("v2_scenarios_with_bystander");
                }
                if v.units.iter().any(|u| *u >= 10) {
                    out.inc(&format!("{ver}_scenarios_with_chord_fired"));
                }
                if !c.v2 && v.class != "positive" && v.units.len() > 1 && v.units.iter().any(|u| *u >= 10) {
                    out.inc("v1_decompositions_with_sub_chord");
                }
                out.tag(format!("{}|{:05b}|{}|{}", c.label(), m, v.class, v.units.iter().map(|u| u.to_string()).collect::<Vec<_>>().join(",")));
                if let Some((sig, what)) = &v.sig {
                    if reported.insert(sig.clone()) {
                        out.violate(
                            sig.clone(),
                            format!("{} [{}] {}: {what}", c.label(), v.class, render_hist(&s.hist())),
                            json!({"config": cfg, "history": render_hist(&s.hist()), "scenario_class": v.class, "observed": raw, "expected": v.expected, "note": "ticks are relative to the first press"}),
                        );
                    }
                    if ctx.verbose {
                        eprintln!("{sig}: {} -> {:?}", render_hist(&s.hist()), raw);
                    }
                }
                if out.sample.is_none() && a == 0 && v.class == "positive" && s.presses.len() >= 3 && ci % 5 == 1 {
                    out.sample = Some(json!({"config": cfg, "history": render_hist(&s.hist()), "class": v.class, "observed": raw}));
                }
                i += 1;
            }
            off += cnt;
            if off >= b {
                break;
            }
        }
        out
    }
    fn rule(&self) -> String {
        "case = one configuration (8 chord tables over 2-5 participating keys: single pair, sub-chord + superset, overlapping pairs with an undefined superset, lone triple, two overlapping triples, pairs + quad, chain of 2/3/4, five-key chord with sub-chords; three defchordsv2-only tables whose chords have different timeouts, an unrelated chord on the same key having a much shorter or longer one; each as a defchords group with single-key chords and as defchordsv2 with all-released / first-release, on the base layer and on a layer where every other chord is disabled; participants written in non-sorted order) and a chunk of its scenario space: for every non-empty subset of the participating keys (subsets of up to 3 keys complete in both tiers; quick: 4-key subsets sampled, 40 000 of 288 000 scenarios each, with a fixed stride; thorough: 4-key subsets complete, 5-key subsets 300 000 of 36 M with a fixed stride; the sampling does not depend on the seed) every permutation of press order x every combination of inter-press gaps from {0,1,T-1,T,T+1} x every permutation of release order x hold {0,1,T+3} x inter-release gap {0,2,9}; for defchordsv2 additionally every chord plus one bystander key (a plain key that is in no chord) in the same scenario space; plus random physically consistent histories mixing chord keys, a non-chord key and an unrelated key (accounting oracle only); plus one parser case (permuted duplicate key sets must be rejected); plus six defchordsv2 configurations in which one hub key takes part in 15 / 17 / 20 two-key chords, every chord in both press orders with gaps 0/1/20; plus the delayed-start family: the 8 single-timeout tables (defchords group, defchordsv2 all-released and first-release) on a layer that also has a blocker key z = (tap-hold TH TH z y) with TH = 14T+60: z is pressed first and stays undecided while, for every subset of up to 4 participating keys, the keys are pressed in every order with every combination of inter-press gaps from {0,1,T-1,T,T+1,2T,3T,4T}; the blocker is then decided by its release (pressed 0/1/6 ticks before the first group key, released 1/2/9 ticks after the last queued event) or by its hold timeout (running out 1/2/9 ticks after the last queued event); the group keys are released in every order, hold {0,1,T+3}, inter-release gap {0,9}, either after the decision or before it (queued behind the blocker too); one- and two-key subsets complete in both tiers, larger subsets sampled with a fixed stride (defchords: quick 2 400 / thorough 40 000 per subset, defchordsv2: 800 / 8 000); the random histories also draw the blocker configurations, with z among the keys. Non-trivial = scenario ran and was judged; distinct = (configuration, pressed subset, scenario class, sequence of fired units). Every fourth random history is a flood: 1-3 group keys go down and, with the chord still pending or just decided, 16-19 zero-gap taps of the key outside the group overflow the 32-slot layout queue; the group keys are judged by the accounting oracle (not swallowed, order kept, chord consumed its keys), the flooding key is not (a tap pushed out of the full queue is processed between two ticks and never shows at the OS, for any key). Plus the held-over family (defchords groups; the 7 single-timeout tables with at least 3 keys, on the layer with the blocker key): every choice of one or two carried group keys, pressed together and left alone for 3T+10 ticks so that their press is consumed, then every set of 1-3 other group keys pressed in every order, the release of each carried key placed at every position among those presses, consecutive events {0,1,3,T-1,T+1} ticks apart; typed at an idle kanata, or queued behind the blocker that is then decided by its release / by its hold timeout (1 or 9 ticks after the last event); the new keys released in every order, hold {1,T+3}, gap {0,9}; sampled per (carried keys, new keys) with a fixed stride (quick 150 / 600 / 2 400 scenarios for 1 / 2 / 3 new keys, thorough 1 500 / 8 000 / 40 000; seed-independent). Plus the overlapping-activations family (defchordsv2): six tables of chords that can be held side by side - two disjoint pairs; ab, bc, ad; a ring of five pairs; ab, cd, ae, ce; abc, de, ad, be; ab, abc, de - each all-released, first-release and alternating per chord; per configuration 24 (thorough 400) cases of 40 histories; a history is a walk of 6-21 steps (start a chord whose keys are all up, its keys going down 0-2 ticks apart in any order / let go of one held key / let go of every held key of one chord / press a single key, the key outside every chord included), 0, 1, 2, 3, 8 or T+8 ticks between steps, everything released at the end; even-numbered cases use a fixed generator seed, odd-numbered ones the run's seed.".into()
    }
    fn assumptions(&self) -> Vec<String> {
        vec![
            "all chords of a table share one timeout, except in the three mixed-timeout defchordsv2 tables, where a scenario is judged must-fire only if every press arrives before the shortest timeout among the chords still possible before it (otherwise accounting only); scenarios start from idle with chord processing enabled (after the chords-v2-min-idle window), so no scenario straddles that window at its start; presses that fall into the window opened by an earlier non-chord activation of the same scenario are only judged by the accounting oracle".into(),
            "window convention as measured (appendix A): v1 participants must arrive < T after the first, v2 <= T".into(),
            "release slack: rapid-event-delay per fired chord + 2 x number of keys + 2 ticks (+3 when the chord action also taps a counting virtual key) after the release rule is met".into(),
            "v1 tables define a single-key chord for every participating key, so a vanished key is always a swallowed key; the v1 release rule is only judged for undecomposed chords (the guide calls the other cases implementation-defined)".into(),
            "v1: a group of presses that does not start from idle starts when its first press is processed (earlier keys are replayed one per tick); scenarios where a press falls within that lag of such a group's window end, and counting configurations where an earlier chord already fired (its virtual-key tap is a queued non-chord press), are judged by accounting only; for the same reason a chord whose first participant did not arrive at idle may fire with a span of up to T + rapid-event-delay + 2 x keys".into(),
            "v2 negative scenarios are judged by accounting only (which sub-chords fire depends on press order by design)".into(),
            "delayed-start family: a press that waited in the queue behind the undecided blocker keeps its arrival time for the window (v1 convention as measured on the tree: a queued press joins the group iff it arrived <= T after the group's first press, a press arriving at a running chord iff < T; a distance of exactly T is not judged; later groups of the same scenario have the lag zone of the from-idle family); a chord may fire with an arrival span of up to its window + rapid-event-delay + 2 x (keys + 1), as for every group that does not start from idle; which output (tap or hold) the blocker itself produces is not judged, only that it is delivered exactly once and first; defchordsv2 with a blocker is judged by accounting, the window clause and released-early only (the blocker is a non-chord key and opens the chords-v2-min-idle window, in which chords are skipped by design)".into(),
            "held-over family: the reference grouping takes the release of any key of the group as the end of the collection (guide: a chord triggers by a key release); phase 2 typed at an idle kanata is judged like a scenario from idle, phase 2 queued behind the blocker like the delayed-start family (distance of exactly T not judged, lag zone for groups after the first); the chord of the carried keys themselves is judged by 'released after the last of them, at most 2 x rapid-event-delay + 2 x (keys + 1) + 2 ticks later, plus rapid-event-delay + 3 per queued event once the blocker is decided'".into(),
            "overlapping-activations family: the release rule of an activation is computed from the presses the accounting assigns to it (each participant's first release after that press); an activation is not judged by it when one of its keys had more than one press that was not yet accounted for when it fired (the OS stream does not say which press was consumed) or when the same chord completed again before its action went up (a release takes a few ticks to reach the OS: one uninterrupted press, judged at the later activation); upper bound = 3 x rapid-event-delay + 12 ticks after the rule is met, judged only where at most 8 key events arrived in the 30 ticks before and the slack after (the release waits in the layout's queue behind the events in front of it); must-fire is judged for episodes without any other press within T+8 ticks before the first or after the first press of the episode (clear of the chords-v2-min-idle window of earlier keys); how long after the completing press a chord fires is not judged".into(),
            "accounting: when a key of a fired chord has several unaccounted presses every combination of 'earliest' / 'latest that had arrived' per fired chord (up to 10 chords) is tried before an inconsistency is reported".into(),
            "many scenarios run on one kanata instance separated by idle periods; a mismatch is re-judged on a fresh instance".into(),
        ]
    }
    fn floors(&self, ctx: &Ctx) -> Vec<(&'static str, u64)> {
        let _ = ctx;
        vec![
            ("v1_class_positive", 5_000),
            ("random_flood_histories", 1_000),
            ("wide_scenarios", 500),
            ("wide_scenarios_chord_listed_17th_or_later", 30),
            ("v2_scenarios_with_bystander", 5_000),
            ("v2_class_mixed-positive", 2_000),
            ("v2_class_mixed-positive-after-shorter-chord-ruled-out", 300),
            ("v2_class_positive", 20_000),
            ("v1_class_too-slow", 1_000),
            ("v2_class_too-slow", 4_000),
            ("v2_class_disabled-layer", 4_000),
            ("v1_class_incomplete", 1_000),
            ("v2_class_incomplete", 4_000),
            ("v1_class_undefined-superset", 1_000),
            ("v2_class_undefined-superset", 4_000),
            ("v1_decompositions_with_sub_chord", 1_000),
            ("random_chords_fired", 200),
            ("parser_permuted_duplicate_sets", 10),
            ("parser_malformed_key_lists", 4),
            // delayed-start family: the queue really was blocked while keys were typed far apart, the
            // far-apart keys came out individually, both ways of deciding the blocker, releases queued too
            ("v1_delayed_scenarios", 100_000),
            ("v2_delayed_scenarios", 50_000),
            ("v1_delayed_group_presses_2x_to_4x_timeout_apart", 40_000),
            ("v1_delayed_far_apart_keys_delivered_individually", 30_000),
            ("v1_class_delayed-positive", 4_000),
            ("v1_class_delayed-too-slow", 8_000),
            ("v1_delayed_outcomes_compared_with_reference", 60_000),
            ("v1_delayed_scenarios_with_chord_fired", 10_000),
            ("v2_delayed_scenarios_with_chord_fired", 4_000),
            ("delayed_blocker_decided_by_release", 60_000),
            ("delayed_blocker_decided_by_hold_timeout", 60_000),
            ("delayed_group_releases_queued_behind_blocker", 60_000),
            ("random_blocker_key_decisions", 500),
            // held-over family: the carried key really was let go in the middle of a collection, the keys
            // before it were no chord of their own (decomposed), with the later press already queued; all
            // three ways of typing phase 2; compared with the reference
            ("v1_carry_scenarios", 150_000),
            ("v1_carry_two_keys_held_over", 40_000),
            ("v1_carry_typed_at_idle_kanata", 40_000),
            ("v1_carry_queued_behind_blocker_decided_by_release", 40_000),
            ("v1_carry_queued_behind_blocker_decided_by_hold_timeout", 40_000),
            ("v1_carry_held_over_key_released_mid_collection", 40_000),
            ("v1_carry_undefined_key_set_cut_by_held_over_release", 6_000),
            ("v1_carry_undefined_key_set_cut_with_later_press_already_queued", 5_000),
            ("v1_carry_outcomes_compared_with_reference", 120_000),
            ("v1_carry_scenarios_with_chord_fired", 25_000),
            // overlapping-activations family: chords really were held together, in a non-nested way and on
            // the remaining key of an all-released chord; both bounds of the release rule and must-fire judged
            ("overlap_histories", 15_000),
            ("overlap_chords_fired", 50_000),
            ("overlap_histories_with_two_or_more_chords_held_together", 6_000),
            ("max_overlap_chords_held_together", 3),
            ("overlap_activations_after_older_of_two_held_chords_was_released", 1_000),
            ("overlap_activations_with_key_let_go_by_still_active_chord", 500),
            ("overlap_activations_judged_by_release_rule", 30_000),
            ("overlap_activations_judged_by_release_upper_bound", 20_000),
            ("overlap_isolated_episodes_judged_must_fire", 15_000),
        ]
    }
    fn exhaustive(&self, _ctx: &Ctx) -> bool {
        true
    }
}
