//! C10 end-to-end, "keys held by a running macro" family: the key tests of `fork` and of `switch`
//! (bare key names = active output keys) must see every key that kanata currently holds down at
//! the OS, whoever holds it: a physical key mapped to it, a `multi`, a virtual key - or a running
//! `macro` (`(macro S-(x 200 y))` holds lsft for 200 ms).
//!
//! A scenario has one or two macros with output-chord-prefixed groups (one or two modifiers held
//! around taps and delays, nested groups, `macro` / `macro-release-cancel`), optionally the same or
//! other modifiers held by a physical key / a `multi` / a virtual key, a fork tree, the switch that
//! is equivalent to that fork tree, and a switch with random and/or/not expressions over key names.
//! The scenario is first run without a probe to learn when which key goes down and up at the OS;
//! then, in a fresh kanata each time, the fork key / the equivalent switch key / the random switch
//! key is pressed at offsets next to every kind of edge, in the middle of holds, between the two
//! macros and after everything is released.
//!
//! Oracle: a key is active iff it is down in the OS model (built from kanata's own output) when the
//! probe key arrives; a probe during whose processing one of the keys named in the fork / switch
//! changes at the OS is not judged. fork, the equivalent switch and the model must all agree.

use super::e2e::{eval_fk, render_fk, Fk};
use super::model::*;
use super::WITNESS;
use crate::core::rng::Rng;
use crate::core::sim::{code_name, osc, render_hist, Ev, OutKind, Sim};
use crate::core::{CaseOut, Ctx};
use serde_json::{json, Value};
use std::collections::BTreeSet;

const NMODS: usize = 5;
const MOD_PREFIX: [&str; NMODS] = ["S-", "C-", "A-", "RS-", "M-"];
const I_X: usize = 5;
const I_A: usize = 7;
const I_B: usize = 8;

fn universe() -> U {
    let keys = ["lsft", "lctl", "lalt", "rsft", "lmet", "x", "y", "a", "b"].iter().map(|n| (n.to_string(), osc(n))).collect();
    U { keys, vkeys: vec!["vk0".into()], layers: vec!["l0".into()] }
}

#[derive(Clone, Debug)]
enum MItem {
    Tap(usize),
    Delay(u32),
    Group(Vec<usize>, Vec<MItem>),
}

fn render_items(v: &[MItem], u: &U, s: &mut String) {
    for (i, it) in v.iter().enumerate() {
        if i > 0 {
            s.push(' ');
        }
        match it {
            MItem::Tap(k) => s.push_str(&u.keys[*k].0),
            MItem::Delay(d) => s.push_str(&d.to_string()),
            MItem::Group(m, inner) => {
                for x in m {
                    s.push_str(MOD_PREFIX[*x]);
                }
                s.push('(');
                render_items(inner, u, s);
                s.push(')');
            }
        }
    }
}

fn gen_group(rng: &mut Rng, outer: &[usize], depth: usize) -> MItem {
    let free: Vec<usize> = (0..NMODS).filter(|m| !outer.contains(m)).collect();
    let nm = if rng.chance(1, 3) { 2 } else { 1 };
    let mut mods: Vec<usize> = vec![];
    for _ in 0..nm {
        let c: Vec<usize> = free.iter().copied().filter(|m| !mods.contains(m)).collect();
        if !c.is_empty() {
            mods.push(*rng.pick(&c));
        }
    }
    // the prefix is parsed by repeatedly scanning a fixed table; write it in table order
    mods.sort();
    let n = rng.range(1, 4);
    let mut inner = vec![];
    let mut has_delay = false;
    for _ in 0..n {
        match rng.usize(6) {
            0 | 1 => inner.push(MItem::Tap(I_X + rng.usize(2))),
            2 | 3 | 4 => {
                inner.push(MItem::Delay(*rng.pick(&[5u32, 20, 50, 100, 200])));
                has_delay = true;
            }
            _ => {
                if depth < 2 && free.len() > mods.len() {
                    let mut o = outer.to_vec();
                    o.extend(&mods);
                    inner.push(gen_group(rng, &o, depth + 1));
                } else {
                    inner.push(MItem::Tap(I_X + rng.usize(2)));
                }
            }
        }
    }
    if !has_delay && depth == 1 {
        let at = rng.usize(inner.len() + 1);
        inner.insert(at, MItem::Delay(*rng.pick(&[20u32, 50, 100, 200])));
    }
    MItem::Group(mods, inner)
}

fn gen_macro(rng: &mut Rng) -> Vec<MItem> {
    let n = rng.range(1, 3);
    let mut v = vec![];
    let mut has_group = false;
    for _ in 0..n {
        match rng.usize(6) {
            0 => v.push(MItem::Tap(I_X + rng.usize(2))),
            1 => v.push(MItem::Delay(*rng.pick(&[5u32, 20, 50]))),
            _ => {
                v.push(gen_group(rng, &[], 1));
                has_group = true;
            }
        }
    }
    if !has_group {
        v.push(gen_group(rng, &[], 1));
    }
    v
}

fn macro_mods(v: &[MItem], out: &mut BTreeSet<usize>) {
    for it in v {
        if let MItem::Group(m, inner) = it {
            out.extend(m.iter().copied());
            macro_mods(inner, out);
        }
    }
}

fn fk_triggers(f: &Fk, out: &mut BTreeSet<usize>) {
    if let Fk::Fork(l, r, t) = f {
        out.extend(t.iter().copied());
        fk_triggers(l, out);
        fk_triggers(r, out);
    }
}

fn gen_fork(rng: &mut Rng, next_w: &mut usize, depth: usize, pool: &[usize]) -> Fk {
    if depth == 0 {
        let w = *next_w;
        *next_w += 1;
        return Fk::W(w);
    }
    let sub = |rng: &mut Rng, next_w: &mut usize| if rng.chance(1, 3) { gen_fork(rng, next_w, depth - 1, pool) } else { gen_fork(rng, next_w, 0, pool) };
    let l = sub(rng, next_w);
    let r = sub(rng, next_w);
    let n = *rng.pick(&[1usize, 1, 1, 2, 3]);
    let t: Vec<usize> = (0..n).map(|_| *rng.pick(pool)).collect();
    Fk::Fork(Box::new(l), Box::new(r), t)
}

/// the switch that is equivalent to a fork tree: one breaking case per leaf, its condition the
/// conjunction of "one of the triggers" / "none of the triggers" along the path
fn fork_as_switch(f: &Fk, path: &mut Vec<E>, out: &mut Vec<(Vec<E>, Fk, bool)>) {
    match f {
        Fk::W(i) => {
            let items = match path.as_slice() {
                [] => vec![],
                // the outer-most list is an `or` already
                [E::Or(v)] => v.clone(),
                p => vec![E::And(p.to_vec())],
            };
            out.push((items, Fk::W(*i), true));
        }
        Fk::Fork(l, r, t) => {
            let keys: Vec<E> = t.iter().map(|k| E::Key(*k)).collect();
            path.push(E::Not(keys.clone()));
            fork_as_switch(l, path, out);
            path.pop();
            path.push(E::Or(keys));
            fork_as_switch(r, path, out);
            path.pop();
        }
    }
}

fn expr_keys(e: &E, out: &mut BTreeSet<usize>) {
    match e {
        E::Or(v) | E::And(v) | E::Not(v) => v.iter().for_each(|x| expr_keys(x, out)),
        E::Key(k) => {
            out.insert(*k);
        }
        _ => {}
    }
}

fn restrict(e: &mut E, rng: &mut Rng, pool: &[usize]) {
    match e {
        E::Or(v) | E::And(v) | E::Not(v) => v.iter_mut().for_each(|x| restrict(x, rng, pool)),
        E::Key(k) => *k = *rng.pick(pool),
        E::Input(i) => *i = Inp::Real(if rng.coin() { I_A } else { I_B }),
        _ => *e = E::Key(*rng.pick(pool)),
    }
}

pub(super) struct Sc {
    cfg: String,
    u: U,
    fork: Fk,
    sw_equiv: Vec<(Vec<E>, Fk, bool)>,
    sw_rand: Vec<(Vec<E>, Fk, bool)>,
    /// (arrival time, event), sorted by time
    base: Vec<(u64, Ev)>,
    /// arrival time of the (first) macro key
    t0: u64,
    two_macros: bool,
    release_cancel: bool,
    /// modifier output of key p, of the multi on key u, of vk0
    mod_p: usize,
    mod_u: [usize; 2],
    mod_v: usize,
    macro_mods: BTreeSet<usize>,
}

fn make(ctx: &Ctx, r: u64) -> Sc {
    let mut rng = Rng::for_case(ctx.seed, "C10", "macro", r);
    let u = universe();
    let m1 = gen_macro(&mut rng);
    let m2 = gen_macro(&mut rng);
    let release_cancel = rng.chance(1, 6);
    let two_macros = rng.chance(1, 3);
    let mut mm = BTreeSet::new();
    macro_mods(&m1, &mut mm);
    if two_macros {
        macro_mods(&m2, &mut mm);
    }
    let mmv: Vec<usize> = mm.iter().copied().collect();
    // physical holders: mostly a modifier that a macro also uses
    let pick_mod = |rng: &mut Rng| if rng.chance(2, 3) { *rng.pick(&mmv) } else { rng.usize(NMODS) };
    let mod_p = pick_mod(&mut rng);
    let mod_u = [pick_mod(&mut rng), rng.usize(NMODS)];
    let mod_v = pick_mod(&mut rng);
    // trigger / key-name pool: the modifiers the macros hold (several times), the other names once
    let mut pool: Vec<usize> = (0..u.keys.len()).collect();
    for _ in 0..4 {
        pool.extend(&mmv);
    }
    let mut next_w = 0usize;
    let fork = gen_fork(&mut rng, &mut next_w, 2, &pool);
    let mut sw_equiv = vec![];
    fork_as_switch(&fork, &mut vec![], &mut sw_equiv);
    let o = GenOpts { max_depth: 5, leaf_w: [12, 0, 0, 2, 0, 0, 0], timing_pool: vec![], max_arity: 3 };
    let mut sw_rand = vec![];
    let ncases = rng.range(1, 5) as usize;
    for i in 0..ncases {
        let nitems = *rng.pick_weighted(&[(5u32, 1usize), (3, 2), (1, 3)]);
        let mut items = vec![];
        for _ in 0..nitems {
            let mut budget = *rng.pick(&[1i64, 3, 6, 12]);
            let mut e = gen_expr(&mut rng, &u, &o, 1, &mut budget);
            restrict(&mut e, &mut rng, &pool);
            items.push(e);
        }
        sw_rand.push((items, Fk::W(i), rng.chance(1, 3)));
    }
    sw_rand.push((vec![], Fk::W(ncases), true));

    // ---- configuration
    let mname = if release_cancel { "macro-release-cancel" } else { "macro" };
    let mut cfg = format!("(defcfg process-unmapped-keys yes)\n(defvirtualkeys vk0 {})\n(defsrc a b p u q r s f t)\n", u.keys[mod_v].0);
    let mut ms1 = String::new();
    render_items(&m1, &u, &mut ms1);
    let mut ms2 = String::new();
    render_items(&m2, &u, &mut ms2);
    cfg.push_str(&format!(
        "(deflayer l0 a b {} (multi {} {}) ({mname} {ms1}) (macro {ms2}) @sw @fk @sx)\n(defalias\n fk ",
        u.keys[mod_p].0,
        u.keys[mod_u[0]].0,
        if mod_u[1] == mod_u[0] { "nop0".to_string() } else { u.keys[mod_u[1]].0.clone() }
    ));
    render_fk(&fork, &u, &mut cfg);
    for (name, cases) in [("sw", &sw_equiv), ("sx", &sw_rand)] {
        cfg.push_str(&format!("\n {name} (switch\n"));
        for (items, act, brk) in cases.iter() {
            cfg.push_str("  ");
            cfg.push_str(&render_top(items, &u));
            cfg.push(' ');
            render_fk(act, &u, &mut cfg);
            cfg.push_str(if *brk { " break\n" } else { " fallthrough\n" });
        }
        cfg.push_str(" )");
    }
    cfg.push_str("\n)\n");

    // ---- base history
    let mut base: Vec<(u64, Ev)> = vec![];
    let mut t = 0u64;
    let mut holders: Vec<Ev> = vec![];
    if rng.chance(1, 3) {
        holders.push(Ev::P(osc("p")));
    }
    if rng.chance(1, 4) {
        holders.push(Ev::Fk("vk0".into(), 'p'));
    }
    if rng.chance(1, 5) {
        holders.push(Ev::P(osc("u")));
    }
    if rng.chance(1, 3) {
        holders.push(Ev::P(osc("a")));
    }
    if rng.chance(1, 5) {
        holders.push(Ev::P(osc("b")));
    }
    rng.shuffle(&mut holders);
    for h in &holders {
        base.push((t, h.clone()));
        t += rng.range(2, 5);
    }
    t += rng.range(3, 10);
    let t0 = t;
    base.push((t0, Ev::P(osc("q"))));
    let rel = t0 + *rng.pick(&[3u64, 30, 120, 2000]);
    base.push((rel, Ev::R(osc("q"))));
    if two_macros {
        let t1 = t0 + rng.range(0, 150);
        base.push((t1, Ev::P(osc("r"))));
        base.push((t1 + 10, Ev::R(osc("r"))));
    }
    // a physical holder let go while the macros run
    if !holders.is_empty() && rng.chance(1, 3) {
        let h = rng.pick(&holders).clone();
        let e = match h {
            Ev::P(c) => Ev::R(c),
            Ev::Fk(n, _) => Ev::Fk(n, 'r'),
            e => e,
        };
        base.push((t0 + rng.range(1, 200), e));
    }
    base.sort_by_key(|x| x.0);
    Sc { cfg, u, fork, sw_equiv, sw_rand, base, t0, two_macros, release_cancel, mod_p, mod_u, mod_v, macro_mods: mm }
}

/// apply the events that are due and tick until `to` ticks have completed
fn advance(sim: &mut Sim, evs: &[(u64, Ev)], next: &mut usize, to: u64) {
    loop {
        while *next < evs.len() && evs[*next].0 <= sim.now {
            sim.apply(&evs[*next].1);
            *next += 1;
        }
        if sim.now >= to {
            break;
        }
        sim.tick();
    }
}

fn as_hist(evs: &[(u64, Ev)], probe: Option<(u64, u16)>, end: u64) -> Vec<Ev> {
    let mut all: Vec<(u64, Ev)> = evs.iter().filter(|e| e.0 <= end).cloned().collect();
    if let Some((t, c)) = probe {
        let pos = all.iter().position(|e| e.0 > t).unwrap_or(all.len());
        all.insert(pos, (t, Ev::P(c)));
    }
    let mut out = vec![];
    let mut now = 0u64;
    for (t, e) in all {
        if t > now {
            out.push(Ev::T((t - now) as u32));
            now = t;
        }
        out.push(e);
    }
    if end > now {
        out.push(Ev::T((end - now) as u32));
    }
    out
}

pub fn describe(ctx: &Ctx, r: u64) -> Value {
    let sc = make(ctx, r);
    json!({"part": "e2e keys held by a macro", "config": sc.cfg, "history_without_probe": render_hist(&as_hist(&sc.base, None, sc.t0 + 400)), "probe_keys": ["f", "s", "t"]})
}

const WINDOW: u64 = 12;

pub fn run(out: &mut CaseOut, ctx: &Ctx, r: u64) {
    let sc = make(ctx, r);
    out.inc("macro_scenarios");
    let u = &sc.u;
    let names: Vec<String> = u.keys.iter().map(|k| code_name(k.1)).collect();
    // ---- dry run: when does which key change at the OS
    let mut sim = match Sim::new(&sc.cfg) {
        Ok(s) => s,
        Err(e) => {
            out.violate(
                "C10:rejected-valid-switch",
                format!("the parser rejected a switch/fork/macro that is valid by the guide: {}", e.lines().next().unwrap_or("")),
                json!({"config": sc.cfg, "history": "", "observed": e, "expected": "accepted"}),
            );
            return;
        }
    };
    let mut next = 0;
    let last_ev = sc.base.iter().filter(|e| e.0 < 1000).map(|e| e.0).max().unwrap_or(0);
    advance(&mut sim, &sc.base, &mut next, last_ev + 1);
    let mut guard = 0;
    while !sim.is_idle() && guard < 1500 {
        sim.tick();
        guard += 1;
    }
    let edges: Vec<u64> = sim.trace.iter().filter(|o| o.at > sc.t0 && matches!(o.kind, OutKind::Down | OutKind::Up) && names.contains(&o.name)).map(|o| o.at).collect();
    // the macros are over when the last key they pressed is up again (physical holders may stay down)
    let t_end = edges.iter().copied().max().unwrap_or(sc.t0 + 1);
    // ---- probe offsets
    let mut rng = Rng::for_case(ctx.seed, "C10", "macro-probe", r);
    let mut offs: Vec<u64> = vec![];
    let mut uniq = edges.clone();
    uniq.dedup();
    for _ in 0..3 {
        if !uniq.is_empty() {
            let e = *rng.pick(&uniq);
            offs.push((e + rng.range(0, 5)).saturating_sub(3).max(sc.t0));
        }
    }
    let mut mids: Vec<u64> = uniq.windows(2).filter(|w| w[1] - w[0] >= 8).map(|w| w[0] + 2 + rng.below(w[1] - w[0] - 5)).collect();
    rng.shuffle(&mut mids);
    offs.extend(mids.iter().take(3));
    offs.push(sc.t0 + rng.range(0, (t_end - sc.t0).max(1)));
    offs.push(t_end + *rng.pick(&[3u64, 10, 40]));
    offs.sort();
    offs.dedup();

    let wnames: Vec<String> = WITNESS.iter().map(|w| code_name(osc(w))).collect();
    let probes: [(&str, &str); 3] = [("f", "fork"), ("s", "switch-equivalent-to-fork"), ("t", "switch")];
    for to in offs {
        // what is physically held when the probe arrives
        let mut phys: BTreeSet<usize> = BTreeSet::new();
        let mut coords: Vec<(u8, u16)> = vec![];
        {
            let mut down: BTreeSet<String> = BTreeSet::new();
            for (t, e) in &sc.base {
                if *t > to {
                    break;
                }
                match e {
                    Ev::P(c) => {
                        down.insert(code_name(*c));
                    }
                    Ev::R(c) => {
                        down.remove(&code_name(*c));
                    }
                    Ev::Fk(_, 'p') => {
                        down.insert("vk0".into());
                    }
                    Ev::Fk(_, _) => {
                        down.remove("vk0");
                    }
                    _ => {}
                }
            }
            let is = |n: &str| down.contains(&code_name(osc(n)));
            if is("p") {
                phys.insert(sc.mod_p);
            }
            if is("u") {
                phys.insert(sc.mod_u[0]);
                phys.insert(sc.mod_u[1]);
            }
            if down.contains("vk0") {
                phys.insert(sc.mod_v);
            }
            for (n, i) in [("a", I_A), ("b", I_B)] {
                if is(n) {
                    phys.insert(i);
                    coords.push((0, osc(n)));
                }
            }
        }
        let mut fork_obs: Option<Vec<usize>> = None;
        for (pk, pname) in probes {
            let mut sim = match Sim::new(&sc.cfg) {
                Ok(s) => s,
                Err(_) => return,
            };
            let mut next = 0;
            advance(&mut sim, &sc.base, &mut next, to);
            let snapshot: BTreeSet<String> = sim.os.keys_down.clone();
            let mark = sim.trace.len();
            sim.press(osc(pk));
            advance(&mut sim, &sc.base, &mut next, to + WINDOW);
            let mut observed: Vec<usize> = vec![];
            let mut n_w: Option<u64> = None;
            for o in &sim.trace[mark..] {
                if o.kind == OutKind::Down {
                    if let Some(p) = wnames.iter().position(|w| *w == o.name) {
                        observed.push(p);
                        n_w.get_or_insert(o.at);
                    }
                }
            }
            // keys named by what is probed
            let mut named: BTreeSet<usize> = BTreeSet::new();
            match pk {
                "t" => sc.sw_rand.iter().flat_map(|c| c.0.iter()).for_each(|e| expr_keys(e, &mut named)),
                _ => fk_triggers(&sc.fork, &mut named),
            }
            // did one of them change at the OS while the probe was being processed?
            let until = n_w.unwrap_or(to + WINDOW);
            let unstable = sim.trace[mark..]
                .iter()
                .any(|o| o.at <= until && matches!(o.kind, OutKind::Down | OutKind::Up) && named.iter().any(|k| names[*k] == o.name));
            if unstable {
                out.inc("macro_probe_unjudged_named_key_changes_during_processing");
                continue;
            }
            let active: Vec<u16> = (0..u.keys.len()).filter(|i| snapshot.contains(&names[*i])).map(|i| u.keys[i].1).collect();
            let macro_only: Vec<usize> = (0..u.keys.len()).filter(|i| snapshot.contains(&names[*i]) && !phys.contains(i)).collect();
            let without_macro: Vec<u16> = (0..u.keys.len()).filter(|i| snapshot.contains(&names[*i]) && phys.contains(i)).map(|i| u.keys[i].1).collect();
            let expect = |act: &[u16]| -> Vec<usize> {
                match pk {
                    "f" => vec![eval_fk(&sc.fork, u, act)],
                    _ => {
                        let cases = if pk == "s" { &sc.sw_equiv } else { &sc.sw_rand };
                        let conds: Vec<(Vec<E>, bool)> = cases.iter().map(|c| (c.0.clone(), c.2)).collect();
                        let st = St { active: act.to_vec(), coords: coords.clone(), layers: vec![0], ..Default::default() };
                        firing(&conds, u, &[0], &st).iter().map(|i| eval_fk(&cases[*i].1, u, act)).collect()
                    }
                }
            };
            let want = expect(&active);
            let want_without = expect(&without_macro);
            // ---- evidence
            out.inc("macro_probes_judged");
            out.inc(match pk {
                "f" => "macro_probes_fork",
                "s" => "macro_probes_switch_equivalent_to_fork",
                _ => "macro_probes_switch_random_key_expressions",
            });
            let named_macro_only = named.iter().any(|k| macro_only.contains(k));
            if named_macro_only {
                out.inc("macro_probe_named_key_held_only_by_macro");
            }
            if named.iter().any(|k| phys.contains(k) && sc.macro_mods.contains(k) && to > sc.t0 && to < t_end) {
                out.inc("macro_probe_named_key_held_physically_while_macro_runs");
            }
            if want != want_without {
                out.inc(match pk {
                    "f" => "macro_fork_branch_decided_by_macro_held_key",
                    "s" => "macro_switch_equivalent_decided_by_macro_held_key",
                    _ => "macro_switch_random_decided_by_macro_held_key",
                });
            }
            if to > t_end {
                out.inc("macro_probe_after_macros_ended");
                if !sc.macro_mods.is_empty() && named.iter().any(|k| sc.macro_mods.contains(k) && !active.contains(&u.keys[*k].1)) {
                    out.inc("macro_probe_after_end_named_macro_key_is_up");
                }
            } else {
                out.inc("macro_probe_while_macro_runs");
            }
            if sc.two_macros {
                out.inc("macro_probe_two_macros");
            }
            if sc.release_cancel {
                out.inc("macro_probe_release_cancel_variant");
            }
            if pk == "f" {
                if let Fk::Fork(_, _, t) = &sc.fork {
                    out.inc(if t.iter().any(|k| active.contains(&u.keys[*k].1)) { "macro_fork_right" } else { "macro_fork_left" });
                }
            }
            out.tag(format!("macro:{pname}:{}:{}:{}", if to > t_end { "after" } else { "during" }, named_macro_only as u8, (want != want_without) as u8));
            let w = |v: &[usize]| v.iter().map(|i| WITNESS[*i]).collect::<Vec<_>>();
            let hist = || render_hist(&as_hist(&sc.base, Some((to, osc(pk))), to + WINDOW));
            if ctx.verbose {
                eprintln!("config:\n{}\nhistory: {}\nOS model at probe: {:?}\ntrace: {:?}", sc.cfg, hist(), snapshot, sim.trace_short());
            }
            if observed != want {
                let class = if observed == want_without {
                    ":key-held-only-by-macro-not-seen"
                } else if to > t_end {
                    ":after-macro-end"
                } else {
                    ""
                };
                out.violate(
                    format!("C10:e2e:macro:{}{class}", if pk == "f" { "fork-branch" } else { "switch-key-test" }),
                    format!(
                        "{pname} pressed while the OS holds {:?} (held only by a macro: {:?}) performed {:?}, expected {:?}",
                        snapshot,
                        macro_only.iter().map(|k| u.keys[*k].0.as_str()).collect::<Vec<_>>(),
                        w(&observed),
                        w(&want)
                    ),
                    json!({
                        "config": sc.cfg, "history": hist(), "probe_key": pk, "observed": w(&observed), "expected": w(&want),
                        "keys_down_in_OS_model_when_probe_arrives": snapshot, "of_these_held_only_by_a_macro": macro_only.iter().map(|k| u.keys[*k].0.as_str()).collect::<Vec<_>>(),
                        "trace": sim.trace_json(),
                    }),
                );
            }
            match pk {
                "f" => fork_obs = Some(observed.clone()),
                "s" => {
                    if let Some(fo) = &fork_obs {
                        out.inc("macro_fork_and_equivalent_switch_compared");
                        if *fo != observed {
                            out.violate(
                                "C10:e2e:macro:fork-and-equivalent-switch-disagree",
                                format!("in the same state fork performed {:?} and the equivalent switch {:?}", w(fo), w(&observed)),
                                json!({"config": sc.cfg, "history": hist(), "observed": {"fork": w(fo), "switch": w(&observed)}, "expected": w(&want), "keys_down_in_OS_model_when_probe_arrives": snapshot}),
                            );
                        }
                    }
                }
                _ => {}
            }
            if r % 100 == 5 && out.sample.is_none() && named_macro_only {
                out.sample = Some(json!({"part": "e2e keys held by a macro", "config": sc.cfg, "history": hist(), "probe": pname, "observed_witnesses": w(&observed), "keys_down_in_OS_model_when_probe_arrives": snapshot}));
            }
        }
    }
}
