//! C06 — not implemented yet (stub so that the registry compiles).

use crate::core::{CaseOut, Check, Ctx};

pub struct C06Check;
pub static C06: C06Check = C06Check;

impl Check for C06Check {
    fn id(&self) -> &'static str {
        "C06"
    }
    fn n_cases(&self, _ctx: &Ctx) -> u64 {
        0
    }
    fn run_case(&self, _ctx: &Ctx, _idx: u64) -> CaseOut {
        CaseOut::new()
    }
    fn rule(&self) -> String {
        "not implemented".into()
    }
    fn assumptions(&self) -> Vec<String> {
        vec![]
    }
}
