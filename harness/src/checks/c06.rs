//! C06 — one-shot applies to exactly the next key, or expires; it never lingers.
//!
//! Part 1: every schedule of up to N events over three keys (one or two one-shot keys of one end
//! variant, one or two plain keys) with gaps {0,1,T-1,T,T+1} is compared tick by tick with the
//! one-shot reference model (DESIGN.md appendix E.3); on five schedule families the statement is
//! additionally read directly off the OS stream (first following key modified iff it arrives in
//! time, second following key never modified, expiry tick, held one-shot key acts as the plain key,
//! pcancel re-press, stacking restarts the timeout).
//! Part 2: long random histories that stack 17-40 one-shot taps (the table holds 16), judged by
//! invariants only: what the first following key sees, the second following key and a late probe
//! key unmodified, nothing down and nothing pending at the end. In a third of the histories the two
//! plain keys overlap and the later-pressed one is released first and pressed again: that press
//! must be plain whatever the variant.
//! Part 3 (exhaustive): ONE one-shot key (key, layer, output chord) and TWO plain follow-up keys.
//! The one-shot key is tapped (release processed in the next tick or the one after), held to the
//! end, or tapped while a plain key is already down; then EVERY interleaving of 2..=K presses and
//! releases of the two plain keys follows (K = 5 quick, 6 thorough), the first follow-up event after
//! every gap in {0,1,T-1,T,T+1}, the others after every gap in {0,1,rapid-event-delay+1}. Judged per
//! tick by the reference model (a release variant ends at the first release of ANY key pressed after
//! the one-shot - first-pressed or not -, never at the release of a key held since before it) and,
//! independently of the model, by families (g)/(h) read off the OS stream: while the one-shot key is
//! held every key is modified; after a tap the first key pressed afterwards is modified iff in time;
//! press variants: no later key is; release variants: keys pressed before that first release are
//! (iff in time), no key pressed after it is. Families (g)/(h) also judge every schedule of part 1
//! that has this form.
//! Part 4 (systematic; gaps and random orders from the seed; c06_restack.rs): the SAME one, two or
//! three one-shot keys (key, output chord, layer in three assignments; three timeouts) pressed 15..=20
//! or 33 times (thorough: 14..=40) within ONE activation - round-robin, random order, blocks, one long
//! run followed by the others - so that
//! the 16-entry table overflows and the pushed-out entry belongs to a key that is still active; all
//! four end variants; then a plain key in time or after the timeout, a second plain key and a late
//! probe, with the last one-shot press released or HELD. Judged off the OS stream by the statement:
//! the first following key is modified by exactly the one-shots still active (+ the held key), later
//! keys only by a key that is physically held, a held one-shot key stays down while it is held.
//! Two defects of the unchanged tree in that area are recorded as known findings under signatures
//! with a structural precondition (findings/C06-overflow-release-of-held-key-deferred.md,
//! findings/C06-deferred-release-list-overflow.md).
//! Part 5 (exhaustive, seed-independent; c06_nonkey.rs): the keys that FOLLOW the one-shot are not
//! key-code keys. ONE one-shot key (lctl, output chord C-lalt, layer-while-held), TWO follower keys
//! whose action is a custom action (mouse button, mouse button tap, wheel, mouse movement, unicode,
//! arbitrary-code, caps-word, unshift / unmod) or another non-key action (layer-while-held, XX,
//! macro, layer-switch, output chord, release-key) - 14 kinds, every kind next to two others - and
//! ONE plain key. The one-shot key is tapped or held; then EVERY sequence of 2..=4 (thorough: 5 for
//! T=3) presses and releases of the three other keys follows, so every kind is the first, the second
//! and the third following key, overlapping and released in any order, all four end variants. Judged
//! per tick by the reference model, in which such a key is "another key" exactly like a plain one, on
//! the one-shot's own key codes and the plain key's outputs; and without the model off the OS
//! stream: what every follower press that shows in the output (plain key, button down, wheel /
//! movement event, unicode, arbitrary code, the key of unshift / of the output chord) meets.

use super::c04::util::*;
use crate::core::rng::Rng;
use crate::core::sim::{code_name, render_hist, Ev, Sim};
use crate::core::{CaseOut, Check, Ctx, Tier};
use serde_json::{json, Value};
use std::collections::VecDeque;

pub struct C06Check;
pub static C06: C06Check = C06Check;

#[path = "c06_restack.rs"]
mod restack;
#[path = "c06_nonkey.rs"]
mod nonkey;

// ------------------------------------------------------------------ configuration description

#[derive(Clone, Copy, Debug, PartialEq, Eq)]
pub enum End {
    Press,
    Release,
    PressPc,
    ReleasePc,
}
pub const ENDS: [End; 4] = [End::Press, End::Release, End::PressPc, End::ReleasePc];
impl End {
    fn name(self, alias: bool) -> &'static str {
        match self {
            End::Press => {
                if alias {
                    "one-shot"
                } else {
                    "one-shot-press"
                }
            }
            End::Release => "one-shot-release",
            End::PressPc => "one-shot-press-pcancel",
            End::ReleasePc => "one-shot-release-pcancel",
        }
    }
    fn is_press(self) -> bool {
        matches!(self, End::Press | End::PressPc)
    }
    fn is_pc(self) -> bool {
        matches!(self, End::PressPc | End::ReleasePc)
    }
}

/// what a physical key does
#[derive(Clone, Debug, PartialEq)]
pub enum Role {
    /// one-shot of a key or an output chord (the key codes it holds down)
    OsKeys(Vec<&'static str>),
    /// one-shot of (layer-while-held l1)
    OsLayer,
    /// plain key: output on the base layer, output on l1
    Plain(&'static str, &'static str),
    /// an ordinary (non-one-shot) key whose action is not a key code: custom action (mouse button,
    /// wheel, unicode, ...), layer-while-held, no-op, macro ... It writes none of the judged key codes
    /// but is "another key" for every one-shot (part 5)
    NonKey,
}

#[derive(Clone, Debug)]
pub struct P {
    pub shape: usize,
    pub end: End,
    pub t: u16,
    pub red: u16,
}

fn shape_roles(shape: usize) -> [Role; 3] {
    match shape {
        0 => [Role::OsKeys(vec!["lsft"]), Role::OsKeys(vec!["lctl"]), Role::Plain("c", "c")],
        1 => [Role::OsLayer, Role::Plain("b", "1"), Role::Plain("c", "2")],
        2 => [Role::OsKeys(vec!["lctl", "lalt"]), Role::OsLayer, Role::Plain("c", "2")],
        // shapes 3 and 4 (one one-shot key, two plain follow-up keys) are used by the follow-up part only
        3 => [Role::OsKeys(vec!["lsft"]), Role::Plain("b", "b"), Role::Plain("c", "c")],
        _ => [Role::OsKeys(vec!["lctl", "lalt"]), Role::Plain("b", "b"), Role::Plain("c", "c")],
    }
}

fn render_os(end: End, alias: bool, t: u16, r: &Role) -> String {
    match r {
        Role::OsKeys(v) if v.len() == 1 => format!("({} {t} {})", end.name(alias), v[0]),
        Role::OsKeys(v) => {
            let mut s = String::new();
            for m in &v[..v.len() - 1] {
                s.push_str(match *m {
                    "lsft" => "S-",
                    "lctl" => "C-",
                    "lalt" => "A-",
                    "ralt" => "RA-",
                    _ => "M-",
                });
            }
            s.push_str(v[v.len() - 1]);
            format!("({} {t} {s})", end.name(alias))
        }
        Role::OsLayer => format!("({} {t} (layer-while-held l1))", end.name(alias)),
        Role::Plain(b, _) => b.to_string(),
        Role::NonKey => "XX".to_string(),
    }
}

impl P {
    pub fn roles(&self) -> [Role; 3] {
        shape_roles(self.shape)
    }
    /// timeout of one-shot key `k`: in shape 2 the second one-shot key has a timeout 2 ms longer, so
    /// that "the timeout restarts at the value of the most recently pressed one-shot key" is visible
    pub fn t_of(&self, k: usize) -> u16 {
        if self.shape == 2 && k == 1 {
            self.t + 2
        } else {
            self.t
        }
    }
    pub fn render(&self) -> String {
        let roles = self.roles();
        let mut s = String::new();
        if self.red != 5 {
            s.push_str(&format!("(defcfg rapid-event-delay {})\n", self.red));
        }
        s.push_str("(defsrc a b c)\n");
        let alias = self.t % 2 == 1;
        s.push_str(&format!("(deflayer l0 {})\n", roles.iter().enumerate().map(|(i, r)| render_os(self.end, alias, self.t_of(i), r)).collect::<Vec<_>>().join(" ")));
        if roles.iter().any(|r| *r == Role::OsLayer) {
            s.push_str(&format!("(deflayer l1 {})\n", roles.iter().map(|r| if let Role::Plain(_, a) = r { a.to_string() } else { "_".to_string() }).collect::<Vec<_>>().join(" ")));
        }
        s
    }
    fn label(&self) -> String {
        format!("s{}:{}:T{}:r{}", self.shape, self.end.name(false), self.t, self.red)
    }
}

// ------------------------------------------------------------------ reference model (appendix E.3)

#[derive(Clone, Copy, Debug, PartialEq)]
enum StK {
    Key(u16),
    Layer,
}

pub struct Model {
    p: P,
    roles: Vec<Role>,
    q: VecDeque<(bool, usize)>,
    pause: u16,
    st: Vec<(usize, StK)>,
    diff: OsDiff,
    keys: VecDeque<usize>,
    released: VecDeque<usize>,
    other: VecDeque<usize>,
    timeout: u16,
    rel_next: bool,
    pub ends_by_timeout: u64,
    pub ends_by_input: u64,
    pub max_stack: u64,
    pub activations: u64,
    /// release variants: endings caused by the release of a follow-up key that was NOT the first
    /// key pressed after the one-shot
    pub ends_by_later_follower_release: u64,
    /// release variants: releases of a key held since before the one-shot (must not end it)
    pub preheld_releases_ignored: u64,
}

impl Model {
    pub fn new(p: P) -> Self {
        let roles = p.roles().to_vec();
        Self::with_roles(p, roles)
    }
    /// the same model over any number of physical keys (part 5: one-shot key, two followers of any
    /// kind, one plain key)
    pub fn with_roles(p: P, roles: Vec<Role>) -> Self {
        Model { p, roles, q: VecDeque::new(), pause: 0, st: vec![], diff: OsDiff::default(), keys: VecDeque::new(), released: VecDeque::new(), other: VecDeque::new(), timeout: 0, rel_next: false, ends_by_timeout: 0, ends_by_input: 0, max_stack: 0, activations: 0, ends_by_later_follower_release: 0, preheld_releases_ignored: 0 }
    }
    pub fn push(&mut self, press: bool, c: usize) {
        self.q.push_back((press, c));
    }
    pub fn quiescent(&self) -> bool {
        self.q.is_empty() && self.keys.is_empty() && self.st.is_empty() && self.pause == 0 && self.diff.all_up()
    }
    fn do_release(&mut self, c: usize) {
        let do_rel = if self.keys.is_empty() {
            true
        } else if !self.keys.contains(&c) {
            // a release variant ends at the first release of ANY key pressed after the one-shot
            // (not only of the first such key); a key held since before the one-shot does not count
            if !self.p.end.is_press() {
                if self.other.contains(&c) {
                    if !self.rel_next && self.other.front() != Some(&c) {
                        self.ends_by_later_follower_release += 1;
                    }
                    self.rel_next = true;
                } else if matches!(self.roles[c], Role::Plain(..)) {
                    self.preheld_releases_ignored += 1;
                }
            }
            true
        } else {
            self.released.push_back(c);
            false
        };
        if do_rel {
            self.st.retain(|s| s.0 != c);
        }
    }
    pub fn tick(&mut self) -> TickOut {
        if !self.keys.is_empty() {
            self.timeout = self.timeout.saturating_sub(1);
            if self.rel_next || self.timeout == 0 {
                if self.rel_next || self.pause > 0 {
                    self.ends_by_input += 1;
                } else {
                    self.ends_by_timeout += 1;
                }
                self.rel_next = false;
                self.timeout = 0;
                self.pause = 0;
                self.keys.clear();
                self.other.clear();
                let rel: Vec<usize> = self.released.drain(..).collect();
                for c in rel {
                    self.do_release(c);
                }
            }
        }
        if self.pause > 0 {
            self.pause -= 1;
        } else if let Some((press, c)) = self.q.pop_front() {
            if !press {
                self.do_release(c);
            } else {
                match self.roles[c].clone() {
                    Role::OsKeys(v) => {
                        for k in v {
                            self.st.push((c, StK::Key(kc(k))));
                        }
                        self.os_pressed(c);
                    }
                    Role::OsLayer => {
                        self.st.push((c, StK::Layer));
                        self.os_pressed(c);
                    }
                    Role::Plain(base, alt) => {
                        let on_layer = self.st.iter().any(|s| s.1 == StK::Layer);
                        self.st.push((c, StK::Key(kc(if on_layer { alt } else { base }))));
                        self.other_key_pressed(c);
                    }
                    // "another key" whatever its action is
                    Role::NonKey => self.other_key_pressed(c),
                }
            }
        }
        let cur: Vec<u16> = self.st.iter().filter_map(|s| if let StK::Key(k) = s.1 { Some(k) } else { None }).collect();
        self.diff.step(&cur)
    }
    /// the press of a key that is not a one-shot key, while `keys` one-shots are active
    fn other_key_pressed(&mut self, c: usize) {
        if !self.keys.is_empty() {
            if self.p.end.is_press() {
                self.timeout = self.timeout.min(self.p.red);
                self.pause = self.p.red;
            } else {
                self.other.push_back(c);
            }
        }
    }
    fn os_pressed(&mut self, c: usize) {
        self.activations += 1;
        if !self.keys.is_empty() {
            if self.p.end.is_pc() && self.keys.contains(&c) {
                self.rel_next = true;
            }
            self.released.retain(|x| *x != c);
        }
        self.timeout = self.p.t_of(c);
        self.keys.push_back(c);
        self.max_stack = self.max_stack.max(self.keys.len() as u64);
    }
}

// ------------------------------------------------------------------ lockstep

/// validation aid: with KV_C06_NO_MODEL=1 the model comparison is switched off, so that a seeded break shows
/// whether the model-free stream invariants fire on their own (never set in registered runs)
fn no_model() -> bool {
    static V: std::sync::OnceLock<bool> = std::sync::OnceLock::new();
    *V.get_or_init(|| std::env::var("KV_C06_NO_MODEL").map(|v| v == "1").unwrap_or(false))
}


type OutEv = (u64, bool, u16);

#[derive(Clone, Debug)]
struct Bad {
    sig: String,
    what: String,
}

struct Lock {
    p: P,
    sim: Sim,
    model: Model,
    codes: [u16; 3],
    outs: Vec<OutEv>,
    ktrace: Vec<(u64, TickOut)>,
    mtrace: Vec<(u64, TickOut)>,
    t0: u64,
    max_kanata_stack: u64,
}

impl Lock {
    fn new(p: P, text: &str) -> Result<Lock, String> {
        let sim = Sim::new(text)?;
        Ok(Lock { model: Model::new(p.clone()), p, sim, codes: [kc("a"), kc("b"), kc("c")], outs: vec![], ktrace: vec![], mtrace: vec![], t0: 0, max_kanata_stack: 0 })
    }
    fn tick(&mut self) -> Option<Bad> {
        self.sim.tick();
        let k = kanata_outs(self.sim.last());
        let m = self.model.tick();
        let t = self.sim.now - self.t0;
        for o in &k {
            self.outs.push((t, o.0, o.1));
        }
        if self.sim.last().iter().any(|o| o.repress) {
            return Some(Bad { sig: "C06:repress".into(), what: format!("tick {t}: a key that is already down was pressed again: [{}]", fmt_tick(&k)) });
        }
        if !k.is_empty() {
            self.ktrace.push((t, k.clone()));
        }
        if !m.is_empty() {
            self.mtrace.push((t, m.clone()));
        }
        if k != m && !no_model() {
            return Some(Bad { sig: format!("C06:model:{}", classify(&k, &m)), what: format!("tick {t}: kanata wrote [{}], the one-shot model expects [{}]", fmt_tick(&k), fmt_tick(&m)) });
        }
        None
    }
    fn run(&mut self, h: &[Ev]) -> Option<Bad> {
        self.outs.clear();
        self.ktrace.clear();
        self.mtrace.clear();
        self.t0 = self.sim.now;
        for e in h {
            match e {
                Ev::T(n) => {
                    for _ in 0..*n {
                        if let Some(b) = self.tick() {
                            return Some(b);
                        }
                    }
                    self.max_kanata_stack = self.max_kanata_stack.max(self.sim.k.layout.b().oneshot.keys.len() as u64);
                }
                Ev::P(code) | Ev::R(code) => {
                    let press = matches!(e, Ev::P(_));
                    let Some(k) = self.codes.iter().position(|x| x == code) else { continue };
                    if press {
                        self.sim.press(*code);
                    } else {
                        self.sim.release(*code);
                    }
                    self.model.push(press, k);
                    if !self.sim.last().is_empty() {
                        return Some(Bad { sig: "C06:output-at-event".into(), what: "output while an input event was handled".into() });
                    }
                }
                _ => {}
            }
        }
        let bound = 3 * (self.p.t as u64 + 2 + self.p.red as u64) + 40 + 8 * h.len() as u64;
        let mut n = 0;
        while n < bound {
            if let Some(b) = self.tick() {
                return Some(b);
            }
            n += 1;
            if self.model.quiescent() && n >= 2 {
                break;
            }
        }
        if !self.model.quiescent() {
            return Some(Bad { sig: "C06:harness:model-not-quiescent".into(), what: "reference model did not settle within the drain bound".into() });
        }
        let l = self.sim.k.layout.b();
        if !l.states.is_empty() || !l.oneshot.keys.is_empty() || !l.queue.is_empty() || !self.sim.os.all_up() {
            return Some(Bad { sig: "C06:lingers".into(), what: format!("after every key was released and the timeout passed: states={:?} active one-shots={} queue={} os={}", l.states, l.oneshot.keys.len(), l.queue.len(), self.sim.os.describe()) });
        }
        None
    }
}

// ------------------------------------------------------------------ statement-level invariants on schedule families

/// for every press of one of `plain` codes: (tick, code, keys the OS held just before that press)
fn presses_with_context(outs: &[OutEv], plain: &[u16]) -> Vec<(u64, u16, Vec<u16>)> {
    let mut down: Vec<u16> = vec![];
    let mut v = vec![];
    for &(t, d, c) in outs {
        if d {
            if plain.contains(&c) {
                v.push((t, c, down.clone()));
            }
            if !down.contains(&c) {
                down.push(c);
            }
        } else {
            down.retain(|x| *x != c);
        }
    }
    v
}

/// is the press (code, held-before) of plain key `pk` modified by one-shot key `os`?
fn modified_by(roles: &[Role; 3], os: usize, pk: usize, code: u16, held: &[u16]) -> bool {
    match (&roles[os], &roles[pk]) {
        (Role::OsKeys(v), _) => v.iter().all(|k| held.contains(&kc(k))),
        (Role::OsLayer, Role::Plain(_, alt)) => code == kc(alt),
        _ => false,
    }
}

/// processing tick of every event of a schedule when nothing pauses the queue: one event per
/// tick, an event injected after p ticks is processed in tick p+1 at the earliest
fn proc_ticks(keys: &[usize], gaps: &[usize], gv: &[u32]) -> Vec<u64> {
    let mut inj = 0u64;
    let mut last = 0u64;
    let mut v = vec![];
    for i in 0..keys.len() {
        if i > 0 {
            inj += gv[gaps[i]] as u64;
        }
        let p = (inj + 1).max(last + 1);
        v.push(p);
        last = p;
    }
    v
}

/// Returns the name of the family that was judged (for evidence) and the verdict.
fn family_check(p: &P, keys: &[usize], gaps: &[usize], gv: &[u32], outs: &[OutEv]) -> Option<(&'static str, Result<(), Bad>)> {
    let roles = p.roles();
    let t = p.t as u64;
    let is_os = |k: usize| matches!(roles[k], Role::OsKeys(_) | Role::OsLayer);
    let plain_codes: Vec<u16> = roles.iter().flat_map(|r| if let Role::Plain(b, a) = r { vec![kc(b), kc(a)] } else { vec![] }).collect();
    let pr = proc_ticks(keys, gaps, gv);
    let ctx = presses_with_context(outs, &plain_codes);
    let bad = |sig: &str, what: String| Some(("violated", Err(Bad { sig: format!("C06:{sig}"), what })));
    let o = (0..3).find(|k| is_os(*k))?;
    let pk = (0..3).rev().find(|k| !is_os(*k))?;
    let desc = |i: usize| -> String {
        match ctx.get(i) {
            Some((tk, c, held)) => format!("press #{i} of {} in tick {tk} with [{}] held", code_name(*c), held.iter().map(|c| code_name(*c)).collect::<Vec<_>>().join(" ")),
            None => format!("press #{i} missing"),
        }
    };
    // (a)+(b): os down, os up, plain down, plain up, plain down
    if keys.len() >= 3 && keys[0] == o && keys[1] == o && keys[2..].iter().all(|k| *k == pk) {
        let Some(first) = ctx.first() else { return bad("a:first-key-missing", "the first following key produced no press".into()) };
        let expect = pr[2] <= t;
        let got = modified_by(&roles, o, pk, first.1, &first.2);
        if got != expect {
            return bad(
                if expect { "a:first-key-not-modified" } else { "a:first-key-modified-after-expiry" },
                format!("one-shot tapped in tick 1 (T={t}), first following key processed in tick {}: expected {}modified; {}", pr[2], if expect { "" } else { "un" }, desc(0)),
            );
        }
        if keys.len() >= 5 {
            let Some(second) = ctx.get(1) else { return bad("b:second-key-missing", "the second following key produced no press".into()) };
            if modified_by(&roles, o, pk, second.1, &second.2) {
                return bad(if p.end.is_press() { "b:second-key-modified" } else { "b:key-after-first-release-modified" }, format!("{}; {}", desc(0), desc(1)));
            }
        }
        return Some(("a-b:first-modified-iff-in-time,second-never", Ok(())));
    }
    // (c): os down, os up, nothing else: expiry tick (key / chord one-shots only)
    if keys.len() == 2 && keys[0] == o && keys[1] == o {
        if let Role::OsKeys(v) = &roles[o] {
            let code = kc(v[0]);
            let up = outs.iter().find(|e| !e.1 && e.2 == code).map(|e| e.0);
            let expect = if pr[1] <= t { 1 + t } else { pr[1] };
            if up != Some(expect) {
                return bad("c:expiry-tick", format!("one-shot pressed (processed in tick 1, T={t}), released (processed in tick {}), no other input: expected its key released in tick {expect}, observed {:?}", pr[1], up));
            }
            return Some(("c:expiry", Ok(())));
        }
        return None;
    }
    // (d): os held while the plain key is pressed twice
    if keys.len() == 5 && keys[0] == o && keys[4] == o && keys[1..4].iter().all(|k| *k == pk) {
        for i in 0..2 {
            match ctx.get(i) {
                Some((_, c, held)) if modified_by(&roles, o, pk, *c, held) => {}
                _ => return bad("d:held-one-shot-not-acting-as-plain-key", format!("one-shot key physically held; {}", desc(i))),
            }
        }
        return Some(("d:held-acts-as-plain-key", Ok(())));
    }
    // (e): os tapped twice, then the plain key
    if keys.len() == 5 && keys[..4].iter().all(|k| *k == o) && keys[4] == pk {
        let Some(first) = ctx.first() else { return bad("e:key-missing", "the following key produced no press".into()) };
        let got = modified_by(&roles, o, pk, first.1, &first.2);
        let repress_while_active = pr[2] <= t;
        let expect = if p.end.is_pc() && repress_while_active { false } else { pr[4] < pr[2] + t };
        if got != expect {
            let sig = if p.end.is_pc() && repress_while_active { "e:pcancel-repress-did-not-end" } else if expect { "e:retap-not-modified" } else { "e:retap-modified-after-expiry" };
            return bad(sig, format!("one-shot tapped (tick 1), tapped again (processed in tick {}), key processed in tick {} (T={t}): expected {}modified; {}", pr[2], pr[4], if expect { "" } else { "un" }, desc(0)));
        }
        return Some(("e:retap-or-pcancel", Ok(())));
    }
    // (f): two different one-shot keys tapped in a row, then the plain key
    let o2 = (0..3).filter(|k| is_os(*k)).nth(1);
    if let Some(o2) = o2 {
        if keys.len() == 5 && keys[0] == o && keys[1] == o && keys[2] == o2 && keys[3] == o2 && keys[4] == pk {
            let Some(first) = ctx.first() else { return bad("f:key-missing", "the following key produced no press".into()) };
            let t2 = p.t_of(o2) as u64;
            let second_in_time = pr[4] < pr[2] + t2;
            let exp1 = pr[2] <= t && second_in_time;
            let exp2 = second_in_time;
            let got1 = modified_by(&roles, o, pk, first.1, &first.2);
            let got2 = modified_by(&roles, o2, pk, first.1, &first.2);
            if got2 != exp2 {
                return bad(if exp2 { "f:stacked-second-not-applied" } else { "f:stacked-second-applied-after-expiry" }, format!("second one-shot (T={t2}) processed in tick {}, key in tick {}; {}", pr[2], pr[4], desc(0)));
            }
            if got1 != exp1 {
                return bad(
                    if exp1 { "f:stacking-did-not-restart-timeout" } else { "f:first-applied-after-expiry" },
                    format!("first one-shot (T={t}) in tick 1, second (T={t2}) processed in tick {}, key in tick {}: expected the first one-shot {}; {}", pr[2], pr[4], if exp1 { "still applied (timeout restarted by the second)" } else { "expired" }, desc(0)),
                );
            }
            return Some(("f:stacking-combines-and-restarts", Ok(())));
        }
    }
    // (g)/(h): one one-shot key, tapped (g) or held to the end (h), optionally with plain keys held
    // since before it, followed by ANY interleaving of presses and releases of plain keys. Read off
    // the OS stream: while held every key is modified; after a tap the first key pressed afterwards
    // is modified iff in time; press variants: no later key is modified; release variants: keys
    // pressed before the first release of any key pressed after the one-shot are modified (iff in
    // time), no key pressed after that release is; releasing a key held since before does not end it.
    let os_pos: Vec<usize> = (0..keys.len()).filter(|i| is_os(keys[*i])).collect();
    let tapped = os_pos.len() == 2 && os_pos[1] == os_pos[0] + 1;
    if !os_pos.is_empty() && os_pos.iter().all(|i| keys[*i] == o) && (os_pos.len() == 1 || tapped) && *os_pos.last()? + 1 < keys.len() {
        let i_os = os_pos[0];
        // every event before the one-shot press must be a press of a distinct plain key
        let mut down = [false; 3];
        for &k in &keys[..i_os] {
            if down[k] {
                return None;
            }
            down[k] = true;
        }
        let x = pr[i_os];
        let mut after = [false; 3];
        let mut n_press = i_os; // index into ctx: the pre-held keys' presses come first
        let mut first_seen = false;
        let mut ended_by_release = false;
        for i in (*os_pos.last()? + 1)..keys.len() {
            let k = keys[i];
            if down[k] {
                down[k] = false;
                if after[k] {
                    ended_by_release = true;
                }
                continue;
            }
            down[k] = true;
            after[k] = true;
            let Some(c) = ctx.get(n_press) else { return bad("g:follower-press-missing", format!("plain key press #{n_press} of the schedule produced no key press")) };
            let got = modified_by(&roles, o, k, c.1, &c.2);
            let in_time = pr[i] < x + t;
            let (expect, sig): (bool, &str) = if !tapped {
                (true, "h:held-one-shot-not-acting-as-plain-key")
            } else if !first_seen {
                (in_time, if in_time { "g:first-follower-not-modified" } else { "g:first-follower-modified-after-expiry" })
            } else if p.end.is_press() {
                (false, "g:press-variant-later-follower-modified")
            } else if ended_by_release {
                (false, "g:release-variant-press-after-first-follower-release-modified")
            } else {
                (in_time, if in_time { "g:release-variant-overlapping-follower-not-modified" } else { "g:release-variant-overlapping-follower-modified-after-expiry" })
            };
            if got != expect {
                return bad(sig, format!("one-shot {} (processed in tick {x}, T={t}), event #{i} of the schedule (processed in tick {} when nothing pauses input): expected {}modified; {}", if tapped { "tapped" } else { "held" }, pr[i], if expect { "" } else { "un" }, desc(n_press)));
            }
            first_seen = true;
            n_press += 1;
        }
        if ctx.len() != n_press {
            return bad("g:extra-plain-press", format!("{} plain key presses in the schedule, {} written", n_press, ctx.len()));
        }
        return Some((if tapped { "g:tap-then-interleaved-followers" } else { "h:held-then-interleaved-followers" }, Ok(())));
    }
    None
}

// ------------------------------------------------------------------ fresh judgement + report

struct FreshVerdict {
    bad: Option<Bad>,
    observed: Vec<String>,
    expected: Vec<String>,
}

fn fresh_judge(p: &P, text: &str, h: &[Ev], sched: Option<(&[usize], &[usize], &[u32])>) -> Option<FreshVerdict> {
    let mut l = Lock::new(p.clone(), text).ok()?;
    let mut bad = l.run(h);
    if bad.is_none() {
        if let Some((keys, gaps, gv)) = sched {
            if let Some((_, Err(b))) = family_check(p, keys, gaps, gv, &l.outs) {
                bad = Some(b);
            }
        }
    }
    if bad.is_some() {
        for _ in 0..(p.t as u64 + p.red as u64 + 4) {
            l.sim.tick();
            let k = kanata_outs(l.sim.last());
            if !k.is_empty() {
                l.ktrace.push((l.sim.now - l.t0, k));
            }
        }
    }
    Some(FreshVerdict { bad, observed: fmt_trace(&l.ktrace), expected: fmt_trace(&l.mtrace) })
}

fn report(out: &mut CaseOut, p: &P, text: &str, h: &[Ev], first: &Bad, sched: Option<(&[usize], &[usize], &[u32])>) {
    let fv = fresh_judge(p, text, h, sched);
    match fv {
        Some(FreshVerdict { bad: Some(b0), observed, expected }) => {
            // family verdicts are tied to the schedule shape: minimise only model disagreements
            let (hm, b, obs, exp) = if b0.sig.starts_with("C06:model:") || b0.sig == "C06:lingers" {
                let sig0 = b0.sig.clone();
                let hm = minimise_hist(h, &mut |c| fresh_judge(p, text, c, None).and_then(|f| f.bad).map(|b| b.sig == sig0).unwrap_or(false));
                match fresh_judge(p, text, &hm, None) {
                    Some(FreshVerdict { bad: Some(b), observed, expected }) => (hm, b, observed, expected),
                    _ => (h.to_vec(), b0, observed, expected),
                }
            } else {
                (h.to_vec(), b0, observed, expected)
            };
            out.violate(b.sig.clone(), b.what.clone(), json!({"part": "exhaustive", "config": text, "params": p.label(), "history": render_hist(&hm), "original_history": render_hist(h), "observed": obs, "expected": exp, "reproduced_on_fresh_instance": true}));
        }
        _ => {
            out.violate(
                format!("C06:carry-over:{}", first.sig.trim_start_matches("C06:")),
                format!("{} (only after earlier histories on the same instance)", first.what),
                json!({"part": "exhaustive", "config": text, "params": p.label(), "history": render_hist(h), "observed": first.what, "expected": "agreement with the model", "reproduced_on_fresh_instance": false}),
            );
        }
    }
}

// ------------------------------------------------------------------ part 2: stacked one-shots, invariants only

const N_OS: usize = 20;
const OS_PHYS: [&str; N_OS] = ["a", "b", "c", "d", "e", "f", "g", "h", "i", "j", "k", "l", "m", "n", "o", "p", "q", "r", "s", "t"];
const OS_OUT: [&str; N_OS] = ["lsft", "lctl", "lalt", "lmet", "rsft", "rctl", "ralt", "rmet", "f13", "f14", "f15", "f16", "f17", "f18", "f19", "f20", "f21", "f22", "f23", "f24"];
const PLAIN_PHYS: [&str; 2] = ["u", "v"];
/// outputs of the two plain keys on l0, l1, l2
const PLAIN_OUT: [[&str; 3]; 2] = [["u", "1", "3"], ["v", "2", "4"]];

#[derive(Clone, Debug)]
enum Kind2 {
    Keys(Vec<&'static str>),
    Layer(usize),
}

#[derive(Clone, Debug)]
struct Cfg2 {
    ends: Vec<End>,
    kinds: Vec<Kind2>,
    t: u16,
    red: u16,
    mixed: bool,
}

fn kind_of(i: usize) -> Kind2 {
    match i {
        6 => Kind2::Layer(1),
        13 => Kind2::Layer(2),
        3 => Kind2::Keys(vec!["lalt", "lmet"]),
        10 => Kind2::Keys(vec!["lctl", "f15"]),
        17 => Kind2::Keys(vec!["lsft", "f22"]),
        _ => Kind2::Keys(vec![OS_OUT[i]]),
    }
}

impl Cfg2 {
    /// the one-shot keys have three different timeouts (t, t+5, t+11)
    fn t_of(&self, i: usize) -> u16 {
        self.t + [0u16, 5, 11][i % 3]
    }
    fn render(&self) -> String {
        let mut s = String::new();
        if self.red != 5 {
            s.push_str(&format!("(defcfg rapid-event-delay {})\n", self.red));
        }
        s.push_str(&format!("(defsrc {} {})\n", OS_PHYS.join(" "), PLAIN_PHYS.join(" ")));
        let mut row = vec![];
        for i in 0..N_OS {
            let name = self.ends[i].name(i % 2 == 0);
            row.push(match &self.kinds[i] {
                Kind2::Layer(l) => format!("({name} {} (layer-while-held l{l}))", self.t_of(i)),
                Kind2::Keys(v) if v.len() == 1 => format!("({name} {} {})", self.t_of(i), v[0]),
                Kind2::Keys(v) => format!("({name} {} {}{})", self.t_of(i), match v[0] { "lalt" => "A-", "lctl" => "C-", _ => "S-" }, v[1]),
            });
        }
        s.push_str(&format!("(deflayer l0 {} {} {})\n", row.join(" "), PLAIN_OUT[0][0], PLAIN_OUT[1][0]));
        for l in 1..3 {
            s.push_str(&format!("(deflayer l{l} {} {} {})\n", vec!["_"; N_OS].join(" "), PLAIN_OUT[0][l], PLAIN_OUT[1][l]));
        }
        s
    }
}

struct Plan2 {
    cfg: Cfg2,
    /// one-shot keys tapped, in order
    taps: Vec<usize>,
    hist: Vec<Ev>,
    /// index (among plain-key presses of the history) -> what is expected of it
    distinct: bool,
    pure_expiry: bool,
    p1: usize,
    p2: usize,
    /// the two plain keys overlap: p1 down, the other key down, the other key released FIRST, the
    /// other key pressed again, released, p1 released
    overlap: bool,
}

fn plan2(seed: u64, idx: u64) -> Plan2 {
    let mut rng = Rng::for_case(seed, "C06", "stacked", idx);
    let mixed = rng.chance(3, 10);
    let e0 = *rng.pick(&ENDS);
    let ends: Vec<End> = (0..N_OS).map(|_| if mixed { *rng.pick(&ENDS) } else { e0 }).collect();
    let cfg = Cfg2 { ends, kinds: (0..N_OS).map(kind_of).collect(), t: *rng.pick(&[30u16, 200]), red: *rng.pick(&[5u16, 0, 1]), mixed };
    let distinct = rng.coin();
    let n = if distinct { 17 + rng.usize(4) } else { 17 + rng.usize(24) };
    let mut taps: Vec<usize> = if distinct {
        rng.subset(N_OS, n)
    } else {
        (0..n).map(|_| rng.usize(N_OS)).collect()
    };
    // at most 8 layer one-shot taps (fewer than 12 layers held)
    let mut layer_taps = 0;
    taps.retain(|k| {
        if matches!(kind_of(*k), Kind2::Layer(_)) {
            layer_taps += 1;
            layer_taps <= 8
        } else {
            true
        }
    });
    let code = |n: &'static str| kc(n);
    let mut h = vec![];
    for &k in &taps {
        h.push(Ev::P(code(OS_PHYS[k])));
        let g = rng.below(3) as u32;
        if g > 0 {
            h.push(Ev::T(g));
        }
        h.push(Ev::R(code(OS_PHYS[k])));
        let g = rng.below(4) as u32;
        if g > 0 {
            h.push(Ev::T(g));
        }
    }
    let pure_expiry = rng.chance(1, 6);
    let p1 = rng.usize(2);
    let p2 = rng.usize(2);
    let overlap = !pure_expiry && rng.chance(1, 3);
    if overlap {
        let q = 1 - p1;
        h.push(Ev::T(1 + rng.below(3) as u32));
        h.push(Ev::P(code(PLAIN_PHYS[p1])));
        h.push(Ev::T(rng.below(4) as u32));
        h.push(Ev::P(code(PLAIN_PHYS[q])));
        h.push(Ev::T(1 + rng.below(4) as u32));
        h.push(Ev::R(code(PLAIN_PHYS[q])));
        h.push(Ev::T(if rng.coin() { rng.below(3) as u32 } else { cfg.red as u32 + 3 + rng.below(5) as u32 }));
        h.push(Ev::P(code(PLAIN_PHYS[q])));
        h.push(Ev::T(1 + rng.below(4) as u32));
        h.push(Ev::R(code(PLAIN_PHYS[q])));
        h.push(Ev::T(1 + rng.below(3) as u32));
        h.push(Ev::R(code(PLAIN_PHYS[p1])));
    } else if !pure_expiry {
        h.push(Ev::T(1 + rng.below(3) as u32));
        h.push(Ev::P(code(PLAIN_PHYS[p1])));
        h.push(Ev::T(rng.below(12) as u32 + 1));
        h.push(Ev::R(code(PLAIN_PHYS[p1])));
        h.push(Ev::T(cfg.red as u32 + 3 + rng.below(5) as u32));
        h.push(Ev::P(code(PLAIN_PHYS[p2])));
        h.push(Ev::T(1 + rng.below(4) as u32));
        h.push(Ev::R(code(PLAIN_PHYS[p2])));
    }
    // late probe: long after everything must have expired
    h.push(Ev::T(cfg.t as u32 + 11 + cfg.red as u32 + 25));
    h.push(Ev::P(code(PLAIN_PHYS[0])));
    h.push(Ev::T(2));
    h.push(Ev::R(code(PLAIN_PHYS[0])));
    Plan2 { cfg, taps, hist: h, distinct, pure_expiry, p1, p2, overlap }
}

struct Res2 {
    realized: Vec<Ev>,
    outs: Vec<OutEv>,
    max_stack: u64,
    max_queue: u64,
    verdict: Result<(), Bad>,
    first_key_mods: u64,
    overflowed: bool,
    first_key_set_checked: bool,
}

fn run2(pl: &Plan2, text: &str, h: &[Ev], full_checks: bool) -> Option<Res2> {
    let mut sim = Sim::new(text).ok()?;
    let mut r = Res2 { realized: vec![], outs: vec![], max_stack: 0, max_queue: 0, verdict: Ok(()), first_key_mods: 0, overflowed: false, first_key_set_checked: false };
    let mut repress: Option<u64> = None;
    let mut step = |sim: &mut Sim, r: &mut Res2| {
        sim.tick();
        if sim.last().iter().any(|o| o.repress) && repress.is_none() {
            repress = Some(sim.now);
        }
        for o in kanata_outs(sim.last()) {
            r.outs.push((sim.now, o.0, o.1));
        }
        r.max_stack = r.max_stack.max(sim.k.layout.b().oneshot.keys.len() as u64);
    };
    for e in h {
        match e {
            Ev::T(n) => {
                for _ in 0..*n {
                    step(&mut sim, &mut r);
                }
                r.realized.push(e.clone());
            }
            Ev::P(c) | Ev::R(c) => {
                let mut extra = 0u32;
                while sim.k.layout.b().queue.len() >= 27 && extra < 500 {
                    step(&mut sim, &mut r);
                    extra += 1;
                }
                if extra > 0 {
                    r.realized.push(Ev::T(extra));
                }
                if matches!(e, Ev::P(_)) {
                    sim.press(*c);
                } else {
                    sim.release(*c);
                }
                r.realized.push(e.clone());
                r.max_queue = r.max_queue.max(sim.k.layout.b().queue.len() as u64);
            }
            _ => {}
        }
    }
    for _ in 0..(pl.cfg.t as u64 + pl.cfg.red as u64 + 60) {
        step(&mut sim, &mut r);
    }
    r.overflowed = pl.taps.len() > 16;
    // ---- invariants
    let l = sim.k.layout.b();
    let bad = |sig: &str, what: String| Err(Bad { sig: format!("C06:{sig}"), what });
    if let Some(t) = repress {
        r.verdict = bad("repress", format!("tick {t}: a key that is already down was pressed again"));
        return Some(r);
    }
    if !sim.os.all_up() || !l.states.is_empty() || !l.oneshot.keys.is_empty() || !l.queue.is_empty() {
        r.verdict = bad("stacked:stuck-at-end", format!("after the last release and T+rapid-event-delay+60 ticks: os={} states={:?} active one-shots={} queue={}", sim.os.describe(), l.states, l.oneshot.keys.len(), l.queue.len()));
        return Some(r);
    }
    let plain_codes: Vec<u16> = PLAIN_OUT.iter().flat_map(|r| r.iter().map(|n| kc(n))).collect();
    let ctx = presses_with_context(&r.outs, &plain_codes);
    let n_expected = if pl.pure_expiry {
        1
    } else if pl.overlap {
        4
    } else {
        3
    };
    if full_checks && ctx.len() != n_expected {
        r.verdict = bad("stacked:plain-key-count", format!("{} plain key presses were injected, {} were output", n_expected, ctx.len()));
        return Some(r);
    }
    let show = |x: &(u64, u16, Vec<u16>)| format!("{} pressed in tick {} with [{}] held", code_name(x.1), x.0, x.2.iter().map(|c| code_name(*c)).collect::<Vec<_>>().join(" "));
    // the late probe (always the last plain press) must be plain
    if let Some(last) = ctx.last() {
        if full_checks && (last.1 != kc(PLAIN_OUT[0][0]) || !last.2.is_empty()) {
            r.verdict = bad("stacked:lingers-after-timeout", format!("probe key long after the timeout: {}", show(last)));
            return Some(r);
        }
    }
    if full_checks && pl.overlap && ctx.len() == 4 {
        // p1 down, q down, q up, q down again: whatever the variant (the one-shots ended at p1's press
        // or at q's release, the first release of a key pressed after them), the second press of q is plain
        let q = 1 - pl.p1;
        let first = &ctx[0];
        let third = &ctx[2];
        r.first_key_mods = first.2.len() as u64;
        if third.1 != kc(PLAIN_OUT[q][0]) || third.2.iter().any(|c| *c != first.1) {
            r.verdict = bad("stacked:key-after-first-follower-release-modified", format!("after {} stacked one-shots: first key down, second key down, second key released, second key pressed again: {}", pl.taps.len(), show(third)));
            return Some(r);
        }
    }
    if full_checks && !pl.pure_expiry && !pl.overlap && ctx.len() == 3 {
        // second following key: never modified
        let second = &ctx[1];
        if second.1 != kc(PLAIN_OUT[pl.p2][0]) || !second.2.is_empty() {
            r.verdict = bad("stacked:second-key-modified", format!("second key after {} stacked one-shots: {}", pl.taps.len(), show(second)));
            return Some(r);
        }
        // first following key: sees the most recent (at most 16) distinct one-shots
        let first = &ctx[0];
        r.first_key_mods = first.2.len() as u64;
        // (repeated taps are judged for the set of active one-shots in part 4, where nothing is queued
        // when a key goes down; here up to 26 events may be pending and the release of a pushed-out
        // entry is queued behind them)
        if pl.distinct {
            let active: Vec<usize> = pl.taps.iter().rev().take(16).copied().collect();
            r.first_key_set_checked = true;
            let mut want: Vec<u16> = vec![];
            let mut layer = 0usize;
            for k in &active {
                match kind_of(*k) {
                    Kind2::Keys(v) => {
                        for n in v {
                            if !want.contains(&kc(n)) {
                                want.push(kc(n));
                            }
                        }
                    }
                    Kind2::Layer(l) => {
                        if layer == 0 {
                            layer = l;
                        }
                    }
                }
            }
            let mut got = first.2.clone();
            got.sort();
            want.sort();
            if first.1 != kc(PLAIN_OUT[pl.p1][layer]) || got != want {
                let sig = if got.len() < want.len() { "stacked:first-key-misses-active-one-shots" } else if got.len() > want.len() { "stacked:first-key-sees-evicted-one-shots" } else { "stacked:first-key-wrong-set" };
                r.verdict = bad(sig, format!("{} distinct one-shots tapped in a row (table holds 16): expected {} with [{}] held; observed {}", pl.taps.len(), code_name(kc(PLAIN_OUT[pl.p1][layer])), want.iter().map(|c| code_name(*c)).collect::<Vec<_>>().join(" "), show(first)));
                return Some(r);
            }
        }
    }
    Some(r)
}

// ------------------------------------------------------------------ the check

fn param_sets(tier: Tier) -> Vec<P> {
    let ts: &[u16] = tier.sel(&[3, 80], &[2, 3, 9, 80]);
    let mut v = vec![];
    for shape in 0..3 {
        for end in ENDS {
            for &t in ts {
                for red in [5u16, 0, 1] {
                    v.push(P { shape, end, t, red });
                }
            }
        }
    }
    v
}
fn exh_n(tier: Tier, t: u16) -> usize {
    match tier {
        Tier::Quick => {
            if t <= 9 {
                5
            } else {
                4
            }
        }
        Tier::Thorough => {
            if t <= 3 {
                6
            } else {
                5
            }
        }
    }
}
fn gapvals(t: u16) -> Vec<u32> {
    let t = t as u32;
    let mut g = vec![0, 1, t.saturating_sub(1), t, t + 1];
    g.sort();
    g.dedup();
    g
}
fn n_exh_cases(tier: Tier) -> u64 {
    param_sets(tier).len() as u64 * 9
}
fn n_random(tier: Tier) -> u64 {
    tier.sel(4_000, 80_000)
}
// ---- part 3: two follow-up keys

/// parameter sets of the follow-up part: one one-shot key (key, layer, output chord) + two plain keys
fn param_sets_fol(tier: Tier) -> Vec<P> {
    let ts: &[u16] = tier.sel(&[3, 80], &[2, 3, 9, 80]);
    let mut v = vec![];
    for shape in [3usize, 1, 4] {
        for end in ENDS {
            for &t in ts {
                for red in [5u16, 0, 1] {
                    v.push(P { shape, end, t, red });
                }
            }
        }
    }
    v
}
/// cases per parameter set: prefix kind (tap with gap 0, tap with gap 1, held, plain key b held since
/// before the tap) x first two follow-up events
const FOL_SUB: u64 = 16;
/// maximal number of follow-up events
fn fol_k(tier: Tier) -> usize {
    tier.sel(5, 6)
}
fn n_fol_cases(tier: Tier) -> u64 {
    param_sets_fol(tier).len() as u64 * FOL_SUB
}
/// part 4: one case per (number of one-shot keys, variant, kind assignment, T, rapid-event-delay);
/// thorough repeats every case with three more gap / order streams
fn n_restack_cases(tier: Tier) -> u64 {
    restack::param_sets4().len() as u64 * tier.sel(1, 4)
}
const FOL_PREFIX_NAMES: [&str; 4] = ["tap0", "tap1", "held", "preheld"];

/// mixed-radix odometer: position i takes every value of choices[i]
fn for_each_choice(choices: &[Vec<usize>], mut f: impl FnMut(&[usize]) -> bool) {
    if choices.iter().any(|c| c.is_empty()) {
        return;
    }
    let mut ix = vec![0usize; choices.len()];
    let mut cur: Vec<usize> = choices.iter().map(|c| c[0]).collect();
    loop {
        if !f(&cur) {
            return;
        }
        let mut i = 0;
        loop {
            if i == choices.len() {
                return;
            }
            ix[i] += 1;
            if ix[i] < choices[i].len() {
                cur[i] = choices[i][ix[i]];
                break;
            }
            ix[i] = 0;
            cur[i] = choices[i][0];
            i += 1;
        }
    }
}

/// structure of a schedule of follow-up events (plain keys only, after the one-shot press at
/// position `i_os`): (two keys pressed after the one-shot overlap and the later-pressed one is
/// released first and a further press follows, the same with the earlier-pressed one released first)
fn overlap_kind(keys: &[usize], i_os: usize) -> (bool, bool) {
    let mut order: Vec<usize> = vec![]; // keys pressed after the one-shot that are down, in press order
    let mut down = [false; 3];
    for &k in &keys[..i_os] {
        down[k] = true;
    }
    // how the first release of a key pressed after the one-shot came about: 0 none yet, 1 a single
    // key was down, 2 later-pressed of two released first, 3 earlier-pressed of two released first
    let mut first_release = 0u8;
    let (mut lifo, mut fifo) = (false, false);
    for &k in keys[i_os + 1..].iter().filter(|k| **k != keys[i_os]) {
        if down[k] {
            down[k] = false;
            if let Some(pos) = order.iter().position(|x| *x == k) {
                if first_release == 0 {
                    first_release = if order.len() < 2 {
                        1
                    } else if pos + 1 == order.len() {
                        2
                    } else {
                        3
                    };
                }
                order.remove(pos);
            }
        } else {
            down[k] = true;
            order.push(k);
            lifo |= first_release == 2;
            fifo |= first_release == 3;
        }
    }
    (lifo, fifo)
}

/// the family schedules need 5 events; with N = 4 they are run in addition
fn family_schedules() -> Vec<Vec<usize>> {
    vec![vec![0, 0, 2, 2, 2], vec![0, 2, 2, 2, 0], vec![0, 0, 0, 0, 2], vec![0, 0, 1, 1, 2]]
}

impl C06Check {
    fn run_exhaustive(&self, ctx: &Ctx, idx: u64, out: &mut CaseOut) {
        let ps = param_sets(ctx.tier);
        let p = ps[(idx / 9) as usize].clone();
        let p0 = ((idx % 9) / 3) as usize;
        let p1 = (idx % 3) as usize;
        let text = p.render();
        let n = exh_n(ctx.tier, p.t);
        let gv = gapvals(p.t);
        let mut lock = match Lock::new(p.clone(), &text) {
            Ok(l) => l,
            Err(e) => {
                out.violate("C06:config-rejected", format!("one-shot configuration rejected: {}", e.lines().next().unwrap_or("")), json!({"config": text, "error": e, "history": "", "observed": "parse error", "expected": "accepted"}));
                return;
            }
        };
        let codes = lock.codes;
        let tail = p.t as u32 + 4;
        let mut bads: Vec<(Vec<Ev>, Bad, Vec<usize>, Vec<usize>)> = vec![];
        let mut lens: Vec<(usize, Option<Vec<usize>>)> = (2..=n).map(|l| (l, None)).collect();
        if n < 5 {
            for f in family_schedules() {
                if f[0] == p0 && f[1] == p1 {
                    lens.push((5, Some(f)));
                }
            }
        }
        for (len, fixed) in lens {
            let prefix: Vec<usize> = match &fixed {
                Some(f) => f.clone(),
                None => vec![p0, p1],
            };
            for_each_schedule(3, gv.len(), len, &prefix, |keys, gaps| {
                let h = schedule_to_hist(&codes, keys, gaps, &gv, tail, 1);
                let mut bad = lock.run(&h);
                if bad.is_none() {
                    match family_check(&p, keys, gaps, &gv, &lock.outs) {
                        Some((name, Ok(()))) => {
                            out.inc("statement_checks");
                            out.inc(&format!("family:{name}"));
                        }
                        Some((_, Err(b))) => bad = Some(b),
                        None => {}
                    }
                }
                out.inc("schedules");
                out.inc("schedules_exhaustive");
                if gaps.iter().all(|g| *g == 0) {
                    let ks: String = keys.iter().map(|k| char::from(b'a' + *k as u8)).collect();
                    out.tag(format!("E:{}:{ks}", p.label()));
                }
                if let Some(b) = bad {
                    bads.push((h, b, keys.to_vec(), gaps.to_vec()));
                    match Lock::new(p.clone(), &text) {
                        Ok(l) => {
                            out.count("one_shot_activations", lock.model.activations);
                            out.count("ended_by_timeout", lock.model.ends_by_timeout);
                            out.count("ended_by_input", lock.model.ends_by_input);
                            lock = l
                        }
                        Err(_) => return false,
                    }
                    return bads.len() < 3;
                }
                clear_trace(&mut lock.sim);
                true
            });
            if bads.len() >= 3 {
                break;
            }
        }
        out.count("one_shot_activations", lock.model.activations);
        out.count("ended_by_timeout", lock.model.ends_by_timeout);
        out.count("ended_by_input", lock.model.ends_by_input);
        out.max("stack_depth_exhaustive", lock.model.max_stack.max(lock.max_kanata_stack));
        for (h, b, keys, gaps) in bads.iter().take(3) {
            report(out, &p, &text, h, b, Some((keys, gaps, &gv)));
        }
        out.inc("param_sets_x_prefix");
        if p0 == 0 && p1 == 0 && (idx / 9) % 12 == 1 {
            out.sample = Some(json!({"part": "exhaustive", "config": text, "params": p.label(), "first_two_keys": [p0, p1], "max_events": n, "gaps": gv,
                "example_history": render_hist(&schedule_to_hist(&codes, &[0, 0, 2, 2, 2], &[0, 1, 2, 1, 3], &gv, tail, 1))}));
        }
    }

    /// part 3: a one-shot key tapped (or held, or tapped while a plain key is already down) and then
    /// every interleaving of presses and releases of TWO plain follow-up keys
    fn run_followers(&self, ctx: &Ctx, j: u64, out: &mut CaseOut) {
        let ps = param_sets_fol(ctx.tier);
        let p = ps[(j / FOL_SUB) as usize].clone();
        let sub = (j % FOL_SUB) as usize;
        let kind = sub / 4;
        let f1 = 1 + (sub & 1);
        let f2 = 1 + ((sub >> 1) & 1);
        let text = p.render();
        let kmax = fol_k(ctx.tier);
        // one table of gap values; positions choose from index subsets of it
        let mut gv = gapvals(p.t);
        for g in [0u32, 1, 2, p.red as u32 + 1] {
            if !gv.contains(&g) {
                gv.push(g);
            }
        }
        gv.sort();
        let gi = |vals: &[u32]| -> Vec<usize> {
            let mut v: Vec<usize> = vals.iter().filter_map(|g| gv.iter().position(|x| x == g)).collect();
            v.sort();
            v.dedup();
            v
        };
        let after_os = gi(&gapvals(p.t));
        let inter = gi(&[0, 1, p.red as u32 + 1]);
        let (prefix, prefix_gaps): (Vec<usize>, Vec<Vec<usize>>) = match kind {
            0 => (vec![0, 0], vec![gi(&[0]), gi(&[0])]),
            1 => (vec![0, 0], vec![gi(&[0]), gi(&[1])]),
            2 => (vec![0], vec![gi(&[0])]),
            _ => (vec![1, 0, 0], vec![gi(&[0]), gi(&[1]), gi(&[0])]),
        };
        let i_os = if kind == 3 { 1 } else { 0 };
        let mut lock = match Lock::new(p.clone(), &text) {
            Ok(l) => l,
            Err(e) => {
                out.violate("C06:config-rejected", format!("one-shot configuration rejected: {}", e.lines().next().unwrap_or("")), json!({"config": text, "error": e, "history": "", "observed": "parse error", "expected": "accepted"}));
                return;
            }
        };
        let codes = lock.codes;
        let tail = p.t as u32 + 4;
        let mut bads: Vec<(Vec<Ev>, Bad, Vec<usize>, Vec<usize>)> = vec![];
        for k in 2..=kmax {
            let n = prefix.len() + k;
            // positions 0..n: keys, n..2n: gap indices
            let mut choices: Vec<Vec<usize>> = vec![];
            for &x in &prefix {
                choices.push(vec![x]);
            }
            choices.push(vec![f1]);
            choices.push(vec![f2]);
            for _ in 2..k {
                choices.push(vec![1, 2]);
            }
            for g in &prefix_gaps {
                choices.push(g.clone());
            }
            choices.push(after_os.clone());
            for _ in 1..k {
                choices.push(inter.clone());
            }
            let first_gaps: Vec<usize> = choices[n..].iter().map(|c| c[0]).collect();
            for_each_choice(&choices, |c| {
                let (keys, gaps) = c.split_at(n);
                let h = schedule_to_hist(&codes, keys, gaps, &gv, tail, 1);
                let mut bad = lock.run(&h);
                if bad.is_none() {
                    match family_check(&p, keys, gaps, &gv, &lock.outs) {
                        Some((name, Ok(()))) => {
                            out.inc("statement_checks");
                            out.inc("statement_checks_followers");
                            out.inc(&format!("family:{name}"));
                        }
                        Some((_, Err(b))) => bad = Some(b),
                        None => {}
                    }
                }
                out.inc("schedules");
                out.inc("schedules_followers");
                if gaps.iter().zip(first_gaps.iter()).all(|(a, b)| a == b) {
                    let (lifo, fifo) = overlap_kind(keys, i_os);
                    let ks: String = keys.iter().map(|k| char::from(b'a' + *k as u8)).collect();
                    out.tag(format!("F:{}:{ks}", p.label()));
                    if lifo {
                        out.inc("follower_orders_later_pressed_released_first_then_press");
                    }
                    if fifo {
                        out.inc("follower_orders_earlier_pressed_released_first_then_press");
                    }
                }
                if let Some(b) = bad {
                    bads.push((h, b, keys.to_vec(), gaps.to_vec()));
                    match Lock::new(p.clone(), &text) {
                        Ok(l) => {
                            out.count("one_shot_activations", lock.model.activations);
                            out.count("ended_by_timeout", lock.model.ends_by_timeout);
                            out.count("ended_by_input", lock.model.ends_by_input);
                            out.count("ended_by_release_of_later_pressed_follower", lock.model.ends_by_later_follower_release);
                            out.count("preheld_key_releases_not_ending", lock.model.preheld_releases_ignored);
                            lock = l
                        }
                        Err(_) => return false,
                    }
                    return bads.len() < 3;
                }
                clear_trace(&mut lock.sim);
                true
            });
            if bads.len() >= 3 {
                break;
            }
        }
        out.count("one_shot_activations", lock.model.activations);
        out.count("ended_by_timeout", lock.model.ends_by_timeout);
        out.count("ended_by_input", lock.model.ends_by_input);
        out.count("ended_by_release_of_later_pressed_follower", lock.model.ends_by_later_follower_release);
        out.count("preheld_key_releases_not_ending", lock.model.preheld_releases_ignored);
        for (h, b, keys, gaps) in bads.iter().take(3) {
            report(out, &p, &text, h, b, Some((keys, gaps, &gv)));
        }
        out.inc("param_sets_x_prefix_followers");
        out.inc(&format!("followers_prefix:{}", FOL_PREFIX_NAMES[kind]));
        if sub == 6 && (j / FOL_SUB) % 12 == 1 {
            out.sample = Some(json!({"part": "followers", "config": text, "params": p.label(), "prefix": FOL_PREFIX_NAMES[kind], "first_two_follow_up_keys": [f1, f2], "max_follow_up_events": kmax,
                "gaps_after_one_shot": after_os.iter().map(|i| gv[*i]).collect::<Vec<_>>(), "gaps_between_follow_up_events": inter.iter().map(|i| gv[*i]).collect::<Vec<_>>(),
                "example_history": render_hist(&schedule_to_hist(&codes, &[0, 0, 1, 2, 2, 2], &[0, 0, 1, 0, 1, 0], &gv, tail, 1))}));
        }
    }

    fn run_stacked(&self, ctx: &Ctx, idx: u64, out: &mut CaseOut) {
        let pl = plan2(ctx.seed, idx);
        let text = pl.cfg.render();
        if ctx.verbose {
            eprintln!("config:\n{text}\nhistory: {}", render_hist(&pl.hist));
        }
        let Some(r) = run2(&pl, &text, &pl.hist, true) else {
            out.violate("C06:config-rejected", "stacked one-shot configuration rejected", json!({"config": text, "history": "", "observed": "parse error", "expected": "accepted"}));
            return;
        };
        out.inc("schedules");
        out.inc("histories_stacked");
        out.max("stack_depth", r.max_stack);
        out.max("queue_len", r.max_queue);
        out.max("modifiers_on_first_key", r.first_key_mods);
        if r.max_stack >= 16 {
            out.inc("histories_table_full");
        }
        if pl.taps.len() > 16 {
            out.inc("histories_more_than_16_stacked");
        }
        if pl.cfg.mixed {
            out.inc("histories_mixed_variants");
        }
        if pl.pure_expiry {
            out.inc("histories_pure_expiry");
        }
        if pl.overlap {
            out.inc("histories_stacked_overlapping_followers");
        }
        if r.first_key_set_checked {
            out.inc("first_key_set_checks");
        }
        out.inc(&format!("stacked_variant:{}", if pl.cfg.mixed { "mixed" } else { pl.cfg.ends[0].name(false) }));
        if let Err(b) = &r.verdict {
            let obs: Vec<String> = r.outs.iter().map(|o| format!("@{}: {}{}", o.0, if o.1 { "↓" } else { "↑" }, code_name(o.2))).collect();
            out.violate(b.sig.clone(), b.what.clone(), json!({"part": "stacked", "config": text, "history": render_hist(&r.realized), "tapped_one_shot_keys": pl.taps.iter().map(|k| OS_PHYS[*k]).collect::<Vec<_>>(), "observed": obs,
                "expected": "first following key sees the (at most 16) most recent one-shots, second following key and the late probe unmodified, nothing down or pending at the end"}));
        }
        out.tag(format!("S:{}:{}:{}:{}:{}:{}", pl.cfg.mixed, pl.cfg.ends[0].name(false), pl.cfg.t, pl.cfg.red, pl.taps.len(), pl.distinct));
        if idx % 1000 == 77 {
            out.sample = Some(json!({"part": "stacked", "config": text, "history": render_hist(&pl.hist)}));
        }
    }
}

impl C06Check {
    /// part 4: the same 1-3 one-shot keys pressed again and again (see c06_restack.rs)
    fn run_restack(&self, ctx: &Ctx, case: u64, out: &mut CaseOut) {
        let n = restack::per_case(ctx.tier);
        // at most two witnesses per signature and case (a recorded class must not use up the room of another one)
        let mut reported: Vec<(String, u32)> = vec![];
        for sub in 0..n {
            let pl = restack::plan4(ctx.seed, ctx.tier, case, sub);
            let text = pl.cfg.render();
            let Some(r) = restack::run4(&pl, &text) else {
                out.violate("C06:config-rejected", "re-tapped one-shot configuration rejected", json!({"config": text, "history": "", "observed": "parse error", "expected": "accepted"}));
                return;
            };
            if ctx.verbose {
                eprintln!("config:\n{text}\nhistory: {}\nending: {} held-press-pushed-out-own-entry: {} more-than-16-releases-deferred: {}\nverdict: {:?}", render_hist(&r.realized), pl.ending.name(), r.own_entry_pushed_out, r.release_list_overflowed, r.verdict);
            }
            let pc = pl.cfg.end.is_pc();
            out.inc("schedules");
            out.inc("restack_histories");
            out.inc(&format!("restack_keys:{}", pl.nkeys));
            out.inc(&format!("restack_ending:{}", pl.ending.name()));
            out.inc(&format!("restack_variant:{}", pl.cfg.end.name(false)));
            out.max("restack_table_len", r.max_stack);
            out.max("restack_queue_len", r.max_queue);
            out.max("restack_modifiers_on_first_key", r.first_key_mods);
            if pl.taps.len() > 16 {
                out.inc("restack_histories_more_than_16_presses");
            }
            if r.max_stack >= 16 {
                out.inc("restack_histories_table_full");
            }
            let pushed = restack::pushed_out_while_active(&pl.taps, pc);
            out.count("restack_entries_of_active_keys_pushed_out", pushed);
            if pushed > 0 {
                out.inc("restack_histories_entry_of_active_key_pushed_out");
                out.inc(&format!("restack_entry_of_active_key_pushed_out_keys:{}", pl.nkeys));
                if pl.ending.held() {
                    out.inc("restack_histories_entry_of_active_key_pushed_out_then_held");
                }
            }
            if pc && restack::table_after(&pl.taps, true).len() < restack::table_after(&pl.taps, false).len().min(pl.nkeys) {
                out.inc("restack_pcancel_ended_by_repress");
            }
            if r.first_key_checked {
                out.inc("restack_first_key_checks");
                if pushed > 0 && !pl.ending.late() {
                    out.inc("restack_first_key_checks_after_active_entry_pushed_out");
                }
            }
            out.count("restack_held_key_checks", r.held_checks);
            if r.own_entry_pushed_out {
                out.inc("restack_held_press_pushed_out_its_own_entry");
            }
            if r.release_list_overflowed {
                out.inc("restack_more_than_16_releases_deferred");
            }
            out.count("restack_ticks_waited_for_empty_queue", r.waited);
            if let Err(b) = &r.verdict {
                let seen = match reported.iter_mut().find(|x| x.0 == b.sig) {
                    Some(x) => {
                        x.1 += 1;
                        x.1
                    }
                    None => {
                        reported.push((b.sig.clone(), 1));
                        1
                    }
                };
                out.inc("restack_histories_violating");
                if seen <= 2 {
                    let obs: Vec<String> = r.outs.iter().map(|o| format!("@{}: {}{}", o.0, if o.1 { "↓" } else { "↑" }, code_name(o.2))).collect();
                    out.violate(b.sig.clone(), b.what.clone(), json!({"part": "restack", "config": text, "params": pl.cfg.label(), "history": render_hist(&r.realized),
                        "pressed_one_shot_keys": pl.taps.iter().map(|k| restack::RS_PHYS[*k]).collect::<String>(), "ending": pl.ending.name(), "observed": obs,
                        "expected": "the first following key is modified by exactly the one-shots that are still active (keys among the 16 most recent presses, in time; pcancel: nothing after a re-press) plus the held key; second key and probe only by a physically held key; a held one-shot key stays down while held; nothing down or pending at the end"}));
                }
            }
            out.tag(format!("R:{}:{}:{}:{}:{}:{}", pl.nkeys, pl.cfg.label(), pl.total, restack::PATTERNS[pl.pattern], pl.ending.name(), pushed > 0));
            if case % 50 == 7 && sub == n / 2 + 2 {
                out.sample = Some(json!({"part": "restack", "config": text, "history": render_hist(&r.realized), "ending": pl.ending.name()}));
            }
        }
        out.inc("restack_cases");
    }
}

impl Check for C06Check {
    fn id(&self) -> &'static str {
        "C06"
    }
    fn n_cases(&self, ctx: &Ctx) -> u64 {
        n_exh_cases(ctx.tier) + n_random(ctx.tier) + n_fol_cases(ctx.tier) + n_restack_cases(ctx.tier) + nonkey::n_cases5(ctx.tier)
    }
    fn describe(&self, ctx: &Ctx, idx: u64) -> Value {
        if idx < n_exh_cases(ctx.tier) {
            let p = param_sets(ctx.tier)[(idx / 9) as usize].clone();
            json!({"part": "exhaustive", "config": p.render(), "first_two_keys": [(idx % 9) / 3, idx % 3], "max_events": exh_n(ctx.tier, p.t), "gaps": gapvals(p.t)})
        } else if idx < n_exh_cases(ctx.tier) + n_random(ctx.tier) {
            let pl = plan2(ctx.seed, idx);
            json!({"part": "stacked", "config": pl.cfg.render(), "history": render_hist(&pl.hist)})
        } else if idx >= n_exh_cases(ctx.tier) + n_random(ctx.tier) + n_fol_cases(ctx.tier) + n_restack_cases(ctx.tier) {
            let j = idx - n_exh_cases(ctx.tier) - n_random(ctx.tier) - n_fol_cases(ctx.tier) - n_restack_cases(ctx.tier);
            let np = nonkey::n_prefix(ctx.tier);
            let cfg = nonkey::param_sets5(ctx.tier)[(j / np) as usize].clone();
            json!({"part": "non-key followers", "config": cfg.render(), "followers": [cfg.fk[0].name(), cfg.fk[1].name(), "plain"], "prefix": nonkey::PREFIX_NAMES[(j % np) as usize], "max_follow_up_events": nonkey::k_max(ctx.tier, &cfg)})
        } else if idx >= n_exh_cases(ctx.tier) + n_random(ctx.tier) + n_fol_cases(ctx.tier) {
            let case = idx - n_exh_cases(ctx.tier) - n_random(ctx.tier) - n_fol_cases(ctx.tier);
            let pl = restack::plan4(ctx.seed, ctx.tier, case, 0);
            json!({"part": "restack", "config": pl.cfg.render(), "one_shot_keys_used": pl.nkeys, "histories": restack::per_case(ctx.tier), "presses": restack::totals(ctx.tier)})
        } else {
            let j = idx - n_exh_cases(ctx.tier) - n_random(ctx.tier);
            let p = param_sets_fol(ctx.tier)[(j / FOL_SUB) as usize].clone();
            let sub = j % FOL_SUB;
            json!({"part": "followers", "config": p.render(), "prefix": FOL_PREFIX_NAMES[(sub / 4) as usize], "first_two_follow_up_keys": [1 + (sub & 1), 1 + ((sub >> 1) & 1)], "max_follow_up_events": fol_k(ctx.tier)})
        }
    }
    fn run_case(&self, ctx: &Ctx, idx: u64) -> CaseOut {
        let mut out = CaseOut::new();
        let n1 = n_exh_cases(ctx.tier);
        let n2 = n1 + n_random(ctx.tier);
        if idx < n1 {
            self.run_exhaustive(ctx, idx, &mut out);
        } else if idx < n2 {
            self.run_stacked(ctx, idx, &mut out);
        } else if idx < n2 + n_fol_cases(ctx.tier) {
            self.run_followers(ctx, idx - n2, &mut out);
        } else if idx < n2 + n_fol_cases(ctx.tier) + n_restack_cases(ctx.tier) {
            self.run_restack(ctx, idx - n2 - n_fol_cases(ctx.tier), &mut out);
        } else {
            self.run_nonkey(ctx, idx - n2 - n_fol_cases(ctx.tier) - n_restack_cases(ctx.tier), &mut out);
        }
        out
    }
    fn rule(&self) -> String {
        "Part 1 (exhaustive, seed-independent): physical keys a b c in three shapes (two one-shot keys lsft / lctl + plain c; one-shot layer-while-held + two plain keys with distinct outputs per layer; one-shot output chord C-lalt + one-shot layer + plain c), all one-shot keys of one end variant; 4 variants x T in {3,80} (thorough {2,3,9,80}) x rapid-event-delay {5,0,1}; EVERY physically consistent schedule of 2..=N events (N = 5 for small T, 4 for T=80 plus the five-event family schedules, in quick; 6 / 5 in thorough) with every gap in {0,1,T-1,T,T+1}; keys still down are released T+4 ticks after the last event. Judged: per-tick equality with the one-shot reference model; nothing down / active / queued after the drain; and on the schedule families (tap, key, key-again), (tap alone), (hold, key, key, release), (tap, tap again, key), (tap, tap other one-shot, key) the statement is read directly off the OS stream: 'modified' = the one-shot's keys are down when the key's press is written (key / chord) or the key resolved on the one-shot layer. Part 2 (random, invariants only): 20 one-shot keys (keys, chords, two layers; one variant or mixed variants) + 2 plain keys, T in {30,200}; 17-40 one-shot taps in a row, then key, second key, and a probe key long after the timeout: the first key must see exactly the 16 most recent one-shots when the taps were distinct, the second key and the probe must be plain, nothing may be down, active or queued at the end, no crash; in a third of the histories the two plain keys overlap instead (first key down, second key down, second key released, second key pressed again, released, first key released) and that second press of the second key must be plain (the one-shots ended at the first key's press or at the second key's release, whatever the variant). Part 3 (exhaustive, seed-independent): shapes with ONE one-shot key (lsft; layer-while-held; output chord C-lalt) and TWO plain keys b c, 4 variants x T in {3,80} (thorough {2,3,9,80}) x rapid-event-delay {5,0,1}; prefix = one-shot tapped with its release 0 or 1 ticks later / one-shot held until the end / b pressed one tick before the one-shot is tapped; then EVERY sequence of 2..=K events (K = 5 quick, 6 thorough) over the two plain keys (each event toggles its key: all press/release interleavings incl. later-pressed-released-first, earlier-pressed-released-first, re-presses), first follow-up event after every gap in {0,1,T-1,T,T+1}, every other one after every gap in {0,1,rapid-event-delay+1}; keys still down are released T+4 ticks after the last event. Judged: per-tick equality with the reference model, whose release variants end in the tick after the first release of ANY key pressed after the one-shot (not only the first-pressed one) and never at the release of a key held since before it; clean end; and families (g)/(h) read off the OS stream without the model: one-shot held -> every follow-up press modified; tapped -> first follow-up press modified iff processed before tick x+T (x = tick of the one-shot press); press variants: no later press modified; release variants: a press before the first release of a key pressed after the one-shot is modified iff in time, a press after that release is never modified. (g)/(h) are also applied to every part-1 schedule of this form. Part 4 (systematic in its structure, seed-dependent in gaps / random orders): physical keys a b c = three one-shot keys of one end variant with timeouts T, T+5, T+11 (assignments lsft | C-lalt | ralt; layer l1 | lsft | C-lalt; C-lalt | layer l1 | layer l2) + plain keys u v with distinct outputs per layer; 4 variants x T in {20,200} x rapid-event-delay {5,0,1} x the first 1, 2 or 3 one-shot keys used; for every total of 15,16,17,18,19,20,33 presses (thorough: every total 14..=40, four gap streams) x order {round-robin, random, blocks of 1-9, one key for all but the last 15 presses and the others in turn for those} x ending {tap/in-time, tap/late, held/in-time, held/late}: the keys are pressed that often in a row, press-to-release gap 0-2, release-to-press gap 0-3 ticks (the driver lets time pass until nothing is queued before every press, so every press is within the timeout of the previous one and meets a table that saw everything before it); then the first plain key 1-3 ticks later (in time) or timeout+3.. ticks later (late), released after 1-12 ticks, the second plain key rapid-event-delay+3.. ticks later, with a held ending the release of the one-shot key after that, and a probe key long after the timeout. Judged off the OS stream, no model of kanata involved except that the table holds 16 entries: expected active set = keys among the 16 most recent presses (non-pcancel; every press stacks) / the keys pressed since the last re-press of an active key (pcancel; a re-press ends everything); first key = exactly that set's key codes held and the most recently pressed active layer (late: nothing), plus the held key's own; second key and probe: only the held key's; with a held ending the held key's codes must be down from the tick its press was processed until its physical release; nothing down, active or queued at the end; all three plain presses written. Part 5 (exhaustive, seed-independent): physical keys a b c d; a = one one-shot key (lctl | layer-while-held l1 | output chord C-lalt), b and c = two follower keys that are not key-code keys, of the 14 kinds mlft, XX, (unicode e-acute), (layer-while-held l2) with l2 all transparent, (mwheel-up 5000 120), (caps-word 8), (arbitrary-code 700), (macro T+10 y), (unshift x) / with a one-shot layer (unmod x), (layer-switch l0), (movemouse-left 5000 1), S-1, mrtp, (release-key rsft) - each kind as b next to its successor in that list as c (thorough: also next to the fifth after it) -, d = plain key d (4 on l1); 4 variants x T in {3,20} (thorough {3,9,80}) x rapid-event-delay {5,0,1}. Prefix = one-shot key tapped (release in the same tick; thorough also one tick later) or held to the end; then EVERY sequence of 2..=4 events over b c d (each event toggles its key; thorough: up to 5 events for T=3 and the first series of pairs), the first follow-up event after every gap in {1,T-1,T} (thorough with 4 events: also T+1), every other one after every gap in {0,rapid-event-delay+1}; keys still down are released T+4 ticks after the last event. Judged: (1) per-tick equality with the reference model, in which b and c are 'another key' like any plain key (press variants end rapid-event-delay ticks after the press of the first key of any kind and pause input meanwhile, release variants end in the tick after the first release of any key pressed after the one-shot), on the one-shot's key codes and the outputs of d; (2) model-free off the OS stream, for every follower press that shows in the output in the tick it is processed (d; button down; wheel, movement, unicode event; arbitrary code press; x of unshift; 1 of S-1): held one-shot -> the one-shot's key codes are down around it; tapped -> the first following key of ANY kind (visible or not) is modified iff processed before tick x+T, press variants: no later key, release variants: keys pressed before the first release of any follower iff in time, keys pressed after it never; with a one-shot layer only d shows the layer (4 instead of d); the visible presses appear in schedule order and no other one appears; (3) nothing down, active, queued, running (kanata idle) at the end; no output that no key of the configuration produces; nothing pressed twice. distinct_nontrivial = (parameter set, key sequence) for parts 1, 3 and 5, (variant, T, delay, taps, distinct) for part 2, (keys used, parameter set, presses, order, ending, active entry pushed out) for part 4.".into()
    }
    fn assumptions(&self) -> Vec<String> {
        vec![
            "boundary conventions of appendix A: an event injected after p ticks is processed in tick p+1 at the earliest, one queued event per tick; a one-shot processed in tick x expires in tick x+T (its release is written before any press of that tick), so a key processed in tick <= x+T-1 is modified".into(),
            "press variants release the one-shot rapid-event-delay ticks after the next key's press was processed and pause input processing meanwhile; release variants end in the tick after the first release of any key that was pressed after the one-shot became active (whichever of several such keys is released first); the release of a key that was already down when the one-shot was pressed does not end it".into(),
            "families (g)/(h) compute processing ticks as 'one event per tick, nothing pauses input'; that is used only where it holds: for the first key pressed after the one-shot and, in release variants, for keys pressed before the first follow-up release (release variants never pause input); press variants' later keys are only required to be unmodified, which does not depend on the tick".into(),
            "part 3 enumerates the follow-up keys' events only over the two plain keys; re-presses of the one-shot key between follow-up events are covered by part 1 up to its N".into(),
            "the guide says the first activated one-shot's variant governs a stack while the code uses the most recent one; stacks of mixed variants are therefore judged only by the variant-independent invariants (second key, probe, clean end)".into(),
            "fewer than 32 events pending (the stacked driver lets time pass when the queue reaches 27), at most 8 one-shot layer taps per history (fewer than 12 held layers)".into(),
            "part 4: nothing is queued when a one-shot key goes down (the driver waits for the queue to drain, at most a few ticks; the realized history is in the witness), because the release kanata queues for a pushed-out table entry is processed behind whatever is already pending; repeated taps under a backlog (part 2, up to 26 events pending) are therefore judged only by the second key / probe / clean-end invariants unless the taps were distinct".into(),
            "part 4: 'in time' means pressed 1-3 ticks after everything before it was processed, 'late' means at least timeout+3 ticks after the last one-shot press was processed; the exact expiry tick is judged in parts 1 and 3 only".into(),
            "part 4: the table of active one-shots holds the 16 most recent presses (same convention as part 2: a key none of whose presses is among them is no longer expected to apply) and the layout holds 64 key / layer states: histories are cut so that the pressed one-shot keys hold at most 56 key codes / layers at a time (33 presses of a two-key chord become 28)".into(),
            "part 4, recorded defects of the unchanged tree (known findings, each under a signature whose precondition is computed from the history alone): (1) the last press is held, it is at least the 17th, and the table entry it pushes out belongs to the same key -> the held key goes up when the one-shot ends; judged as known only if the key stays down as long as the one-shot is active (a key that goes up earlier has the live signature held-key-up-while-one-shot-active); (2) more than 16 releases are deferred (physical releases of tapped keys + one per pushed-out entry of a still active key) -> the key whose deferred release is the oldest loses its state; judged as known only if the first key shows exactly the expected set minus those keys and every such key kept its key codes down until the press of the tap that made the list overflow went in (a key that goes up earlier has the live signature first-key-misses-active-one-shots)".into(),
            "part 4 does not hold a one-shot key from the start of the stack while others are tapped 16 times (the pushed-out entry of a physically held key), and does not mix variants".into(),
            "part 5: a key of any action kind is 'another key' for a one-shot (guide: 'end on the first press of another key', 'on the first release of a newly pressed key'); that covers XX, which the guide describes as 'pressing the key will do nothing' - the code ends the one-shot on it like on any key, and the check expects that".into(),
            "part 5: the keys a macro plays count as key presses and releases of their own for a one-shot (deliberately so in keyberon, the guide is silent): a release variant ends when a macro releases its first key, not only when the macro key is released, and the press of the macro's first key is one more 'press of another key'. The macro follower therefore starts with a delay of T+10 ticks: the keys it plays arrive when the one-shot is over in every schedule, and the macro KEY is judged like any other key".into(),
            "part 5: 'modified' for an output that is not a key press (button, wheel, movement, unicode, arbitrary code) is judged per tick: the one-shot's key codes down before and after the tick = modified, up before and after = unmodified; an output in the very tick in which the one-shot's keys go up or down is not judged (counter nonkey_visible_press_in_the_tick_the_one_shot_ends_not_judged); the order of key and non-key outputs within one tick is not judged. Followers that write key codes of their own (x of unshift, shift and 1 of S-1, y of the macro, shift added by caps-word) are chosen disjoint from the one-shot's key codes; with one-shots of key codes the follower is unshift (touches the shift keys only) so that the one-shot's modifiers stay observable, the general unmod is used with the one-shot layer".into(),
            "part 5 has one one-shot key per configuration (stacks followed by non-key keys are not generated), no tap-hold / tap-dance / chord / switch followers (their action is decided later than the press), no fake-key, repeat, sequence-leader, dynamic-macro, cmd or live-reload followers".into(),
            "one kanata instance runs all schedules of an exhaustive case, each followed by a drain until the model is quiescent; a disagreement is re-judged on a fresh instance".into(),
        ]
    }
    fn floors(&self, ctx: &Ctx) -> Vec<(&'static str, u64)> {
        vec![
            ("schedules_exhaustive", ctx.tier.sel(1_000_000, 20_000_000)),
            ("one_shot_activations", 1_000_000),
            ("ended_by_timeout", 100_000),
            ("ended_by_input", 100_000),
            ("statement_checks", 10_000),
            ("histories_stacked", ctx.tier.sel(3_000, 60_000)),
            ("histories_table_full", 1_000),
            ("histories_more_than_16_stacked", 1_000),
            ("first_key_set_checks", 500),
            ("max_stack_depth", 16),
            ("histories_stacked_overlapping_followers", ctx.tier.sel(800, 16_000)),
            ("schedules_followers", ctx.tier.sel(2_000_000, 20_000_000)),
            ("statement_checks_followers", ctx.tier.sel(2_000_000, 20_000_000)),
            ("family:g:tap-then-interleaved-followers", 1_000_000),
            ("family:h:held-then-interleaved-followers", 500_000),
            ("follower_orders_later_pressed_released_first_then_press", 1_000),
            ("follower_orders_earlier_pressed_released_first_then_press", 1_000),
            ("ended_by_release_of_later_pressed_follower", 20_000),
            ("preheld_key_releases_not_ending", 50_000),
            ("restack_histories", ctx.tier.sel(20_000, 300_000)),
            ("restack_keys:1", ctx.tier.sel(6_000, 100_000)),
            ("restack_keys:2", ctx.tier.sel(6_000, 100_000)),
            ("restack_keys:3", ctx.tier.sel(6_000, 100_000)),
            ("restack_histories_more_than_16_presses", 10_000),
            ("restack_histories_table_full", 5_000),
            ("max_restack_table_len", 16),
            ("restack_histories_entry_of_active_key_pushed_out", 5_000),
            ("restack_entry_of_active_key_pushed_out_keys:1", 1_500),
            ("restack_entry_of_active_key_pushed_out_keys:2", 1_500),
            ("restack_entry_of_active_key_pushed_out_keys:3", 1_500),
            ("restack_histories_entry_of_active_key_pushed_out_then_held", 2_000),
            ("restack_first_key_checks", 10_000),
            ("restack_first_key_checks_after_active_entry_pushed_out", 1_500),
            ("restack_held_key_checks", 5_000),
            ("restack_pcancel_ended_by_repress", 3_000),
            ("restack_held_press_pushed_out_its_own_entry", 1_000),
            ("restack_more_than_16_releases_deferred", 20),
            ("restack_ending:tap-in-time", 4_000),
            ("restack_ending:tap-late", 4_000),
            ("restack_ending:held-in-time", 4_000),
            ("restack_ending:held-late", 4_000),
            ("nonkey_schedules", ctx.tier.sel(4_000_000, 20_000_000)),
            ("nonkey_statement_checks", ctx.tier.sel(4_000_000, 20_000_000)),
            ("nonkey_visible_follower_press_checks", 5_000_000),
            ("nonkey_visible_non_key_output_checks", 1_000_000),
            ("nonkey_held_one_shot_schedules", 1_000_000),
            ("nonkey_one_shots_ended_by_input", 1_000_000),
            ("nonkey_one_shots_ended_by_timeout", 1_000_000),
            ("nonkey_press_variant_ended_by_press_of_custom_action_key", 200_000),
            ("nonkey_press_variant_ended_by_press_of_non_key_follower", 400_000),
            ("nonkey_release_variant_ended_by_release_of_custom_action_key", 40_000),
            ("nonkey_release_variant_ended_by_release_of_non_key_follower", 80_000),
            ("nonkey_release_variant_ended_by_release_of_later_pressed_follower", 40_000),
            ("nonkey_press_variant_ended_by_press_of:mouse-button", 30_000),
            ("nonkey_press_variant_ended_by_press_of:mouse-button-tap", 30_000),
            ("nonkey_press_variant_ended_by_press_of:mouse-wheel", 30_000),
            ("nonkey_press_variant_ended_by_press_of:mouse-move", 30_000),
            ("nonkey_press_variant_ended_by_press_of:unicode", 30_000),
            ("nonkey_press_variant_ended_by_press_of:arbitrary-code", 30_000),
            ("nonkey_press_variant_ended_by_press_of:caps-word", 30_000),
            ("nonkey_press_variant_ended_by_press_of:unmod", 30_000),
            ("nonkey_press_variant_ended_by_press_of:layer-while-held", 30_000),
            ("nonkey_press_variant_ended_by_press_of:layer-switch", 30_000),
            ("nonkey_press_variant_ended_by_press_of:no-op", 30_000),
            ("nonkey_press_variant_ended_by_press_of:macro", 30_000),
            ("nonkey_press_variant_ended_by_press_of:output-chord", 30_000),
            ("nonkey_press_variant_ended_by_press_of:release-key", 30_000),
            ("nonkey_release_variant_ended_by_release_of:mouse-button", 4_000),
            ("nonkey_release_variant_ended_by_release_of:mouse-button-tap", 4_000),
            ("nonkey_release_variant_ended_by_release_of:mouse-wheel", 4_000),
            ("nonkey_release_variant_ended_by_release_of:mouse-move", 4_000),
            ("nonkey_release_variant_ended_by_release_of:unicode", 4_000),
            ("nonkey_release_variant_ended_by_release_of:arbitrary-code", 4_000),
            ("nonkey_release_variant_ended_by_release_of:caps-word", 4_000),
            ("nonkey_release_variant_ended_by_release_of:unmod", 4_000),
            ("nonkey_release_variant_ended_by_release_of:layer-while-held", 4_000),
            ("nonkey_release_variant_ended_by_release_of:layer-switch", 4_000),
            ("nonkey_release_variant_ended_by_release_of:no-op", 4_000),
            ("nonkey_release_variant_ended_by_release_of:macro", 4_000),
            ("nonkey_release_variant_ended_by_release_of:output-chord", 4_000),
            ("nonkey_release_variant_ended_by_release_of:release-key", 4_000),
            ("nonkey_later_follower:mouse-button", 100_000),
            ("nonkey_later_follower:unicode", 100_000),
            ("nonkey_later_follower:arbitrary-code", 100_000),
            ("nonkey_later_follower:plain", 1_000_000),
            ("nonkey_one_shot_of:key", 500),
            ("nonkey_one_shot_of:layer", 500),
            ("nonkey_one_shot_of:chord", 500),
            ("nonkey_variant:one-shot-press", 400),
            ("nonkey_variant:one-shot-release", 400),
            ("nonkey_variant:one-shot-press-pcancel", 400),
            ("nonkey_variant:one-shot-release-pcancel", 400),
        ]
    }
    fn exhaustive(&self, _ctx: &Ctx) -> bool {
        true
    }
    fn watchdog_s(&self, _ctx: &Ctx) -> u64 {
        180
    }
}
