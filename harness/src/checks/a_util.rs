//! Helpers shared by C04 / C05 / C06 (declared from c04.rs): per-tick output lists as key codes,
//! the "ordered, de-duplicated difference of consecutive key lists" that the reference models use to
//! produce OS events, schedule enumeration, diff classification, history helpers.

use crate::core::sim::{code_name, osc, Ev, Out, OutKind, Sim};
use std::collections::HashMap;
use std::sync::OnceLock;

/// what one tick wrote to the OS: (is_press, key code); anything that is not a key press / release
/// is reported with the code `ODD`
pub type TickOut = Vec<(bool, u16)>;
pub const ODD: u16 = 60_000;

fn name_table() -> &'static HashMap<String, u16> {
    static T: OnceLock<HashMap<String, u16>> = OnceLock::new();
    T.get_or_init(|| {
        let mut m = HashMap::new();
        for c in 0u16..767 {
            let n = code_name(c);
            if !n.starts_with('#') {
                m.entry(n).or_insert(c);
            }
        }
        m
    })
}

/// KeyCode debug name (as printed by the simulated output) -> OS code
pub fn name_code(n: &str) -> u16 {
    name_table().get(n).copied().unwrap_or(ODD)
}

/// kanata key name -> OS code (cached)
pub fn kc(name: &'static str) -> u16 {
    static T: OnceLock<std::sync::Mutex<HashMap<&'static str, u16>>> = OnceLock::new();
    let m = T.get_or_init(|| std::sync::Mutex::new(HashMap::new()));
    let mut g = m.lock().unwrap_or_else(|e| e.into_inner());
    *g.entry(name).or_insert_with(|| osc(name))
}

/// outputs of one step of the real kanata, redundant releases dropped
pub fn kanata_outs(outs: &[Out]) -> TickOut {
    let mut v = Vec::with_capacity(outs.len());
    for o in outs {
        if o.redundant {
            continue;
        }
        match o.kind {
            OutKind::Down => v.push((true, name_code(&o.name))),
            OutKind::Up => v.push((false, name_code(&o.name))),
            _ => v.push((true, ODD)),
        }
    }
    v
}

pub fn fmt_tick(t: &TickOut) -> String {
    let mut s = String::new();
    for (d, c) in t {
        if !s.is_empty() {
            s.push(' ');
        }
        s.push_str(if *d { "↓" } else { "↑" });
        if *c == ODD {
            s.push_str("<non-key>");
        } else {
            s.push_str(&code_name(*c));
        }
    }
    s
}

pub fn fmt_trace(tr: &[(u64, TickOut)]) -> Vec<String> {
    tr.iter().map(|(t, o)| format!("@{t}: {}", fmt_tick(o))).collect()
}

/// OS events as the ordered, de-duplicated difference of consecutive key lists: releases first (in
/// the order of the previous list), then presses (in the order of the current list); a release of
/// a key the OS already has up (duplicates in the list) is dropped.
#[derive(Default, Clone)]
pub struct OsDiff {
    prev: Vec<u16>,
    down: Vec<u16>,
}
impl OsDiff {
    pub fn step(&mut self, cur: &[u16]) -> TickOut {
        let mut out = vec![];
        for k in &self.prev {
            if !cur.contains(k) {
                if let Some(i) = self.down.iter().position(|x| x == k) {
                    self.down.swap_remove(i);
                    out.push((false, *k));
                }
            }
        }
        let mut seen: Vec<u16> = self.prev.clone();
        for k in cur {
            if !seen.contains(k) {
                seen.push(*k);
                if !self.down.contains(k) {
                    self.down.push(*k);
                }
                out.push((true, *k));
            }
        }
        self.prev.clear();
        self.prev.extend_from_slice(cur);
        out
    }
    pub fn is_down(&self, k: u16) -> bool {
        self.down.contains(&k)
    }
    pub fn all_up(&self) -> bool {
        self.down.is_empty()
    }
}

/// structural class of the first difference between what kanata wrote in a tick and what the model
/// expected (no key names, no numbers)
pub fn classify(k: &TickOut, m: &TickOut) -> String {
    let mut ks = k.clone();
    let mut ms = m.clone();
    ks.sort();
    ms.sort();
    if ks == ms {
        return "order-within-tick".into();
    }
    if k.iter().any(|x| x.1 == ODD) {
        return "non-key-output".into();
    }
    let side = |v: &TickOut, other: &TickOut| -> &'static str {
        // first element of v that other does not have
        match v.iter().find(|x| !other.contains(x)) {
            Some((true, _)) => "press",
            Some((false, _)) => "release",
            None => "none",
        }
    };
    format!("kanata-extra-{}:model-extra-{}", side(k, m), side(m, k))
}

/// Odometer over all consistent schedules of exactly `n` events: key choice per event (base `nk`,
/// the first `prefix.len()` fixed) x gap choice before every event but the first (base `ng`).
/// `f(keys, gaps)`; gaps[0] is unused (0).
pub fn for_each_schedule(nk: usize, ng: usize, n: usize, prefix: &[usize], mut f: impl FnMut(&[usize], &[usize]) -> bool) {
    if n == 0 || prefix.len() > n {
        return;
    }
    let mut keys = vec![0usize; n];
    let mut gaps = vec![0usize; n];
    keys[..prefix.len()].copy_from_slice(prefix);
    loop {
        if !f(&keys, &gaps) {
            return;
        }
        // increment gaps (positions 1..n), then free key digits (positions prefix.len()..n)
        let mut i = 1;
        let mut carried = true;
        while i < n {
            gaps[i] += 1;
            if gaps[i] < ng {
                carried = false;
                break;
            }
            gaps[i] = 0;
            i += 1;
        }
        if !carried {
            continue;
        }
        let mut j = prefix.len();
        let mut done = true;
        while j < n {
            keys[j] += 1;
            if keys[j] < nk {
                done = false;
                break;
            }
            keys[j] = 0;
            j += 1;
        }
        if done {
            return;
        }
    }
}

/// Turn an enumerated schedule into a physically consistent history over `codes`: event i toggles
/// key keys[i]; after the last event `tail` ticks pass and every key still down is released (in key
/// order, `tail_gap` ticks apart).
pub fn schedule_to_hist(codes: &[u16], keys: &[usize], gaps: &[usize], gapvals: &[u32], tail: u32, tail_gap: u32) -> Vec<Ev> {
    let mut h = Vec::with_capacity(keys.len() * 2 + 4);
    let mut down = [false; 16];
    for (i, &k) in keys.iter().enumerate() {
        if i > 0 {
            let g = gapvals[gaps[i]];
            if g > 0 {
                h.push(Ev::T(g));
            }
        }
        if down[k] {
            h.push(Ev::R(codes[k]));
        } else {
            h.push(Ev::P(codes[k]));
        }
        down[k] = !down[k];
    }
    let mut first = true;
    for (k, d) in down.iter().enumerate() {
        if *d {
            let g = if first { tail } else { tail_gap };
            first = false;
            if g > 0 {
                h.push(Ev::T(g));
            }
            h.push(Ev::R(codes[k]));
        }
    }
    h
}

pub fn hist_is_consistent(h: &[Ev]) -> bool {
    let mut down: Vec<u16> = vec![];
    for e in h {
        match e {
            Ev::P(k) => {
                if down.contains(k) {
                    return false;
                }
                down.push(*k)
            }
            Ev::R(k) => {
                if !down.contains(k) {
                    return false;
                }
                down.retain(|x| x != k)
            }
            Ev::T(_) => {}
            _ => return false,
        }
    }
    down.is_empty()
}

/// Greedy history minimisation: drop press/release pairs, drop and halve gaps, as long as `bad`
/// still holds.
pub fn minimise_hist(h: &[Ev], bad: &mut dyn FnMut(&[Ev]) -> bool) -> Vec<Ev> {
    let mut h = h.to_vec();
    let mut budget = 4000usize;
    let mut progress = true;
    while progress && budget > 0 {
        progress = false;
        let mut i = 0;
        while i < h.len() && budget > 0 {
            let mut cand = h.clone();
            let removed = cand.remove(i);
            let mut ok = false;
            match removed {
                Ev::P(k) => {
                    if let Some(j) = cand.iter().skip(i).position(|e| *e == Ev::R(k)) {
                        cand.remove(i + j);
                        budget -= 1;
                        ok = hist_is_consistent(&cand) && bad(&cand);
                    }
                }
                Ev::R(_) => {}
                _ => {
                    budget -= 1;
                    ok = bad(&cand);
                }
            }
            if ok {
                h = cand;
                progress = true;
                continue;
            }
            if let Ev::T(n) = h[i] {
                if n > 1 {
                    let mut cand = h.clone();
                    cand[i] = Ev::T(n - 1);
                    budget = budget.saturating_sub(1);
                    if bad(&cand) {
                        // try a bigger step too
                        let mut c2 = h.clone();
                        c2[i] = Ev::T(n / 2);
                        if n > 3 && bad(&c2) {
                            h = c2;
                        } else {
                            h = cand;
                        }
                        progress = true;
                        continue;
                    }
                }
            }
            i += 1;
        }
    }
    // merge adjacent gaps
    let mut out: Vec<Ev> = vec![];
    for e in h {
        match (out.last_mut(), &e) {
            (Some(Ev::T(a)), Ev::T(b)) => *a += *b,
            _ => out.push(e),
        }
    }
    out
}

/// forget the recorded trace of a long-lived Sim (the OS model is kept)
pub fn clear_trace(sim: &mut Sim) {
    sim.trace.clear();
    sim.last_step_start = 0;
}

/// total ticks in a history
pub fn hist_ticks(h: &[Ev]) -> u64 {
    h.iter().map(|e| if let Ev::T(n) = e { *n as u64 } else { 0 }).sum()
}
