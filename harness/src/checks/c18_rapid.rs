//! C18 part F: rapid-fire operation histories.
//!
//! The operation histories of part A are spaced so that every operation has taken effect before the
//! next one is issued. Here the operations follow each other with 0, 1, 2 ... ticks between them:
//! direct fake-key calls back to back, physical keys carrying `(multi (on-press OP v) (on-release
//! OP v))` rolled over each other (the release of one key and the press of the next arrive in the same
//! millisecond or in consecutive ones), and both mixed. The reference model is the one of part A: it
//! applies the operations in the order in which they are issued, whatever the spacing; judged are the
//! state the virtual keys end up in and the whole OS key stream (plus, for a layer-while-held virtual
//! key, the sequence of layer activations sampled after every tick) at order level.
//!
//! A small queue model (one queued event consumed per tick, virtual key events queued behind what is
//! already waiting - DESIGN appendix A) gives the order in which the operations are issued when
//! direct calls and physical keys are mixed, says which operations were issued while an earlier event
//! of the same virtual key was still waiting (the counters that prove the dimension was reached), and
//! predicts what a `toggle` does that looks at the processed state only (the known finding
//! `findings/C18-toggle-reads-state-before-queued-events.md`).

use super::{quiet_settle, tap_phys, Op, OPS, PROBE, PROBE_NAV, STRIDE, VNAMES};
use crate::core::rng::Rng;
use crate::core::sim::{code_name, osc, render_hist, Ev, OutKind, Sim};
use crate::core::{CaseOut, Ctx};
use serde_json::{json, Value};
use std::collections::{BTreeSet, VecDeque};

#[derive(Clone, Copy, PartialEq, Eq, Debug)]
pub enum RKind {
    Key(&'static str),
    Layer,
}

/// A physical trigger key: the operation performed when it is pressed / when it is released.
#[derive(Clone, Copy, Debug)]
pub struct RKey {
    pub on_press: Option<(usize, Op)>,
    pub on_release: Option<(usize, Op)>,
}

const fn hold(v: usize) -> RKey {
    RKey { on_press: Some((v, Op::Press)), on_release: Some((v, Op::Release)) }
}

#[derive(Clone, Debug)]
pub struct ConfR {
    pub name: &'static str,
    /// signature component: which trigger path the operations take
    pub path: &'static str,
    pub vkinds: &'static [RKind],
    pub keys: &'static [RKey],
    /// direct fake-key calls are part of the alphabet
    pub direct: bool,
    pub gaps: &'static [u64],
    /// number of steps enumerated completely (quick, thorough)
    pub n: (u32, u32),
}

const RTRIG: [&str; 8] = ["a", "b", "c", "d", "e", "f", "g", "h"];

const KEYS_ONE: &[RKey] = &[
    // two keys that hold the virtual key while they are held: a roll from one to the other
    hold(0),
    hold(0),
    RKey { on_press: Some((0, Op::Toggle)), on_release: None },
    RKey { on_press: None, on_release: Some((0, Op::Tap)) },
    // the inverse key: releases on press, presses on release
    RKey { on_press: Some((0, Op::Release)), on_release: Some((0, Op::Press)) },
];
const KEYS_TWO: &[RKey] = &[
    hold(0),
    hold(0),
    hold(1),
    hold(1),
    RKey { on_press: Some((0, Op::Toggle)), on_release: Some((1, Op::Toggle)) },
    RKey { on_press: Some((1, Op::Tap)), on_release: Some((0, Op::Tap)) },
];
const KEYS_MIXED: &[RKey] = &[hold(0), hold(0)];

pub const CONFS_R: &[ConfR] = &[
    ConfR { name: "key", path: "direct", vkinds: &[RKind::Key("1")], keys: &[], direct: true, gaps: &[0, 1, 2, 5], n: (4, 5) },
    ConfR { name: "layer", path: "direct", vkinds: &[RKind::Layer], keys: &[], direct: true, gaps: &[0, 1, 2, 5], n: (4, 5) },
    ConfR { name: "key+layer", path: "direct", vkinds: &[RKind::Key("1"), RKind::Layer], keys: &[], direct: true, gaps: &[0, 1, 3], n: (3, 4) },
    ConfR { name: "key", path: "on-press+on-release", vkinds: &[RKind::Key("1")], keys: KEYS_ONE, direct: false, gaps: &[0, 1, 2, 5], n: (4, 5) },
    ConfR { name: "layer", path: "on-press+on-release", vkinds: &[RKind::Layer], keys: KEYS_ONE, direct: false, gaps: &[0, 1, 2, 5], n: (4, 5) },
    ConfR { name: "key+layer", path: "on-press+on-release", vkinds: &[RKind::Key("1"), RKind::Layer], keys: KEYS_TWO, direct: false, gaps: &[0, 1, 3], n: (4, 5) },
    ConfR { name: "key", path: "mixed", vkinds: &[RKind::Key("1")], keys: KEYS_MIXED, direct: true, gaps: &[0, 1, 3], n: (4, 5) },
    ConfR { name: "layer", path: "mixed", vkinds: &[RKind::Layer], keys: KEYS_MIXED, direct: true, gaps: &[0, 1, 3], n: (4, 5) },
];

/// thorough tier: histories beyond this many per configuration are sampled with a fixed stride
pub const CAP_R: u64 = 600_000;
pub const CHUNK_R: u64 = 2048;

impl ConfR {
    pub fn label(&self) -> String {
        format!("rapid|{}|{}", self.name, self.path)
    }
    fn direct_alphabet(&self) -> Vec<(usize, Op)> {
        let mut v = vec![];
        if self.direct {
            for i in 0..self.vkinds.len() {
                for op in OPS {
                    v.push((i, op));
                }
            }
        }
        v
    }
    /// number of symbols a step can name: the physical keys, then the direct operations
    fn syms(&self) -> u64 {
        (self.keys.len() + self.direct_alphabet().len()) as u64
    }
    pub fn text(&self) -> String {
        let mut vk = String::new();
        for (i, k) in self.vkinds.iter().enumerate() {
            let act = match k {
                RKind::Key(o) => o.to_string(),
                RKind::Layer => "(layer-while-held nav)".into(),
            };
            vk.push_str(&format!(" {} {}", VNAMES[i], act));
        }
        let mut acts = vec![];
        for j in 0..RTRIG.len() {
            let a = match self.keys.get(j) {
                None => "XX".to_string(),
                Some(k) => {
                    let p = k.on_press.map(|(v, op)| format!("(on-press {} {})", op.new_name(), VNAMES[v]));
                    let r = k.on_release.map(|(v, op)| format!("(on-release {} {})", op.new_name(), VNAMES[v]));
                    match (p, r) {
                        (Some(p), Some(r)) => format!("(multi {p} {r})"),
                        (Some(x), None) | (None, Some(x)) => x,
                        (None, None) => "XX".into(),
                    }
                }
            };
            acts.push(a);
        }
        format!(
            "(defcfg process-unmapped-keys yes)\n(defsrc {} {PROBE})\n(defvirtualkeys{vk})\n(deflayer base {} {PROBE})\n(deflayer nav {} {PROBE_NAV})\n",
            RTRIG.join(" "),
            acts.join(" "),
            vec!["_"; RTRIG.len()].join(" ")
        )
    }
    pub fn nmax(&self, ctx: &Ctx) -> u32 {
        ctx.tier.sel(self.n.0, self.n.1)
    }
    /// histories of 1..=n steps; the gap of the first step is not used
    pub fn space(&self, n: u32) -> u64 {
        let s = self.syms();
        let per = s * self.gaps.len() as u64;
        (1..=n).map(|k| s * per.pow(k - 1)).sum()
    }
    pub fn total(&self, ctx: &Ctx) -> u64 {
        self.space(self.nmax(ctx)).min(CAP_R)
    }
    fn decode(&self, mut idx: u64, nmax: u32) -> Option<Vec<(u64, usize)>> {
        let s = self.syms();
        let g = self.gaps.len() as u64;
        let per = s * g;
        let mut n = 1;
        loop {
            if n > nmax {
                return None;
            }
            let b = s * per.pow(n - 1);
            if idx < b {
                break;
            }
            idx -= b;
            n += 1;
        }
        let mut steps = vec![(0, (idx % s) as usize)];
        idx /= s;
        for _ in 1..n {
            let gap = self.gaps[(idx % g) as usize];
            idx /= g;
            steps.push((gap, (idx % s) as usize));
            idx /= s;
        }
        Some(steps)
    }
}

#[derive(Clone, Copy, PartialEq, Eq, Debug)]
enum REv {
    P(usize),
    R(usize),
    D(usize, Op),
}

/// Steps to events: a step naming a physical key presses it if it is up and releases it if it is
/// down; a step naming a direct operation performs it. Keys still down at the end are released one
/// tick apart.
fn events(c: &ConfR, steps: &[(u64, usize)]) -> Vec<(u64, REv)> {
    let alpha = c.direct_alphabet();
    let nk = c.keys.len();
    let mut down = vec![false; nk];
    let mut evs = vec![];
    let mut t = 0u64;
    for (i, (g, s)) in steps.iter().enumerate() {
        if i > 0 {
            t += g;
        }
        if *s < nk {
            evs.push((t, if down[*s] { REv::R(*s) } else { REv::P(*s) }));
            down[*s] = !down[*s];
        } else {
            let (v, op) = alpha[*s - nk];
            evs.push((t, REv::D(v, op)));
        }
    }
    for k in 0..nk {
        if down[k] {
            t += 1;
            evs.push((t, REv::R(k)));
        }
    }
    evs
}

#[derive(Clone, Debug, PartialEq, Eq)]
struct SEv {
    down: bool,
    name: String,
}

fn render_sevs(v: &[SEv]) -> Vec<String> {
    v.iter().map(|e| format!("{}{}", if e.down { "↓" } else { "↑" }, e.name)).collect()
}

const LAYER_NAME: &str = "<layer nav>";

#[derive(Default, Debug, Clone)]
struct RStats {
    ops: u64,
    /// operations issued while an earlier event of the same virtual key was still queued
    ops_while_own_event_queued: u64,
    /// press issued while a release of the same virtual key was still queued and the key was down
    press_while_release_queued: u64,
    press_while_release_queued_by_physical_key: u64,
    press_while_release_queued_direct: u64,
    /// ... per virtual key
    press_while_release_queued_on: Vec<u64>,
    /// ... release issued while the press was still queued (the key not down yet)
    release_while_press_queued: u64,
    tap_while_own_event_queued: u64,
    /// toggle issued while the processed state of its virtual key differed from the state the
    /// operations issued so far lead to
    toggle_while_own_event_queued: u64,
    /// release of one hold key and press of another hold key of the same virtual key at most one
    /// tick apart
    rolls: u64,
    same_ms_pairs: u64,
    max_queue: u64,
    /// last operation issued per virtual key
    last_op: Vec<Option<Op>>,
    /// per virtual key: was a toggle of it issued while its processed state was stale
    stale_toggle_on: Vec<bool>,
}

#[derive(Clone, Copy, PartialEq, Eq, Debug)]
enum QI {
    Phys(usize, bool),
    V(usize, bool),
}

/// The reference model. `stale_toggle` = false: operations are applied in the order issued (toggle
/// looks at the state the operations issued so far lead to). `stale_toggle` = true: toggle looks at
/// the processed state only (what the unchanged code does).
fn model(c: &ConfR, evs: &[(u64, REv)], nm: &[String], stale_toggle: bool) -> (Vec<SEv>, Vec<bool>, RStats) {
    let nv = c.vkinds.len();
    let mut st = RStats { last_op: vec![None; nv], stale_toggle_on: vec![false; nv], press_while_release_queued_on: vec![0; nv], ..Default::default() };
    let mut out = vec![];
    let mut logical = vec![false; nv];
    let mut processed = vec![false; nv];
    let mut q: VecDeque<QI> = VecDeque::new();
    let mut next = 0;
    let mut tick = 0u64;
    st.same_ms_pairs = evs.windows(2).filter(|w| w[0].0 == w[1].0).count() as u64;
    for w in evs.windows(2) {
        if let (REv::R(a), REv::P(b)) = (w[0].1, w[1].1) {
            let (ka, kb) = (c.keys[a], c.keys[b]);
            let is_hold = |k: RKey| matches!((k.on_press, k.on_release), (Some((_, Op::Press)), Some((_, Op::Release))));
            if is_hold(ka) && is_hold(kb) && ka.on_press.map(|x| x.0) == kb.on_press.map(|x| x.0) && w[1].0 - w[0].0 <= 1 {
                st.rolls += 1;
            }
        }
    }
    fn issue(v: usize, op: Op, by_key: bool, stale_toggle: bool, q: &mut VecDeque<QI>, logical: &mut [bool], processed: &[bool], st: &mut RStats) {
        st.ops += 1;
        let own_queued = q.iter().any(|e| matches!(e, QI::V(x, _) if *x == v));
        if own_queued {
            st.ops_while_own_event_queued += 1;
        }
        let last_own = q.iter().rev().find_map(|e| match e {
            QI::V(x, p) if *x == v => Some(*p),
            _ => None,
        });
        match op {
            Op::Press => {
                if last_own == Some(false) && processed[v] {
                    st.press_while_release_queued += 1;
                    st.press_while_release_queued_on[v] += 1;
                    if by_key {
                        st.press_while_release_queued_by_physical_key += 1;
                    } else {
                        st.press_while_release_queued_direct += 1;
                    }
                }
                q.push_back(QI::V(v, true));
                logical[v] = true;
            }
            Op::Release => {
                if last_own == Some(true) && !processed[v] {
                    st.release_while_press_queued += 1;
                }
                q.push_back(QI::V(v, false));
                logical[v] = false;
            }
            Op::Tap => {
                if own_queued {
                    st.tap_while_own_event_queued += 1;
                }
                q.push_back(QI::V(v, true));
                q.push_back(QI::V(v, false));
                logical[v] = false;
            }
            Op::Toggle => {
                if processed[v] != logical[v] {
                    st.toggle_while_own_event_queued += 1;
                    st.stale_toggle_on[v] = true;
                }
                let cur = if stale_toggle { processed[v] } else { logical[v] };
                q.push_back(QI::V(v, !cur));
                logical[v] = !cur;
            }
        }
        st.last_op[v] = Some(op);
    }
    while next < evs.len() || !q.is_empty() {
        tick += 1;
        while next < evs.len() && evs[next].0 < tick {
            match evs[next].1 {
                REv::P(k) => q.push_back(QI::Phys(k, true)),
                REv::R(k) => q.push_back(QI::Phys(k, false)),
                REv::D(v, op) => issue(v, op, false, stale_toggle, &mut q, &mut logical, &processed, &mut st),
            }
            next += 1;
        }
        st.max_queue = st.max_queue.max(q.len() as u64);
        match q.pop_front() {
            Some(QI::Phys(k, press)) => {
                let o = if press { c.keys[k].on_press } else { c.keys[k].on_release };
                if let Some((v, op)) = o {
                    issue(v, op, true, stale_toggle, &mut q, &mut logical, &processed, &mut st);
                }
            }
            Some(QI::V(v, press)) => {
                if press != processed[v] {
                    out.push(SEv { down: press, name: nm[v].clone() });
                }
                processed[v] = press;
            }
            None => {}
        }
        if tick > 10_000 {
            break;
        }
    }
    (out, logical, st)
}

struct Observed {
    stream: Vec<SEv>,
    raw: Vec<String>,
    hist: Vec<Ev>,
    /// per virtual key: down for the OS / layer active
    state: Vec<bool>,
    settled: bool,
}

fn collect_step(sim: &Sim, c: &ConfR, layer_on: &mut bool, stream: &mut Vec<SEv>, raw: &mut Vec<String>) {
    for o in sim.last() {
        raw.push(o.short());
        if o.redundant {
            continue;
        }
        let name = if matches!(o.kind, OutKind::Down | OutKind::Up) && !o.repress { o.name.clone() } else { format!("<{:?}:{}>", o.kind, o.name) };
        stream.push(SEv { down: o.kind == OutKind::Down, name });
    }
    if c.vkinds.contains(&RKind::Layer) {
        let on = sim.k.layout.b().current_layer() != 0;
        if on != *layer_on {
            *layer_on = on;
            stream.push(SEv { down: on, name: LAYER_NAME.into() });
            raw.push(format!("{}{LAYER_NAME}@{}", if on { "↓" } else { "↑" }, sim.now));
        }
    }
}

fn drive(sim: &mut Sim, c: &ConfR, evs: &[(u64, REv)], nm: &[String]) -> Observed {
    sim.trace.clear();
    sim.last_step_start = 0;
    let mut hist = vec![];
    let mut stream = vec![];
    let mut raw = vec![];
    let mut layer_on = sim.k.layout.b().current_layer() != 0;
    let mut next = 0;
    let mut gap = 0u32;
    let end = evs.last().map(|e| e.0).unwrap_or(0) + 1;
    for tick in 1..=end {
        while next < evs.len() && evs[next].0 < tick {
            if gap > 0 {
                hist.push(Ev::T(gap));
                gap = 0;
            }
            match evs[next].1 {
                REv::P(k) => {
                    let code = osc(RTRIG[k]);
                    sim.press(code);
                    hist.push(Ev::P(code));
                }
                REv::R(k) => {
                    let code = osc(RTRIG[k]);
                    sim.release(code);
                    hist.push(Ev::R(code));
                }
                REv::D(v, op) => {
                    // a direct call only queues events: nothing to collect
                    sim.fakekey(VNAMES[v], op.ch());
                    hist.push(Ev::Fk(VNAMES[v].to_string(), op.ch()));
                    next += 1;
                    continue;
                }
            }
            collect_step(sim, c, &mut layer_on, &mut stream, &mut raw);
            next += 1;
        }
        sim.tick();
        gap += 1;
        collect_step(sim, c, &mut layer_on, &mut stream, &mut raw);
    }
    // settle: until nothing is queued and nothing has been output for a while
    let start = sim.now;
    let mut quiet = 0;
    let mut settled = false;
    while sim.now - start < 120 {
        let l = sim.k.layout.b();
        let busy = !l.queue.is_empty() || !l.active_sequences.is_empty() || !l.action_queue.is_empty();
        if !busy && quiet >= 4 {
            settled = true;
            break;
        }
        sim.tick();
        gap += 1;
        let before = stream.len();
        collect_step(sim, c, &mut layer_on, &mut stream, &mut raw);
        if stream.len() == before && !busy {
            quiet += 1;
        } else {
            quiet = 0;
        }
    }
    hist.push(Ev::T(gap));
    let state = c
        .vkinds
        .iter()
        .enumerate()
        .map(|(i, k)| match k {
            RKind::Key(_) => sim.os.keys_down.contains(&nm[i]),
            RKind::Layer => sim.k.layout.b().current_layer() != 0,
        })
        .collect();
    Observed { stream, raw, hist, state, settled }
}

/// Bring a re-used instance back to the initial state; false if that did not work.
fn reset(sim: &mut Sim, c: &ConfR) -> bool {
    for i in 0..c.vkinds.len() {
        sim.fakekey(VNAMES[i], 'r');
        sim.tick();
    }
    quiet_settle(sim, 4, 3, 80);
    let l = sim.k.layout.b();
    sim.os.all_up() && l.current_layer() == 0 && l.states.is_empty() && l.queue.is_empty()
}

fn judge(sim: &mut Sim, c: &ConfR, steps: &[(u64, usize)], nm: &[String], probe: &(String, String), out: Option<&mut CaseOut>) -> Option<(String, String, Value)> {
    let evs = events(c, steps);
    let (exp, exp_state, st) = model(c, &evs, nm, false);
    let mut obs = drive(sim, c, &evs, nm);
    if let Some(out) = out {
        out.inc("rapid_histories");
        out.inc(&format!("rapid_histories_{}", c.path));
        out.count("rapid_operations", st.ops);
        out.count("rapid_same_ms_event_pairs", st.same_ms_pairs);
        out.count("rapid_rolls_between_two_hold_keys", st.rolls);
        out.count("rapid_ops_issued_while_own_event_queued", st.ops_while_own_event_queued);
        out.count("rapid_press_issued_while_own_release_queued", st.press_while_release_queued);
        out.count("rapid_press_issued_while_own_release_queued_by_physical_key", st.press_while_release_queued_by_physical_key);
        out.count("rapid_press_issued_while_own_release_queued_direct_call", st.press_while_release_queued_direct);
        for (i, k) in c.vkinds.iter().enumerate() {
            let name = if *k == RKind::Layer { "rapid_press_issued_while_own_release_queued_layer_virtual_key" } else { "rapid_press_issued_while_own_release_queued_key_virtual_key" };
            out.count(name, st.press_while_release_queued_on[i]);
        }
        out.count("rapid_release_issued_while_own_press_queued", st.release_while_press_queued);
        out.count("rapid_tap_issued_while_own_event_queued", st.tap_while_own_event_queued);
        out.count("rapid_toggle_issued_while_own_event_queued", st.toggle_while_own_event_queued);
        out.max("rapid_queue_length", st.max_queue);
        if evs.len() >= 2 {
            out.tag(format!("{}|{}|{}|{}|{}|{}", c.label(), evs.len(), st.same_ms_pairs, st.ops_while_own_event_queued, st.press_while_release_queued, exp.len()));
        }
    }
    let mut exp = exp;
    // the layer, shown through the OS stream by a probe key
    if c.vkinds.contains(&RKind::Layer) {
        let before = sim.trace.len();
        tap_phys(sim, PROBE, &mut obs.hist);
        quiet_settle(sim, 3, 2, 40);
        for o in &sim.trace[before..] {
            obs.raw.push(o.short());
            if !o.redundant {
                obs.stream.push(SEv { down: o.kind == OutKind::Down, name: o.name.clone() });
            }
        }
        let on = c.vkinds.iter().enumerate().any(|(i, k)| *k == RKind::Layer && exp_state[i]);
        let n = if on { probe.1.clone() } else { probe.0.clone() };
        exp.push(SEv { down: true, name: n.clone() });
        exp.push(SEv { down: false, name: n });
    }
    let witness = |exp: &[SEv], obs: &Observed, extra: String| {
        json!({
            "config": c.text(),
            "history": render_hist(&obs.hist),
            "note": "events without a tick between them arrive in the same millisecond; a physical key's operation is issued in the tick that processes its press / release (one queued event per tick), a direct call at once",
            "observed": obs.raw,
            "observed_stream": render_sevs(&obs.stream),
            "expected_stream": render_sevs(exp),
            "expected_final_state": exp_state.iter().enumerate().map(|(i, p)| format!("{} {}", VNAMES[i], if *p { "pressed" } else { "released" })).collect::<Vec<_>>(),
            "detail": extra,
        })
    };
    if !obs.settled {
        return Some((format!("C18:rapid:{}:not-settled", c.path), "kanata kept producing output / stayed busy after the last operation".into(), witness(&exp, &obs, String::new())));
    }
    let state_ok = obs.state == exp_state;
    if state_ok && obs.stream == exp {
        return None;
    }
    // does the observation equal what a toggle that reads the processed state would give?
    if st.toggle_while_own_event_queued > 0 {
        let (mut exp2, state2, st2) = model(c, &evs, nm, true);
        if c.vkinds.contains(&RKind::Layer) {
            let on = c.vkinds.iter().enumerate().any(|(i, k)| *k == RKind::Layer && state2[i]);
            let n = if on { probe.1.clone() } else { probe.0.clone() };
            exp2.push(SEv { down: true, name: n.clone() });
            exp2.push(SEv { down: false, name: n });
        }
        if st2.toggle_while_own_event_queued > 0 && obs.state == state2 && obs.stream == exp2 {
            return Some((
                format!("C18:rapid:toggle-reads-state-before-own-queued-event:{}", c.path),
                "a toggle issued while an earlier event of the same virtual key was still queued acted on the state before that event (observed = the model with exactly this reading of toggle)".into(),
                witness(&exp, &obs, "known class: observed stream and final state equal the reference model in which toggle looks at the processed state instead of the state the operations issued so far lead to".into()),
            ));
        }
    }
    if !state_ok {
        let i = (0..exp_state.len()).find(|i| obs.state[*i] != exp_state[*i]).unwrap_or(0);
        let what = match c.vkinds[i] {
            RKind::Key(_) => "state",
            RKind::Layer => "layer-state",
        };
        let op = st.last_op[i].map(|o| if o == Op::Toggle { "toggle" } else { o.old_name() }).unwrap_or("nothing");
        return Some((
            format!("C18:rapid:{}:{what}-after-{op}", c.path),
            format!("after the last operation took effect virtual key {} is {} but the operations in the order issued end with it {} (last operation on it: {op})", VNAMES[i], if obs.state[i] { "pressed" } else { "released" }, if exp_state[i] { "pressed" } else { "released" }),
            witness(&exp, &obs, String::new()),
        ));
    }
    let (ao, ae) = (obs.stream.iter().filter(|e| e.down).count(), exp.iter().filter(|e| e.down).count());
    let class = if ao > ae {
        "extra-output"
    } else if ao < ae {
        "missing-output"
    } else {
        "different-output"
    };
    Some((format!("C18:rapid:{}:stream:{class}", c.path), "the OS key stream (and layer activations) differ from the model's".into(), witness(&exp, &obs, String::new())))
}

fn names(c: &ConfR) -> (Vec<String>, (String, String)) {
    (
        c.vkinds
            .iter()
            .map(|k| match k {
                RKind::Key(o) => code_name(osc(o)),
                RKind::Layer => LAYER_NAME.to_string(),
            })
            .collect(),
        (code_name(osc(PROBE)), code_name(osc(PROBE_NAV))),
    )
}

/// Run the histories `steps_of(i)` for i in a..b on one re-used instance; a mismatch is confirmed on
/// a fresh instance before it is reported.
fn run_many(out: &mut CaseOut, c: &ConfR, hists: &mut dyn Iterator<Item = Vec<(u64, usize)>>) {
    let cfg = c.text();
    let (nm, probe) = names(c);
    let mut sim = match Sim::new(&cfg) {
        Ok(s) => s,
        Err(e) => {
            out.inconclusive = Some(format!("config rejected ({}): {}", c.label(), e.lines().next().unwrap_or("")));
            return;
        }
    };
    let mut reported: BTreeSet<String> = Default::default();
    for steps in hists {
        let mut res = judge(&mut sim, c, &steps, &nm, &probe, Some(out));
        let mut fresh_needed = res.is_some();
        if res.is_some() {
            if let Ok(mut fresh) = Sim::new(&cfg) {
                let r2 = judge(&mut fresh, c, &steps, &nm, &probe, None);
                if r2.is_none() {
                    out.inc("mismatch_not_reproduced_on_fresh_instance");
                    out.inconclusive = Some("a rapid-fire mismatch on a re-used instance did not reproduce on a fresh one".into());
                }
                res = r2;
            }
        }
        if !fresh_needed && !reset(&mut sim, c) {
            fresh_needed = true;
            out.inc("rapid_instances_replaced_after_failed_reset");
        }
        if fresh_needed {
            match Sim::new(&cfg) {
                Ok(s) => sim = s,
                Err(_) => return,
            }
        }
        if let Some((sig, what, wit)) = res {
            if reported.insert(sig.clone()) {
                out.violate(sig, format!("{}: {what}", c.label()), wit);
            }
        }
    }
}

pub fn run_enumerated(out: &mut CaseOut, ctx: &Ctx, ci: usize, a: u64, b: u64) {
    let c = &CONFS_R[ci];
    let nmax = c.nmax(ctx);
    let space = c.space(nmax);
    let sampled = space > CAP_R;
    let mut it = (a..b).filter_map(|i| {
        let idx = if sampled { i.wrapping_mul(STRIDE) % space } else { i };
        c.decode(idx, nmax)
    });
    run_many(out, c, &mut it);
    if a == 0 {
        out.sample = Some(json!({"config": c.text(), "histories": format!("all rapid-fire histories of up to {nmax} steps over {} symbols (physical keys toggled / direct operations) and the distances {:?} ticks", c.syms(), c.gaps)}));
    }
}

/// seeded part: longer histories (5..10 steps), distances 0..3 with bursts of same-millisecond steps
pub fn run_random(out: &mut CaseOut, ctx: &Ctx, chunk: u64, n: u64) {
    let mut rng = Rng::for_case(ctx.seed, "C18", "rapid", chunk);
    let c = &CONFS_R[(chunk % CONFS_R.len() as u64) as usize];
    let syms = c.syms();
    let mut hists = vec![];
    for _ in 0..n {
        let len = rng.range(5, 11);
        let mut steps = vec![];
        let mut burst = false;
        for i in 0..len {
            let g = if i == 0 {
                0
            } else if burst && rng.chance(1, 2) {
                0
            } else {
                *rng.pick(&[0u64, 0, 1, 1, 1, 2, 3, 6])
            };
            burst = g == 0;
            steps.push((g, rng.below(syms) as usize));
        }
        hists.push(steps);
    }
    out.count("rapid_histories_seeded", n);
    run_many(out, c, &mut hists.into_iter());
}

pub fn random_chunks(ctx: &Ctx) -> (u64, u64) {
    ctx.tier.sel((16, 256), (64, 2048))
}
