//! C06 part 4 — the SAME few one-shot keys tapped again and again within one activation.
//!
//! One, two or three distinct one-shot keys (key, output chord, layer-while-held in three
//! assignments, three different timeouts) are pressed 15..=20 or 33 times in a row (thorough: every
//! count 14..=40), every press before the timeout of the previous one ran out and no other key in
//! between, in round-robin order, random order, in blocks, or one key all the time and the others for
//! the last 15 presses. With more than 16 presses the 16-slot
//! table of active one-shots overflows and the entry that is pushed out belongs to a key that is
//! (non-pcancel variants) still active further up in the table. Then one of four endings follows:
//!   tap/in-time   last one-shot key released, plain key 1-3 ticks later, second plain key, late probe
//!   tap/late      the same, the first plain key only after the timeout ran out
//!   held/in-time  the last one-shot press is HELD; plain key, second plain key, then it is released
//!   held/late     the same, the first plain key only after the timeout ran out
//! Judged by the statement alone, read off the OS stream (no model of kanata's table other than
//! "it holds 16 entries"): the first following key is modified by exactly the one-shots that are
//! still active (all tapped keys that occur among the 16 most recent presses, in time; pcancel
//! variants: a re-press of an active one-shot key ended everything, so the parity-like fold of
//! `table_after`), plus the held key; the second key and the probe are modified by nothing but a
//! key that is physically held; a held one-shot key stays down in the output for as long as it is
//! held; nothing is down, active or queued at the end.

use super::*;

pub const RS_PHYS: [&str; 3] = ["a", "b", "c"];
pub const N_KINDSETS: usize = 3;

/// what the three one-shot keys hold down (pairwise disjoint key codes)
pub fn kindset(sel: usize) -> [Kind2; 3] {
    match sel % N_KINDSETS {
        0 => [Kind2::Keys(vec!["lsft"]), Kind2::Keys(vec!["lctl", "lalt"]), Kind2::Keys(vec!["ralt"])],
        1 => [Kind2::Layer(1), Kind2::Keys(vec!["lsft"]), Kind2::Keys(vec!["lctl", "lalt"])],
        _ => [Kind2::Keys(vec!["lctl", "lalt"]), Kind2::Layer(1), Kind2::Layer(2)],
    }
}

#[derive(Clone, Copy, Debug, PartialEq, Eq)]
pub enum Ending {
    TapInTime,
    TapLate,
    HeldInTime,
    HeldLate,
}
pub const ENDINGS: [Ending; 4] = [Ending::TapInTime, Ending::TapLate, Ending::HeldInTime, Ending::HeldLate];
impl Ending {
    pub fn name(self) -> &'static str {
        match self {
            Ending::TapInTime => "tap-in-time",
            Ending::TapLate => "tap-late",
            Ending::HeldInTime => "held-in-time",
            Ending::HeldLate => "held-late",
        }
    }
    pub fn held(self) -> bool {
        matches!(self, Ending::HeldInTime | Ending::HeldLate)
    }
    pub fn late(self) -> bool {
        matches!(self, Ending::TapLate | Ending::HeldLate)
    }
}

pub const PATTERNS: [&str; 4] = ["round-robin", "random", "blocks", "long-run-then-others"];

#[derive(Clone, Debug)]
pub struct Cfg4 {
    pub end: End,
    pub kindsel: usize,
    pub t: u16,
    pub red: u16,
}

impl Cfg4 {
    /// the three one-shot keys have three different timeouts
    pub fn t_of(&self, i: usize) -> u16 {
        self.t + [0u16, 5, 11][i % 3]
    }
    pub fn render(&self) -> String {
        let kinds = kindset(self.kindsel);
        let mut s = String::new();
        if self.red != 5 {
            s.push_str(&format!("(defcfg rapid-event-delay {})\n", self.red));
        }
        s.push_str(&format!("(defsrc {} {})\n", RS_PHYS.join(" "), PLAIN_PHYS.join(" ")));
        let mut row = vec![];
        for (i, k) in kinds.iter().enumerate() {
            let name = self.end.name(i % 2 == 0);
            row.push(match k {
                Kind2::Layer(l) => format!("({name} {} (layer-while-held l{l}))", self.t_of(i)),
                Kind2::Keys(v) if v.len() == 1 => format!("({name} {} {})", self.t_of(i), v[0]),
                Kind2::Keys(v) => format!("({name} {} {}{})", self.t_of(i), match v[0] { "lalt" => "A-", "lctl" => "C-", _ => "S-" }, v[1]),
            });
        }
        s.push_str(&format!("(deflayer l0 {} {} {})\n", row.join(" "), PLAIN_OUT[0][0], PLAIN_OUT[1][0]));
        for l in 1..3 {
            s.push_str(&format!("(deflayer l{l} _ _ _ {} {})\n", PLAIN_OUT[0][l], PLAIN_OUT[1][l]));
        }
        s
    }
    pub fn label(&self) -> String {
        format!("{}:k{}:T{}:r{}", self.end.name(false), self.kindsel, self.t, self.red)
    }
}

#[derive(Clone, Debug)]
pub struct Plan4 {
    pub cfg: Cfg4,
    pub nkeys: usize,
    pub total: usize,
    pub pattern: usize,
    pub ending: Ending,
    /// the one-shot keys pressed, in order; with a held ending the last press is the held one
    pub taps: Vec<usize>,
    /// ticks between press and release / between release and the next press
    pub gaps: Vec<(u32, u32)>,
    pub p1: usize,
    pub p2: usize,
    pub g_first: u32,
    pub hold1: u32,
    pub g_second: u32,
    pub hold2: u32,
    pub g_unhold: u32,
}

/// (key count, end variant, kind assignment, T, rapid-event-delay) — one case each
pub fn param_sets4() -> Vec<(usize, Cfg4)> {
    let mut v = vec![];
    for nkeys in 1..=3usize {
        for end in ENDS {
            for kindsel in 0..N_KINDSETS {
                for t in [20u16, 200] {
                    for red in [5u16, 0, 1] {
                        v.push((nkeys, Cfg4 { end, kindsel, t, red }));
                    }
                }
            }
        }
    }
    v
}

pub fn totals(tier: Tier) -> Vec<usize> {
    match tier {
        Tier::Quick => vec![15, 16, 17, 18, 19, 20, 33],
        Tier::Thorough => (14..=40).collect(),
    }
}

/// histories per case
pub fn per_case(tier: Tier) -> usize {
    totals(tier).len() * PATTERNS.len() * ENDINGS.len()
}

pub fn plan4(seed: u64, tier: Tier, case: u64, sub: usize) -> Plan4 {
    let ps = param_sets4();
    let (nkeys, cfg) = ps[case as usize % ps.len()].clone();
    let tot = totals(tier);
    let ending = ENDINGS[sub % ENDINGS.len()];
    let pattern = (sub / ENDINGS.len()) % PATTERNS.len();
    let total = tot[(sub / ENDINGS.len() / PATTERNS.len()) % tot.len()];
    let mut rng = Rng::for_case(seed, "C06", "restack", case * 10_000 + sub as u64);
    let first = rng.usize(nkeys);
    let taps: Vec<usize> = match pattern {
        0 => (0..total).map(|i| (first + i) % nkeys).collect(),
        1 => (0..total).map(|_| rng.usize(nkeys)).collect(),
        3 => {
            // one key all the time but for the last 15 presses, which go to the other keys in turn:
            // the first key's entries are pushed out one by one while it is still active
            let tail = if nkeys > 1 { 15.min(total - 1) } else { 0 };
            (0..total).map(|i| if i < total - tail { first } else { (first + 1 + (i - (total - tail)) % (nkeys - 1)) % nkeys }).collect()
        }
        _ => {
            // blocks: runs of 1..=9 presses of one key, the key changes from run to run
            let mut v = vec![];
            let mut k = first;
            while v.len() < total {
                let run = 1 + rng.usize(9);
                for _ in 0..run {
                    if v.len() < total {
                        v.push(k);
                    }
                }
                if nkeys > 1 {
                    k = (k + 1 + rng.usize(nkeys - 1)) % nkeys;
                }
            }
            v
        }
    };
    // the layout holds 64 key / layer states; every press of a one-shot key adds one per key code and
    // none is removed before the one-shot ends: keep the sum at 56 or less
    let mut taps = taps;
    let kinds = kindset(cfg.kindsel);
    let weight = |k: usize| match &kinds[k] {
        Kind2::Keys(v) => v.len(),
        Kind2::Layer(_) => 1,
    };
    while taps.iter().map(|k| weight(*k)).sum::<usize>() > 56 {
        taps.pop();
    }
    let total = taps.len();
    let gaps: Vec<(u32, u32)> = (0..total).map(|_| (rng.below(3) as u32, rng.below(4) as u32)).collect();
    Plan4 {
        nkeys,
        total,
        pattern,
        ending,
        taps,
        gaps,
        p1: rng.usize(2),
        p2: rng.usize(2),
        g_first: 1 + rng.below(3) as u32,
        hold1: 1 + rng.below(12) as u32,
        g_second: cfg.red as u32 + 3 + rng.below(5) as u32,
        hold2: 1 + rng.below(4) as u32,
        g_unhold: 1 + rng.below(3) as u32,
        cfg,
    }
}

/// What the statement says is in the table of active one-shots after these presses, every press
/// within the timeout of the previous one: non-pcancel variants stack every press, pcancel variants
/// end everything at the re-press of a key that is active; the table holds the 16 most recent entries.
pub fn table_after(taps: &[usize], pc: bool) -> Vec<usize> {
    let mut l: VecDeque<usize> = VecDeque::new();
    for &k in taps {
        if pc && l.contains(&k) {
            l.clear();
            continue;
        }
        l.push_back(k);
        if l.len() > 16 {
            l.pop_front();
        }
    }
    l.into_iter().collect()
}

/// number of presses that pushed an entry out of the full table whose key is still in the table
pub fn pushed_out_while_active(taps: &[usize], pc: bool) -> u64 {
    let mut l: VecDeque<usize> = VecDeque::new();
    let mut n = 0;
    for &k in taps {
        if pc && l.contains(&k) {
            l.clear();
            continue;
        }
        l.push_back(k);
        if l.len() > 16 {
            if let Some(x) = l.pop_front() {
                if l.contains(&x) {
                    n += 1;
                }
            }
        }
    }
    n
}

/// Structural precondition of a recorded defect of the unchanged tree (findings/C06-deferred-
/// release-list-overflow.md), non-pcancel variants: the releases that are deferred while their key
/// is active (the physical release of every tapped one-shot key that was not pressed again since,
/// plus one release per table entry that was pushed out while its key was still in the table) are
/// kept in a list of 16; the 17th pushes the oldest out and applies it although its key is still
/// active. Returns the keys that lost their state that way, were not pressed again afterwards and
/// are still in the table at the end, each with the index of the tap whose release (or pushed-out
/// entry) made the list overflow.
/// `g1[i] == 0` means press and release of tap i arrive in the same tick (the physical release is
/// then ahead of the release of the pushed-out entry).
pub fn dropped_by_release_list_overflow(taps: &[usize], gaps: &[(u32, u32)], last_is_held: bool) -> Vec<(usize, usize)> {
    let mut table: VecDeque<usize> = VecDeque::new();
    let mut rel: VecDeque<usize> = VecDeque::new();
    let mut dropped: [Option<usize>; 3] = [None; 3];
    let n = taps.len();
    for (i, &k) in taps.iter().enumerate() {
        rel.retain(|x| *x != k);
        dropped[k] = None;
        table.push_back(k);
        let pushed_out = if table.len() > 16 { table.pop_front() } else { None };
        let physical = !(last_is_held && i + 1 == n);
        let mut pushes: Vec<usize> = vec![];
        let synthetic = pushed_out.filter(|x| table.contains(x));
        if gaps[i].0 == 0 {
            if physical {
                pushes.push(k);
            }
            pushes.extend(synthetic);
        } else {
            pushes.extend(synthetic);
            if physical {
                pushes.push(k);
            }
        }
        for x in pushes {
            rel.push_back(x);
            if rel.len() > 16 {
                if let Some(y) = rel.pop_front() {
                    if table.contains(&y) {
                        dropped[y] = dropped[y].or(Some(i));
                    }
                }
            }
        }
    }
    (0..3).filter_map(|k| dropped[k].filter(|_| table.contains(&k)).map(|i| (k, i))).collect()
}

/// expected key codes held and layer of a plain key pressed while `active` one-shot keys (most
/// recent last) are active
fn expect_of(kinds: &[Kind2], active: &[usize]) -> (Vec<u16>, usize) {
    let mut want: Vec<u16> = vec![];
    let mut layer = 0usize;
    for k in active.iter().rev() {
        match &kinds[*k] {
            Kind2::Keys(v) => {
                for n in v {
                    if !want.contains(&kc(n)) {
                        want.push(kc(n));
                    }
                }
            }
            Kind2::Layer(l) => {
                if layer == 0 {
                    layer = *l;
                }
            }
        }
    }
    want.sort();
    (want, layer)
}

/// key codes the OS holds after tick `t`
fn down_at(outs: &[OutEv], t: u64) -> Vec<u16> {
    let mut down: Vec<u16> = vec![];
    for &(tk, d, c) in outs {
        if tk > t {
            break;
        }
        if d {
            if !down.contains(&c) {
                down.push(c);
            }
        } else {
            down.retain(|x| *x != c);
        }
    }
    down
}

pub struct Res4 {
    pub realized: Vec<Ev>,
    pub outs: Vec<OutEv>,
    pub max_stack: u64,
    pub max_queue: u64,
    pub verdict: Result<(), Bad>,
    pub first_key_mods: u64,
    pub first_key_checked: bool,
    pub held_checks: u64,
    pub waited: u64,
    /// structural preconditions of the two recorded defects of the unchanged tree
    pub own_entry_pushed_out: bool,
    pub release_list_overflowed: bool,
}

pub fn run4(pl: &Plan4, text: &str) -> Option<Res4> {
    let mut sim = Sim::new(text).ok()?;
    let mut r = Res4 { realized: vec![], outs: vec![], max_stack: 0, max_queue: 0, verdict: Ok(()), first_key_mods: 0, first_key_checked: false, held_checks: 0, waited: 0, own_entry_pushed_out: false, release_list_overflowed: false };
    let mut repress: Option<u64> = None;
    let kinds = kindset(pl.cfg.kindsel);
    let mut step = |sim: &mut Sim, r: &mut Res4, n: u32| {
        for _ in 0..n {
            sim.tick();
            if sim.last().iter().any(|o| o.repress) && repress.is_none() {
                repress = Some(sim.now);
            }
            for o in kanata_outs(sim.last()) {
                r.outs.push((sim.now, o.0, o.1));
            }
            r.max_stack = r.max_stack.max(sim.k.layout.b().oneshot.keys.len() as u64);
        }
        if n > 0 {
            r.realized.push(Ev::T(n));
        }
    };
    // nothing may be queued when the next key goes down: every press is judged against a table
    // that already saw everything before it
    let settle = |sim: &mut Sim, r: &mut Res4, step: &mut dyn FnMut(&mut Sim, &mut Res4, u32)| {
        let mut n = 0;
        while !sim.k.layout.b().queue.is_empty() && n < 64 {
            step(sim, r, 1);
            n += 1;
        }
        r.waited += n as u64;
    };
    let os = |k: usize| kc(RS_PHYS[k]);
    let pk = |k: usize| kc(PLAIN_PHYS[k]);
    let held = pl.ending.held();
    // tick after which each one-shot press went in
    let mut press_ticks: Vec<u64> = vec![];
    for (i, &k) in pl.taps.iter().enumerate() {
        settle(&mut sim, &mut r, &mut step);
        press_ticks.push(sim.now);
        sim.press(os(k));
        r.realized.push(Ev::P(os(k)));
        r.max_queue = r.max_queue.max(sim.k.layout.b().queue.len() as u64);
        if held && i + 1 == pl.taps.len() {
            break;
        }
        step(&mut sim, &mut r, pl.gaps[i].0);
        sim.release(os(k));
        r.realized.push(Ev::R(os(k)));
        step(&mut sim, &mut r, pl.gaps[i].1);
    }
    settle(&mut sim, &mut r, &mut step);
    let last = *pl.taps.last()?;
    let t_last = pl.cfg.t_of(last) as u32;
    // tick in which everything up to the last one-shot press has been processed
    let t_settled = sim.now;
    step(&mut sim, &mut r, if pl.ending.late() { t_last + 2 + pl.g_first } else { pl.g_first });
    sim.press(pk(pl.p1));
    r.realized.push(Ev::P(pk(pl.p1)));
    step(&mut sim, &mut r, pl.hold1);
    sim.release(pk(pl.p1));
    r.realized.push(Ev::R(pk(pl.p1)));
    step(&mut sim, &mut r, pl.g_second);
    sim.press(pk(pl.p2));
    r.realized.push(Ev::P(pk(pl.p2)));
    step(&mut sim, &mut r, pl.hold2);
    sim.release(pk(pl.p2));
    r.realized.push(Ev::R(pk(pl.p2)));
    let mut t_unheld = u64::MAX;
    if held {
        step(&mut sim, &mut r, pl.g_unhold);
        t_unheld = sim.now;
        sim.release(os(last));
        r.realized.push(Ev::R(os(last)));
    }
    step(&mut sim, &mut r, pl.cfg.t as u32 + 11 + pl.cfg.red as u32 + 25);
    sim.press(pk(0));
    r.realized.push(Ev::P(pk(0)));
    step(&mut sim, &mut r, 2);
    sim.release(pk(0));
    r.realized.push(Ev::R(pk(0)));
    step(&mut sim, &mut r, pl.cfg.t as u32 + pl.cfg.red as u32 + 60);

    // ---- judgement
    let l = sim.k.layout.b();
    let bad = |sig: String, what: String| Err(Bad { sig: format!("C06:restack:{sig}"), what });
    if let Some(t) = repress {
        r.verdict = Err(Bad { sig: "C06:repress".into(), what: format!("tick {t}: a key that is already down was pressed again") });
        return Some(r);
    }
    if !sim.os.all_up() || !l.states.is_empty() || !l.oneshot.keys.is_empty() || !l.queue.is_empty() {
        r.verdict = bad("stuck-at-end".into(), format!("after the last release and T+rapid-event-delay+60 ticks: os={} states={:?} active one-shots={} queue={}", sim.os.describe(), l.states, l.oneshot.keys.len(), l.queue.len()));
        return Some(r);
    }
    let pc = pl.cfg.end.is_pc();
    let n = pl.taps.len();
    // structural precondition of the one recorded defect of the unchanged tree: the final press
    // is held, the table was full, and the entry it pushed out is the held key's own
    let own_entry_pushed_out = held && !pc && n >= 17 && pl.taps[n - 17] == last;
    r.own_entry_pushed_out = own_entry_pushed_out;
    r.release_list_overflowed = !pc && !dropped_by_release_list_overflow(&pl.taps, &pl.gaps, held).is_empty();
    let names = |v: &[u16]| v.iter().map(|c| code_name(*c)).collect::<Vec<_>>().join(" ");
    let show = |x: &(u64, u16, Vec<u16>)| format!("{} pressed in tick {} with [{}] held", code_name(x.1), x.0, names(&x.2));
    let story = format!("{} one-shot key(s) pressed {} times in a row ({}), {}", pl.nkeys, n, pl.cfg.end.name(false), pl.ending.name());
    // while it is held, the held one-shot key's own key codes stay down in the output
    let plain_codes: Vec<u16> = PLAIN_OUT.iter().flat_map(|r| r.iter().map(|n| kc(n))).collect();
    if held {
        if let Kind2::Keys(v) = &kinds[last] {
            let codes: Vec<u16> = v.iter().map(|n| kc(n)).collect();
            let mut down: Vec<u16> = vec![];
            // (tick, code, true = released in that tick / false = not down once the press was processed)
            let mut problem: Option<(u64, u16, bool)> = None;
            let mut settle_checked = false;
            for &(t, d, c) in &r.outs {
                if t > t_settled && !settle_checked {
                    settle_checked = true;
                    if let Some(c) = codes.iter().find(|c| !down.contains(c)) {
                        problem = Some((t_settled, *c, false));
                        break;
                    }
                }
                if d {
                    if !down.contains(&c) {
                        down.push(c);
                    }
                } else {
                    down.retain(|x| *x != c);
                    if codes.contains(&c) && t > t_settled && t <= t_unheld {
                        problem = Some((t, c, true));
                        break;
                    }
                }
            }
            r.held_checks += 1;
            if let Some((t, c, released)) = problem {
                // is the one-shot still active in tick t? in-time endings: up to the first plain key's
                // press; late endings: until shortly before the timeout of the last press runs out
                let first_plain = r.outs.iter().find(|o| o.1 && plain_codes.contains(&o.2)).map(|o| o.0).unwrap_or(u64::MAX);
                let still_active = if pl.ending.late() { t + 4 < t_settled + t_last as u64 } else { t <= first_plain };
                let sig = if still_active {
                    "held-key-up-while-one-shot-active"
                } else if own_entry_pushed_out {
                    "held-key-up-when-one-shot-ended:final-press-pushed-out-its-own-entry"
                } else {
                    "held-key-up-when-one-shot-ended"
                };
                r.verdict = bad(sig.into(), format!("{story}: the last press is physically held from tick {t_settled} (at the latest) to tick {t_unheld}, but {} is {} in tick {t}", code_name(c), if released { "released" } else { "not down" }));
                return Some(r);
            }
        }
    }
    let ctx = presses_with_context(&r.outs, &plain_codes);
    if ctx.len() != 3 {
        r.verdict = bad("plain-key-count".into(), format!("{story}: 3 plain key presses were injected, {} were output", ctx.len()));
        return Some(r);
    }
    // what is active when the first plain key arrives
    let before = table_after(&pl.taps[..if held { n - 1 } else { n }], pc);
    let mut active: Vec<usize> = if !held {
        before.clone()
    } else if pc && before.contains(&last) {
        // the held press was a re-press of an active one-shot key: everything ended, the key itself acts as the plain key
        vec![last]
    } else {
        table_after(&pl.taps, pc)
    };
    if pl.ending.late() {
        active = if held { vec![last] } else { vec![] };
    }
    let (want, layer) = expect_of(&kinds, &active);
    let first = &ctx[0];
    let mut got = first.2.clone();
    got.sort();
    r.first_key_mods = got.len() as u64;
    r.first_key_checked = true;
    let want_code = kc(PLAIN_OUT[pl.p1][layer]);
    if got != want || first.1 != want_code {
        // which part is wrong: the held key's own contribution, or the tapped one-shots'
        let (held_want, held_layer) = if held { expect_of(&kinds, &[last]) } else { (vec![], 0) };
        let held_missing = held && (held_want.iter().any(|c| !got.contains(c)) || (held_layer != 0 && layer == held_layer && first.1 != want_code));
        let got_layer = (0..3).find(|l| kc(PLAIN_OUT[pl.p1][*l]) == first.1).unwrap_or(0);
        let missing = want.iter().any(|c| !got.contains(c)) || (layer != 0 && got_layer == 0);
        let extra = got.iter().any(|c| !want.contains(c)) || (layer == 0 && got_layer != 0);
        // the unchanged tree's recorded defect: exactly the keys whose deferred release fell out of the full list are missing
        let dropped = if pc || pl.ending.late() { vec![] } else { dropped_by_release_list_overflow(&pl.taps, &pl.gaps, held) };
        let as_recorded = !dropped.is_empty() && {
            let rest: Vec<usize> = active.iter().copied().filter(|k| !dropped.iter().any(|d| d.0 == *k)).collect();
            let (w, l) = expect_of(&kinds, &rest);
            // ... and each of them kept its key codes down until the press of the tap that made the list overflow went in
            let down_until_then = dropped.iter().all(|(k, i)| match &kinds[*k] {
                Kind2::Keys(v) => {
                    let at = press_ticks.get(*i).copied().unwrap_or(0);
                    let down = down_at(&r.outs, at);
                    v.iter().all(|n| down.contains(&kc(n)))
                }
                Kind2::Layer(_) => true,
            });
            got == w && first.1 == kc(PLAIN_OUT[pl.p1][l]) && down_until_then
        };
        let sig = if as_recorded {
            "first-key-misses-active-one-shots:more-than-16-releases-deferred"
        } else if held_missing {
            if pl.ending.late() {
                if own_entry_pushed_out {
                    "held-key-up-when-one-shot-ended:final-press-pushed-out-its-own-entry"
                } else {
                    "held-key-up-when-one-shot-ended"
                }
            } else {
                "held-key-not-acting-as-plain-key-while-one-shot-active"
            }
        } else if pl.ending.late() {
            "first-key-modified-after-expiry"
        } else if missing {
            "first-key-misses-active-one-shots"
        } else if extra {
            "first-key-sees-ended-one-shots"
        } else {
            "first-key-wrong-layer"
        };
        r.verdict = bad(sig.into(), format!("{story}: expected the first following key as {} with [{}] held; observed {}", code_name(want_code), names(&want), show(first)));
        return Some(r);
    }
    // the second key: modified by the held key only
    let (want2, layer2) = if held { expect_of(&kinds, &[last]) } else { (vec![], 0) };
    let second = &ctx[1];
    let mut got2 = second.2.clone();
    got2.sort();
    let want_code2 = kc(PLAIN_OUT[pl.p2][layer2]);
    if got2 != want2 || second.1 != want_code2 {
        let held_missing = held && (want2.iter().any(|c| !got2.contains(c)) || (layer2 != 0 && second.1 != want_code2));
        let sig = if held_missing {
            if own_entry_pushed_out {
                "held-key-up-when-one-shot-ended:final-press-pushed-out-its-own-entry"
            } else {
                "held-key-up-when-one-shot-ended"
            }
        } else {
            "second-key-modified"
        };
        r.verdict = bad(sig.into(), format!("{story}: expected the second following key as {} with [{}] held; observed {}", code_name(want_code2), names(&want2), show(second)));
        return Some(r);
    }
    if held {
        r.held_checks += 1;
    }
    let probe = &ctx[2];
    if probe.1 != kc(PLAIN_OUT[0][0]) || !probe.2.is_empty() {
        r.verdict = bad("lingers-after-timeout".into(), format!("{story}: probe key long after the timeout: {}", show(probe)));
        return Some(r);
    }
    Some(r)
}
