//! C16 — configuration abstractions are transparent (metamorphic check).
//!
//! A generated configuration is rewritten with semantically neutral indirection (defalias, defvar
//! incl. concat, chains of 2-3 variables whose whole value is another variable — written in every
//! definition order, in one defvar block or spread over several defvar forms, standing for a
//! number, a key, a list, a string or the value of another variable —, deftemplate /
//! template-expand / t! with if-equal, templates with 2-4 parameters written in every parameter
//! order whose parameters are named like existing variables and whose arguments are, or contain,
//! references to variables named like another parameter of the same template, include, platform
//! a template whose body expands another template and forwards its own parameters to it, where the inner template
//! decides conditionals or builds a string with concat on the forwarded parameter (matching and non-matching values),
//! include, platform incl. an inactive-platform decoy, deflayer -> deflayermap with explicit entries only and with the
//! wildcard inputs _ / __ / ___ at every place before, between and after the explicit entries), singly and in
//! random compositions.
//! Required:
//! the rewritten text is accepted iff the original is; the parsed artefacts agree (mapped keys, key
//! outputs, overrides, sequences, virtual-key map, options, Debug rendering of every mapped layer
//! cell); the OS traces on random histories are identical tick by tick.

use crate::core::rng::Rng;
use crate::core::sim::{first_diff, osc, render_hist, Ev, FileMap, Sim};
use crate::core::{CaseOut, Check, Ctx};
use crate::gen::sexp::{self, Node};
use crate::gen::{self, hist, GenCfg, Profile, K};
use serde_json::{json, Value};
use std::collections::BTreeMap;

pub struct C16Check;
pub static C16: C16Check = C16Check;

const NK: u64 = 17;
const KINDS: [&str; NK as usize] = ["alias", "var-action", "var-atom", "var-concat", "var-chain", "var-chain-fwd", "template", "template-if-equal", "template-nested-cond", "template-toplevel-form", "template-multi-param", "template-var-args", "template-forward", "include", "platform", "layermap", "layermap-wildcard"];

fn profile() -> Profile {
    // kinds whose run-time behaviour crashes on the unchanged tree (C02's findings) or sleeps are left out
    let mut p = Profile::full().without(&[K::RptAny, K::DynMacro, K::Delay]);
    p.chords_v2 = false;
    p.max_depth = 3;
    p
}

fn atom(s: &str) -> Node {
    Node::Atom(s.to_string())
}
fn list(v: Vec<Node>) -> Node {
    Node::List(v)
}
fn head(n: &Node) -> Option<&str> {
    match n {
        Node::List(l) => match l.first() {
            Some(Node::Atom(a)) => Some(a.as_str()),
            _ => None,
        },
        _ => None,
    }
}
fn contains_atom(n: &Node, pred: &dyn Fn(&str) -> bool) -> bool {
    match n {
        Node::Atom(a) => pred(a),
        Node::List(l) => l.iter().any(|x| contains_atom(x, pred)),
    }
}
fn is_number(n: &Node) -> bool {
    matches!(n, Node::Atom(a) if !a.is_empty() && a.chars().all(|c| c.is_ascii_digit()))
}

/// indices of the children of action list `n` that are themselves actions
fn action_children(n: &Node) -> Vec<usize> {
    let Node::List(l) = n else { return vec![] };
    let Some(h) = head(n) else { return vec![] };
    match h {
        "multi" => (1..l.len()).filter(|&i| !matches!(&l[i], Node::Atom(a) if a == "reverse-release-order")).collect(),
        "tap-hold" | "tap-hold-press" | "tap-hold-release" | "tap-hold-release-keys" | "tap-hold-except-keys" => [3usize, 4].into_iter().filter(|&i| i < l.len()).collect(),
        "tap-hold-press-timeout" | "tap-hold-release-timeout" => [3usize, 4, 5].into_iter().filter(|&i| i < l.len()).collect(),
        "fork" => [1usize, 2].into_iter().filter(|&i| i < l.len()).collect(),
        "switch" => (1..l.len()).filter(|i| i % 3 == 2).collect(),
        _ => vec![],
    }
}
/// indices of children of `n` that are timeout numbers (never inside macros, where a number is a delay item)
fn number_children(n: &Node) -> Vec<usize> {
    let Node::List(l) = n else { return vec![] };
    let Some(h) = head(n) else { return vec![] };
    let idx: Vec<usize> = if h.starts_with("tap-hold") {
        vec![1, 2]
    } else if h.starts_with("one-shot") || h.starts_with("tap-dance") || h.starts_with("caps-word") || h == "hold-for-duration" {
        vec![1]
    } else {
        vec![]
    };
    idx.into_iter().filter(|&i| i < l.len() && is_number(&l[i])).collect()
}

/// indices of children of `n` that are free-form strings or names (layer names, virtual-key names, message items, the unicode character)
fn string_children(n: &Node) -> Vec<usize> {
    let Node::List(l) = n else { return vec![] };
    let Some(h) = head(n) else { return vec![] };
    let idx: Vec<usize> = match h {
        "layer-switch" | "layer-while-held" | "layer-toggle" | "release-layer" | "unicode" | "on-press-fakekey" | "on-release-fakekey" => vec![1],
        "on-press" | "on-release" => vec![2],
        "push-msg" => (1..l.len()).collect(),
        _ => vec![],
    };
    idx.into_iter().filter(|&i| matches!(l.get(i), Some(Node::Atom(a)) if !a.starts_with('$') && !a.starts_with('@'))).collect()
}
/// indices of children of `n` that are lists but not actions (key lists, message sub-lists)
fn plain_list_children(n: &Node) -> Vec<usize> {
    let Node::List(l) = n else { return vec![] };
    let Some(h) = head(n) else { return vec![] };
    let idx: Vec<usize> = match h {
        "fork" => vec![3],
        "tap-hold-release-keys" | "tap-hold-except-keys" => vec![5],
        "push-msg" => (1..l.len()).collect(),
        _ => vec![],
    };
    idx.into_iter().filter(|&i| matches!(l.get(i), Some(Node::List(_)))).collect()
}
fn is_key_like(a: &str) -> bool {
    // an action name cannot be a variable: only key-like atoms
    !a.is_empty() && a.chars().all(|c| c.is_ascii_alphanumeric()) && a != "rpt" && a != "sldr"
}

/// the positions a variable chain can stand for
const SITE_CLASSES: [&str; 6] = ["action-list", "plain-list", "key", "number", "string", "var-value"];

/// `path` and the paths of all action positions nested below the action-position node `n`
fn action_rec(n: &Node, path: &mut Vec<usize>, out: &mut Vec<Vec<usize>>) {
    out.push(path.clone());
    if let Node::List(l) = n {
        if head(n) == Some("tap-dance") || head(n) == Some("tap-dance-eager") {
            if let Some(Node::List(items)) = l.get(2) {
                for (j, x) in items.iter().enumerate() {
                    path.push(2);
                    path.push(j);
                    action_rec(x, path, out);
                    path.pop();
                    path.pop();
                }
            }
        }
        for i in action_children(n) {
            path.push(i);
            action_rec(&l[i], path, out);
            path.pop();
        }
    }
}

fn rel_get<'a>(n: &'a Node, path: &[usize]) -> Option<&'a Node> {
    let mut cur = n;
    for &i in path {
        match cur {
            Node::List(l) => cur = l.get(i)?,
            _ => return None,
        }
    }
    Some(cur)
}
fn rel_get_mut<'a>(n: &'a mut Node, path: &[usize]) -> Option<&'a mut Node> {
    let mut cur = n;
    for &i in path {
        match cur {
            Node::List(l) => cur = l.get_mut(i)?,
            _ => return None,
        }
    }
    Some(cur)
}
fn map_atoms(n: &mut Node, f: &mut dyn FnMut(&mut String)) {
    match n {
        Node::Atom(a) => f(a),
        Node::List(l) => l.iter_mut().for_each(|x| map_atoms(x, f)),
    }
}
fn prefix_related(a: &[usize], b: &[usize]) -> bool {
    let n = a.len().min(b.len());
    a[..n] == b[..n]
}

/// class of a template argument taken from an action position (anything that can be written there)
const ARG_ACTION_POS: usize = 99;

/// Everything strictly inside the action list `n` that can be cut out and passed to a template as an argument:
/// (relative path, class) - nested action positions (class ARG_ACTION_POS: a list, a key, an alias or variable
/// reference, XX, _ ..) and the timeout numbers, plain lists and strings (SITE_CLASSES index) of `n` and of every
/// action list nested in it.
fn extractable(n: &Node) -> Vec<(Vec<usize>, usize)> {
    let mut sites = vec![];
    action_rec(n, &mut vec![], &mut sites);
    let mut out = vec![];
    for p in sites {
        let Some(m) = rel_get(n, &p) else { continue };
        match m {
            Node::Atom(a) => {
                if !p.is_empty() && a != "reverse-release-order" {
                    out.push((p, ARG_ACTION_POS));
                }
            }
            Node::List(_) => {
                for (cls, idx) in [(1usize, plain_list_children(m)), (3, number_children(m)), (4, string_children(m))] {
                    for i in idx {
                        let mut q = p.clone();
                        q.push(i);
                        out.push((q, cls));
                    }
                }
                if !p.is_empty() {
                    out.push((p, ARG_ACTION_POS));
                }
            }
        }
    }
    // a push-msg sub-list is both a plain list and (its items) strings: one entry per path
    out.sort();
    out.dedup_by(|a, b| a.0 == b.0);
    out
}

/// The positions inside a template argument (path [] = the whole argument) at which a variable reference may stand,
/// with their class (index into SITE_CLASSES). `cls` is the class of the argument itself.
fn var_positions(arg: &Node, cls: usize) -> Vec<(Vec<usize>, usize)> {
    if cls != ARG_ACTION_POS {
        let ok = match (cls, arg) {
            (1, Node::List(_)) => true,
            (3, a) => is_number(a),
            (4, Node::Atom(a)) => !a.starts_with('$') && !a.starts_with('@'),
            _ => false,
        };
        return if ok { vec![(vec![], cls)] } else { vec![] };
    }
    let mut sites = vec![];
    action_rec(arg, &mut vec![], &mut sites);
    let mut out = vec![];
    for p in sites {
        let Some(m) = rel_get(arg, &p) else { continue };
        match m {
            Node::Atom(a) => {
                if is_key_like(a) {
                    out.push((p, 2));
                }
            }
            Node::List(_) => {
                for (c, idx) in [(1usize, plain_list_children(m)), (3, number_children(m)), (4, string_children(m))] {
                    for i in idx {
                        let mut q = p.clone();
                        q.push(i);
                        out.push((q, c));
                    }
                }
                out.push((p, 0));
            }
        }
    }
    out.sort();
    out.dedup_by(|a, b| a.0 == b.0);
    out
}

/// names of all variables defined anywhere in the configuration
fn defvar_names(forms: &[Node]) -> Vec<String> {
    fn rec(n: &Node, out: &mut Vec<String>) {
        if let Node::List(l) = n {
            if head(n) == Some("defvar") {
                for i in (1..l.len()).step_by(2) {
                    if let Node::Atom(a) = &l[i] {
                        out.push(a.clone());
                    }
                }
            } else if head(n) == Some("platform") {
                l.iter().for_each(|x| rec(x, out));
            }
        }
    }
    let mut out = vec![];
    forms.iter().for_each(|f| rec(f, &mut out));
    out
}

/// paths of all action positions: layer cells and alias values (also inside a platform wrapper), then nested
fn action_sites(forms: &[Node]) -> Vec<Vec<usize>> {
    let mut out = vec![];
    fn form(f: &Node, base: Vec<usize>, out: &mut Vec<Vec<usize>>) {
        let Node::List(l) = f else { return };
        let cells: Vec<usize> = match head(f) {
            Some("deflayer") => (2..l.len()).collect(),
            Some("deflayermap") => (3..l.len()).step_by(2).collect(),
            Some("defalias") => (2..l.len()).step_by(2).collect(),
            Some("platform") if l.len() == 3 => {
                let mut b = base.clone();
                b.push(2);
                form(&l[2], b, out);
                vec![]
            }
            _ => vec![],
        };
        for i in cells {
            let mut p = base.clone();
            p.push(i);
            action_rec(&l[i], &mut p, out);
        }
    }
    for (fi, f) in forms.iter().enumerate() {
        form(f, vec![fi], &mut out);
    }
    out
}

#[derive(Clone)]
struct Item {
    node: Node,
    /// None: main file; Some(k): k-th included file. Items of one file are contiguous.
    file: Option<usize>,
}

struct Rw {
    items: Vec<Item>,
    file_names: Vec<String>,
    n: usize,
    applied: Vec<&'static str>,
    /// the top-level item the next rewrite should be applied to
    focus: Option<usize>,
    /// after a rewrite that creates a definition (defalias / defvar / deftemplate): move the focus to it
    follow_def: bool,
    /// what the chain rewrites did (counter names)
    notes: Vec<String>,
}

impl Rw {
    fn new(forms: Vec<Node>) -> Rw {
        Rw { items: forms.into_iter().map(|node| Item { node, file: None }).collect(), file_names: vec![], n: 0, applied: vec![], focus: None, follow_def: false, notes: vec![] }
    }
    fn fresh(&mut self, p: &str) -> String {
        self.n += 1;
        format!("{p}{}", self.n)
    }
    fn nodes(&self) -> Vec<Node> {
        self.items.iter().map(|i| i.node.clone()).collect()
    }
    fn node_mut(&mut self, path: &[usize]) -> Option<&mut Node> {
        let mut cur = &mut self.items.get_mut(*path.first()?)?.node;
        for &i in &path[1..] {
            match cur {
                Node::List(l) => cur = l.get_mut(i)?,
                _ => return None,
            }
        }
        Some(cur)
    }
    /// insert a top-level item at flat position `pos`; it goes into the file of one of its neighbours
    /// (or the main file at the edge of an included run), which keeps included runs contiguous
    fn insert(&mut self, pos: usize, node: Node, rng: &mut Rng) -> usize {
        let before = if pos > 0 { self.items.get(pos - 1).map(|i| i.file) } else { None };
        let after = self.items.get(pos).map(|i| i.file);
        let file = match (before, after) {
            (Some(a), Some(b)) if a == b => a,
            (Some(a), Some(b)) => {
                if rng.coin() {
                    a
                } else {
                    b
                }
            }
            (Some(a), None) | (None, Some(a)) => {
                if rng.coin() {
                    a
                } else {
                    None
                }
            }
            (None, None) => None,
        };
        self.items.insert(pos, Item { node, file });
        if let Some(f) = self.focus {
            if pos <= f {
                self.focus = Some(f + 1);
            }
        }
        pos
    }
    fn created_def(&mut self, pos: usize) {
        if self.follow_def {
            self.focus = Some(pos);
        }
    }
    fn output(&self) -> (String, Vec<(String, String)>) {
        let mut main: Vec<Node> = vec![];
        let mut files: Vec<Vec<Node>> = vec![vec![]; self.file_names.len()];
        let mut last: Option<usize> = None;
        for it in &self.items {
            match it.file {
                None => main.push(it.node.clone()),
                Some(k) => {
                    if last != Some(k) {
                        main.push(list(vec![atom("include"), atom(&self.file_names[k])]));
                    }
                    files[k].push(it.node.clone());
                }
            }
            last = it.file;
        }
        (sexp::print(&main), self.file_names.iter().cloned().zip(files.iter().map(|f| sexp::print(f))).collect())
    }

    fn uses_template(n: &Node) -> bool {
        contains_atom(n, &|a| a == "t!" || a == "template-expand")
    }
    /// prefer candidates inside the focused item
    fn focused<T: Clone>(&self, cands: Vec<(usize, T)>) -> Vec<T> {
        if let Some(f) = self.focus {
            let inside: Vec<T> = cands.iter().filter(|c| c.0 == f).map(|c| c.1.clone()).collect();
            if !inside.is_empty() {
                return inside;
            }
        }
        cands.into_iter().map(|c| c.1).collect()
    }

    fn alias(&mut self, rng: &mut Rng) -> bool {
        let forms = self.nodes();
        let sites: Vec<(usize, Vec<usize>)> = action_sites(&forms)
            .into_iter()
            .filter(|p| match sexp::get(&forms, p) {
                Some(Node::Atom(a)) => a != "reverse-release-order",
                Some(_) => true,
                None => false,
            })
            // the new alias is defined in front of the whole item: a value inside a defalias item that refers
            // (directly, or through a variable / template) to an alias defined earlier in that same item cannot be hoisted
            .filter(|p| {
                let in_defalias = contains_atom(&forms[p[0]], &|a| a == "defalias");
                !(in_defalias && sexp::get(&forms, p).map(|n| contains_atom(n, &|a| a.starts_with('@') || a.starts_with('$') || a == "t!" || a == "template-expand")).unwrap_or(false))
            })
            .map(|p| (p[0], p))
            .collect();
        let sites = self.focused(sites);
        if sites.is_empty() {
            return false;
        }
        let site = rng.pick(&sites).clone();
        let name = self.fresh("zz");
        let Some(slot) = self.node_mut(&site) else { return false };
        let old = std::mem::replace(slot, atom(&format!("@{name}")));
        // defined before use: directly in front of the item that now refers to it
        let pos = self.insert(site[0], list(vec![atom("defalias"), atom(&name), old]), rng);
        self.created_def(pos);
        true
    }

    /// mode 0: whole action list, 1: atom (key or number), 2: atom through concat
    fn var(&mut self, rng: &mut Rng, mode: u8) -> bool {
        let forms = self.nodes();
        let mut sites: Vec<(usize, Vec<usize>)> = vec![];
        for p in action_sites(&forms) {
            let Some(n) = sexp::get(&forms, &p) else { continue };
            match (mode, n) {
                (0, Node::List(_)) => sites.push((p[0], p)),
                (1 | 2, Node::Atom(a)) => {
                    // an action name cannot be a variable: only key-like atoms
                    if a.chars().all(|c| c.is_ascii_alphanumeric()) && a.len() >= (if mode == 2 { 2 } else { 1 }) && a != "rpt" && a != "sldr" {
                        sites.push((p[0], p));
                    }
                }
                (1 | 2, Node::List(l)) => {
                    for i in number_children(n) {
                        if mode == 1 || matches!(&l[i], Node::Atom(a) if a.len() >= 2) {
                            let mut q = p.clone();
                            q.push(i);
                            sites.push((q[0], q));
                        }
                    }
                }
                _ => {}
            }
        }
        let sites = self.focused(sites);
        if sites.is_empty() {
            return false;
        }
        let site = rng.pick(&sites).clone();
        let name = self.fresh("zv");
        let Some(slot) = self.node_mut(&site) else { return false };
        let old = std::mem::replace(slot, atom(&format!("${name}")));
        let value = match (mode, &old) {
            (2, Node::Atom(a)) => {
                let cut = 1 + rng.usize(a.len() - 1);
                let (x, y) = a.split_at(cut);
                list(vec![atom("concat"), atom(x), atom(&format!("\"{y}\""))])
            }
            _ => old,
        };
        let def = list(vec![atom("defvar"), atom(&name), value]);
        // all defvar forms are read before anything that uses them; the position is free
        let pos = match rng.usize(3) {
            0 => site[0],
            1 => self.items.len(),
            _ => rng.usize(self.items.len() + 1),
        };
        let pos = self.insert(pos, def, rng);
        self.created_def(pos);
        true
    }

    /// every position a chained variable can stand for: (item, path, class index into SITE_CLASSES)
    fn chain_sites(&self) -> Vec<(usize, (Vec<usize>, usize))> {
        let forms = self.nodes();
        let mut sites: Vec<(usize, (Vec<usize>, usize))> = vec![];
        for p in action_sites(&forms) {
            let Some(n) = sexp::get(&forms, &p) else { continue };
            match n {
                Node::Atom(a) => {
                    if is_key_like(a) {
                        sites.push((p[0], (p, 2)));
                    }
                }
                Node::List(_) => {
                    for (cls, idx) in [(1usize, plain_list_children(n)), (3, number_children(n)), (4, string_children(n))] {
                        for i in idx {
                            let mut q = p.clone();
                            q.push(i);
                            sites.push((q[0], (q, cls)));
                        }
                    }
                    sites.push((p[0], (p, 0)));
                }
            }
        }
        // the whole value of an existing variable (a concat value is evaluated where it is written, it is left alone)
        for (fi, f) in forms.iter().enumerate() {
            if let (Some("defvar"), Node::List(l)) = (head(f), f) {
                for i in (2..l.len()).step_by(2) {
                    if head(&l[i]) != Some("concat") {
                        sites.push((fi, (vec![fi, i], 5)));
                    }
                }
            }
        }
        sites
    }

    /// A value is named by a chain of 2-3 variables: the site becomes $v0, v0 = $v1, (v1 = $v2,) the last one is the value.
    /// `forward` = false: every variable is defined after the one it refers to (the order the guide's example uses);
    /// true: any other definition order, so at least one variable's whole value is a variable defined LATER, in the
    /// same defvar block or in a later defvar form.
    fn var_chain(&mut self, rng: &mut Rng, forward: bool) -> bool {
        let sites = self.focused(self.chain_sites());
        if sites.is_empty() {
            return false;
        }
        // a class first, so that rare classes are not drowned by the many key atoms
        let mut classes: Vec<usize> = sites.iter().map(|s| s.1).collect();
        classes.sort();
        classes.dedup();
        let cls = *rng.pick(&classes);
        let of_class: Vec<Vec<usize>> = sites.into_iter().filter(|s| s.1 == cls).map(|s| s.0).collect();
        let site = rng.pick(&of_class).clone();
        let len = 2 + rng.usize(2);
        let names: Vec<String> = (0..len).map(|_| self.fresh("zv")).collect();
        let Some(slot) = self.node_mut(&site) else { return false };
        let old = std::mem::replace(slot, atom(&format!("${}", names[0])));
        let mut tail_concat = false;
        let value = match &old {
            Node::Atom(a) if (cls == 2 || cls == 3) && a.len() >= 2 && a.is_ascii() && rng.chance(1, 4) => {
                tail_concat = true;
                let cut = 1 + rng.usize(a.len() - 1);
                let (x, y) = a.split_at(cut);
                list(vec![atom("concat"), atom(x), atom(&format!("\"{y}\""))])
            }
            _ => old,
        };
        let mut defs: Vec<(Node, Node)> = vec![];
        for i in 0..len {
            let v = if i + 1 < len { atom(&format!("${}", names[i + 1])) } else { value.clone() };
            defs.push((atom(&names[i]), v));
        }
        // definition order: which link is written first, second, ...
        let backward: Vec<usize> = (0..len).rev().collect();
        let mut order = backward.clone();
        if forward {
            while order == backward {
                rng.shuffle(&mut order);
            }
        }
        let fwd_links = (0..len - 1).filter(|&i| order.iter().position(|&x| x == i) < order.iter().position(|&x| x == i + 1)).count();
        self.notes.push(format!("chain_site:{}", SITE_CLASSES[cls]));
        self.notes.push(format!("chain_len:{len}"));
        self.notes.push(format!("chain_order:{}", order.iter().map(|i| format!("v{i}")).collect::<Vec<_>>().join("-")));
        self.notes.push(format!("chain_forward_links:{fwd_links}"));
        if tail_concat {
            self.notes.push("chain_tail_concat".into());
        }
        if cls == 5 && !forward {
            // the value of an existing variable may refer to variables defined before it: to keep every reference
            // pointing backwards the new links are written into the same defvar form, directly in front of that variable
            let (fi, vi) = (site[0], site[1]);
            let Some(Node::List(l)) = self.items.get_mut(fi).map(|it| &mut it.node) else { return false };
            let mut at = vi - 1;
            for &i in &order {
                l.insert(at, defs[i].0.clone());
                l.insert(at + 1, defs[i].1.clone());
                at += 2;
            }
            self.notes.push("chain_layout:same-form-in-front".into());
            return true;
        }
        // groups of consecutive definitions that share one defvar form
        let layout = rng.usize(if len == 3 { 3 } else { 2 });
        let groups: Vec<Vec<usize>> = match layout {
            0 => vec![order.clone()],
            1 => order.iter().map(|&i| vec![i]).collect(),
            _ => {
                if rng.coin() {
                    vec![vec![order[0], order[1]], vec![order[2]]]
                } else {
                    vec![vec![order[0]], vec![order[1], order[2]]]
                }
            }
        };
        // all defvar forms are read before anything that uses them: the positions are free, only their relative order matters here
        let mut pos = match rng.usize(3) {
            0 => site[0].min(self.items.len()),
            1 => self.items.len(),
            _ => rng.usize(self.items.len() + 1),
        };
        let mut first = None;
        for (gi, g) in groups.iter().enumerate() {
            if gi > 0 {
                pos = pos + 1 + rng.usize(self.items.len() - pos);
            }
            let mut f = vec![atom("defvar")];
            for &i in g {
                f.push(defs[i].0.clone());
                f.push(defs[i].1.clone());
            }
            pos = self.insert(pos, list(f), rng);
            first.get_or_insert(pos);
        }
        if let Some(p) = first {
            self.created_def(p);
        }
        self.notes.push(format!("chain_layout:{}", ["one-block", "separate-forms", "split"][layout]));
        true
    }

    // ---- template conditionals. Parameters of every conditional template: zp (payload), zq = yes, zr = no

    fn cond(rng: &mut Rng, truth: bool, content: Vec<Node>) -> Node {
        let pick = rng.usize(6);
        let (op, a, b): (&str, Node, Node) = match (pick, truth) {
            (0, true) | (1, false) => ("if-equal", atom("$zq"), atom(if truth { "yes" } else { "no" })),
            (1, true) | (0, false) => ("if-not-equal", atom("$zq"), atom(if truth { "no" } else { "yes" })),
            (2, true) | (3, false) => ("if-in-list", atom(if truth { "$zq" } else { "$zr" }), list(vec![atom("maybe"), atom("yes"), list(vec![atom("nested"), atom("ok")])])),
            (3, true) | (2, false) => ("if-not-in-list", atom(if truth { "$zr" } else { "$zq" }), list(vec![atom("yes"), atom("maybe")])),
            (4, true) | (5, false) => (if truth { "if-not-equal" } else { "if-equal" }, atom("$zq"), atom("$zr")),
            _ => (if truth { "if-equal" } else { "if-not-equal" }, atom("$zq"), atom("$zq")),
        };
        let mut v = vec![atom(op), a, b];
        v.extend(content);
        list(v)
    }
    fn garbage(rng: &mut Rng, depth: u32) -> Vec<Node> {
        let mut v = vec![atom("this-is-not-an-action"), list(vec![atom("nor"), atom("$zp"), atom("this")])];
        if depth > 0 {
            // a conditional that would hold, inside a branch that does not
            let inner = Self::garbage(rng, depth - 1);
            v.push(Self::cond(rng, true, inner));
        }
        v
    }
    /// a conditional nest of the given depth that evaluates to exactly `payload`
    fn cond_true_nest(rng: &mut Rng, payload: Vec<Node>, depth: u32) -> Node {
        let mut content = vec![];
        if rng.coin() {
            let g = Self::garbage(rng, 1);
            content.push(Self::cond(rng, false, g));
        }
        if depth > 1 {
            content.push(Self::cond_true_nest(rng, payload, depth - 1));
        } else {
            content.extend(payload);
        }
        if rng.coin() {
            let g = Self::garbage(rng, 0);
            content.push(Self::cond(rng, false, g));
        }
        Self::cond(rng, true, content)
    }
    /// `body` (a list) with child `ci` produced by a nest of conditionals and vanishing conditionals sprinkled among its children
    fn conditionalise_list(rng: &mut Rng, body: Vec<Node>, ci: usize) -> Vec<Node> {
        let mut v = vec![];
        for (i, x) in body.into_iter().enumerate() {
            if i > 0 && rng.chance(1, 3) {
                let g = Self::garbage(rng, 1);
                v.push(Self::cond(rng, false, g));
            }
            if i == ci {
                let depth = 2 + rng.below(2) as u32;
                v.push(Self::cond_true_nest(rng, vec![x], depth));
            } else {
                v.push(x);
            }
        }
        if rng.chance(1, 3) {
            let g = Self::garbage(rng, 0);
            v.push(Self::cond(rng, false, g));
        }
        v
    }

    /// style 0: plain, 1: if-equal at the top of the body, 2: nested conditionals at the top of the body and inside the list
    fn template(&mut self, rng: &mut Rng, style: u8) -> bool {
        // parent action list with a child (action or timeout number) that becomes the argument
        let forms = self.nodes();
        let mut cands: Vec<(usize, (Vec<usize>, usize))> = vec![];
        for p in action_sites(&forms) {
            let Some(n) = sexp::get(&forms, &p) else { continue };
            if !matches!(n, Node::List(_)) || Self::uses_template(n) {
                continue;
            }
            for i in action_children(n).into_iter().chain(number_children(n)) {
                cands.push((p[0], (p.clone(), i)));
            }
        }
        let cands = self.focused(cands);
        if cands.is_empty() {
            return false;
        }
        let (site, ci) = rng.pick(&cands).clone();
        let tname = self.fresh("zt");
        let Some(slot) = self.node_mut(&site) else { return false };
        let Node::List(mut body) = slot.clone() else { return false };
        let arg = std::mem::replace(&mut body[ci], atom("$zp"));
        let expand = if rng.coin() { "t!" } else { "template-expand" };
        let (params, content, call): (Node, Vec<Node>, Node) = match style {
            1 => (
                list(vec![atom("zp"), atom("zq")]),
                vec![
                    list(vec![atom("if-equal"), atom("$zq"), atom("yes"), list(body)]),
                    list(vec![atom("if-equal"), atom("$zq"), atom("no"), list(vec![atom("this-is-not-an-action"), atom("$zp")])]),
                    list(vec![atom("if-not-equal"), atom("$zq"), atom("yes"), atom("neither-is-this")]),
                ],
                list(vec![atom(expand), atom(&tname), arg, atom("yes")]),
            ),
            2 => {
                let inner = list(Self::conditionalise_list(rng, body, ci));
                let dtop = 1 + rng.below(3) as u32;
                let top = if rng.coin() { vec![Self::cond_true_nest(rng, vec![inner], dtop)] } else { vec![inner] };
                let mut content = vec![];
                if rng.coin() {
                    let g = Self::garbage(rng, 1);
                    content.push(Self::cond(rng, false, g));
                }
                content.extend(top);
                (list(vec![atom("zp"), atom("zq"), atom("zr")]), content, list(vec![atom(expand), atom(&tname), arg, atom("yes"), atom("no")]))
            }
            _ => (list(vec![atom("zp")]), vec![list(body)], list(vec![atom(expand), atom(&tname), arg])),
        };
        let Some(slot) = self.node_mut(&site) else { return false };
        *slot = call;
        let mut def = vec![atom("deftemplate"), atom(&tname), params];
        def.extend(content);
        // declared before its use
        let pos = rng.usize(site[0] + 1);
        let pos = self.insert(pos, list(def), rng);
        self.created_def(pos);
        true
    }

    /// An action list becomes the body of a template with 2-4 parameters, written in a random parameter order.
    /// Parameters stand for sub-actions, keys, timeout numbers, plain lists and strings cut out of the list (and of
    /// the action lists nested in it); when the list offers fewer than the wanted number, the rest are guard
    /// parameters compared in a conditional. Parameters may be named like variables that exist in the configuration,
    /// in particular like variables that the arguments refer to. `varargs`: (a part of) an argument is moved into a
    /// new defvar that is named like ANOTHER parameter of the same template (rarely: like its own parameter), so
    /// the expansion is called with `$<parameter name>` - a variable reference that the expansion must insert as
    /// written and that is resolved as the variable afterwards.
    fn template_multi(&mut self, rng: &mut Rng, varargs: bool) -> bool {
        let forms = self.nodes();
        let mut cands: Vec<(usize, Vec<usize>)> = vec![];
        for p in action_sites(&forms) {
            let Some(n) = sexp::get(&forms, &p) else { continue };
            if !matches!(n, Node::List(_)) || Self::uses_template(n) || extractable(n).is_empty() {
                continue;
            }
            cands.push((p[0], p));
        }
        let mut cands = self.focused(cands);
        if cands.is_empty() {
            return false;
        }
        let existing = defvar_names(&forms);
        let refers = |n: &Node| contains_atom(n, &|a| a.strip_prefix('$').map(|v| existing.iter().any(|e| e == v)).unwrap_or(false));
        // lists that already refer to variables are preferred: their references end up in the arguments
        if rng.chance(3, 4) {
            let with_refs: Vec<Vec<usize>> = cands.iter().filter(|p| sexp::get(&forms, p).map(|n| refers(n)).unwrap_or(false)).cloned().collect();
            if !with_refs.is_empty() {
                cands = with_refs;
            }
        }
        let site = rng.pick(&cands).clone();
        let Some(mut body) = sexp::get(&forms, &site).cloned() else { return false };
        let k = 2 + rng.usize(3);
        let mut ex = extractable(&body);
        rng.shuffle(&mut ex);
        if rng.chance(3, 4) {
            // stable: the pieces that refer to variables first
            ex.sort_by_key(|e| !rel_get(&body, &e.0).map(|n| refers(n)).unwrap_or(false));
        }
        let mut taken: Vec<(Vec<usize>, usize)> = vec![];
        for e in ex {
            if taken.len() == k {
                break;
            }
            if taken.iter().all(|t| !prefix_related(&t.0, &e.0)) {
                taken.push(e);
            }
        }
        // document order; parameters are numbered in the order of their (first) occurrence in the body, guards last
        taken.sort();
        let real = taken.len();
        let mut names: Vec<String> = (0..k).map(|_| self.fresh("zv")).collect();
        let mut args: Vec<Node> = vec![];
        for (b, (path, _)) in taken.iter().enumerate() {
            let Some(slot) = rel_get_mut(&mut body, path) else { return false };
            args.push(std::mem::replace(slot, atom(&format!("${}", names[b]))));
        }
        for _ in real..k {
            args.push(atom("yes"));
        }
        // order[i] = the parameter written at place i of the parameter list; place[b] = where parameter b is written
        let mut order: Vec<usize> = (0..k).collect();
        rng.shuffle(&mut order);
        let mut place = vec![0usize; k];
        for (i, &b) in order.iter().enumerate() {
            place[b] = i;
        }
        let mut notes: Vec<String> = vec![format!("tmpl_params:{k}"), format!("tmpl_order:{k}:{}", place.iter().map(|i| i.to_string()).collect::<String>())];
        if real < k {
            notes.push("tmpl_with_guard_params".into());
        }
        for (_, cls) in &taken {
            notes.push(format!("tmpl_arg:{}", if *cls == ARG_ACTION_POS { "action-position" } else { SITE_CLASSES[*cls] }));
        }
        let occurs = |n: &Node, name: &str| {
            let r = format!("${name}");
            contains_atom(n, &|a| a == r)
        };

        // ---- arguments that are / contain a reference to a variable named like another parameter
        let mut is_target = vec![false; k];
        let mut varised = vec![false; k];
        let mut defs: Vec<(String, Node)> = vec![];
        if varargs {
            // a quarter of the parameter names extend another parameter's name
            if rng.chance(1, 4) {
                let a = rng.usize(k);
                let b = (a + 1 + rng.usize(k - 1)) % k;
                let cand = format!("{}x", names[a]);
                if !existing.contains(&cand) && !forms.iter().any(|f| occurs(f, &cand)) {
                    let old = format!("${}", names[b]);
                    let new = format!("${cand}");
                    map_atoms(&mut body, &mut |s| {
                        if *s == old {
                            *s = new.clone();
                        }
                    });
                    names[b] = cand;
                    notes.push("tmpl_param_name_extends_another".into());
                }
            }
            let mut bs: Vec<usize> = (0..real).collect();
            rng.shuffle(&mut bs);
            for (n_try, b) in bs.into_iter().enumerate() {
                if n_try > 0 && !defs.is_empty() && rng.chance(1, 3) {
                    continue;
                }
                let positions = var_positions(&args[b], taken[b].1);
                if positions.is_empty() {
                    continue;
                }
                let mut js: Vec<usize> = (0..k).filter(|&j| !is_target[j] && j != b).collect();
                if !is_target[b] && rng.chance(1, 10) {
                    js = vec![b];
                }
                if js.is_empty() {
                    continue;
                }
                let j = *rng.pick(&js);
                // the whole argument, or a piece of an argument that is a list
                let (whole, inside): (Vec<_>, Vec<_>) = positions.into_iter().partition(|p| p.0.is_empty());
                let (path, cls) = if inside.is_empty() || (!whole.is_empty() && rng.chance(1, 3)) { whole[0].clone() } else { rng.pick(&inside).clone() };
                let Some(slot) = rel_get_mut(&mut args[b], &path) else { continue };
                let inner = std::mem::replace(slot, atom(&format!("${}", names[j])));
                defs.push((names[j].clone(), inner));
                is_target[j] = true;
                varised[b] = true;
                notes.push(format!("tmpl_vararg_names:{}", if place[j] > place[b] { "later-param" } else if place[j] < place[b] { "earlier-param" } else { "same-param" }));
                notes.push(format!("tmpl_vararg_at:{}", if path.is_empty() { "whole-argument" } else { "inside-list-argument" }));
                notes.push(format!("tmpl_vararg_site:{}", SITE_CLASSES[cls]));
                if j >= real {
                    notes.push("tmpl_vararg_names_guard_param".into());
                }
            }
            if defs.is_empty() {
                return false;
            }
        }
        // ---- parameters named like variables that exist already (not those that get a new variable of their name)
        for b in 0..k {
            if is_target[b] || !rng.coin() {
                continue;
            }
            let free: Vec<&String> = existing.iter().filter(|v| !names.contains(v) && !defs.iter().any(|d| &d.0 == *v) && !occurs(&body, v)).collect();
            let in_args: Vec<&String> = free.iter().copied().filter(|v| args.iter().any(|a| occurs(a, v))).collect();
            let pick = if !in_args.is_empty() {
                Some((*rng.pick(&in_args)).clone())
            } else if !free.is_empty() && rng.coin() {
                Some((*rng.pick(&free)).clone())
            } else {
                None
            };
            if let Some(v) = pick {
                let other_arg = (0..k).filter(|&o| o != b && occurs(&args[o], &v)).map(|o| place[o]).collect::<Vec<_>>();
                if other_arg.iter().any(|&o| o < place[b]) {
                    notes.push("tmpl_param_named_like_var_in_earlier_argument".into());
                }
                if other_arg.iter().any(|&o| o > place[b]) {
                    notes.push("tmpl_param_named_like_var_in_later_argument".into());
                }
                notes.push("tmpl_param_named_like_existing_var".into());
                let old = format!("${}", names[b]);
                let new = format!("${v}");
                map_atoms(&mut body, &mut |s| {
                    if *s == old {
                        *s = new.clone();
                    }
                });
                names[b] = v;
            }
        }
        // ---- a parameter standing for an atom replaces the other atoms of the body with the same text, too
        for b in 0..real {
            if let (false, Node::Atom(text)) = (varised[b], &args[b]) {
                // (an argument that is a reference to a variable named like a parameter is not the parameter)
                let is_placeholder = names.iter().any(|n| text.strip_prefix('$') == Some(n.as_str()));
                if !is_placeholder && rng.coin() {
                    let (text, new) = (text.clone(), format!("${}", names[b]));
                    let mut hit = false;
                    map_atoms(&mut body, &mut |s| {
                        if *s == text {
                            *s = new.clone();
                            hit = true;
                        }
                    });
                    if hit {
                        notes.push("tmpl_param_used_repeatedly".into());
                    }
                }
            }
        }
        // ---- guard parameters
        let mut wrappers: Vec<Node> = vec![];
        for b in real..k {
            let g = atom(&format!("${}", names[b]));
            if let (true, Node::List(l)) = (rng.coin(), &mut body) {
                // a conditional that does not hold, among the items of the action list
                let mut v = match rng.usize(3) {
                    0 => vec![atom("if-equal"), g, atom("no")],
                    1 => vec![atom("if-not-equal"), g, atom("yes")],
                    _ => vec![atom("if-not-in-list"), g, list(vec![atom("maybe"), atom("yes")])],
                };
                v.push(atom("this-is-not-an-action"));
                let at = 1 + rng.usize(l.len());
                l.insert(at, list(v));
            } else {
                // a conditional that holds, around the action list
                wrappers.push(list(match rng.usize(3) {
                    0 => vec![atom("if-equal"), g, atom("yes")],
                    1 => vec![atom("if-not-equal"), g, atom("no")],
                    _ => vec![atom("if-in-list"), g, list(vec![atom("maybe"), atom("yes")])],
                }));
            }
        }
        let mut content = body;
        for w in wrappers {
            let Node::List(mut v) = w else { continue };
            v.push(content);
            content = list(v);
        }
        let tname = self.fresh("zt");
        let expand = if rng.coin() { "t!" } else { "template-expand" };
        let mut call = vec![atom(expand), atom(&tname)];
        call.extend(order.iter().map(|&b| args[b].clone()));
        let Some(slot) = self.node_mut(&site) else { return false };
        *slot = list(call);
        let def = list(vec![atom("deftemplate"), atom(&tname), list(order.iter().map(|&b| atom(&names[b])).collect()), content]);
        // declared before its use
        let pos = rng.usize(site[0] + 1);
        let pos = self.insert(pos, def, rng);
        self.created_def(pos);
        // all defvar forms are read before anything that uses them; the position is free
        if !defs.is_empty() {
            if defs.len() > 1 && rng.coin() {
                let mut f = vec![atom("defvar")];
                for (n, v) in &defs {
                    f.push(atom(n));
                    f.push(v.clone());
                }
                let at = rng.usize(self.items.len() + 1);
                self.insert(at, list(f), rng);
            } else {
                for (n, v) in &defs {
                    let at = rng.usize(self.items.len() + 1);
                    self.insert(at, list(vec![atom("defvar"), atom(n), v.clone()]), rng);
                }
            }
        }
        self.notes.extend(notes);
        true
    }

    /// An action list is produced through TWO templates: the use site expands `outer`, whose body contains an expansion
    /// of `inner` (defined before it) and forwards outer's own parameters to it; `inner` decides a conditional, or
    /// builds a string with concat, on the forwarded parameter. Three shapes:
    ///  guard:          inner is the template of the nested-conditional rewrite (payload zp, guards zq = yes, zr = no,
    ///                  conditionals nested around and inside the list); outer (zw zx zy, any parameter order) contains
    ///                  (t! inner $zw $zx $zy), with one of the two guards possibly passed as a literal instead, possibly
    ///                  inside a conditional of outer's own;
    ///  payload-cond:   1 or 2 atoms of the list (key, alias / variable reference, number, XX, _) are each produced by
    ///                  (t! inner $zw) where inner (zk) compares $zk with a sentinel: for the sentinel it yields the
    ///                  original atom ("matching": outer is called with the sentinel), for anything else it yields $zk
    ///                  itself ("non-matching": outer is called with the original atom) - if-equal / if-not-equal,
    ///                  if-in-list / if-not-in-list, either comparand order, either order of the two conditionals, or one
    ///                  nested in the other;
    ///  payload-concat: a key / number atom is split in two, outer is called with one half and forwards it to inner,
    ///                  which glues the halves together with (concat ..) (the other half a literal of inner, or a second
    ///                  argument written in outer's body).
    fn template_forward(&mut self, rng: &mut Rng) -> bool {
        let forms = self.nodes();
        let mut cands: Vec<(usize, (Vec<usize>, usize))> = vec![];
        for p in action_sites(&forms) {
            let Some(n) = sexp::get(&forms, &p) else { continue };
            if !matches!(n, Node::List(_)) || Self::uses_template(n) {
                continue;
            }
            for i in action_children(n).into_iter().chain(number_children(n)) {
                cands.push((p[0], (p.clone(), i)));
            }
        }
        let cands = self.focused(cands);
        if cands.is_empty() {
            return false;
        }
        let (site, ci) = rng.pick(&cands).clone();
        let Some(Node::List(mut body)) = sexp::get(&forms, &site).cloned() else { return false };
        let comparable = |n: &Node| matches!(n, Node::Atom(a) if !a.is_empty() && !a.starts_with('"') && a != "reverse-release-order");
        let splittable = |n: &Node| matches!(n, Node::Atom(a) if is_key_like(a) && a.len() >= 2);
        let mut shapes: Vec<u8> = vec![0];
        if comparable(&body[ci]) {
            shapes.push(1);
            shapes.push(1);
        }
        if splittable(&body[ci]) {
            shapes.push(2);
        }
        let shape = *rng.pick(&shapes);
        let tin = self.fresh("zt");
        let tout = self.fresh("zt");
        let ex = |rng: &mut Rng| atom(if rng.coin() { "t!" } else { "template-expand" });
        let mut notes: Vec<String> = vec![format!("fwd_shape:{}", ["guard", "payload-cond", "payload-concat"][shape as usize])];
        let (inner_def, outer_def, call): (Node, Node, Node) = match shape {
            0 => {
                let arg = std::mem::replace(&mut body[ci], atom("$zp"));
                let inner_list = list(Self::conditionalise_list(rng, body, ci));
                let dtop = 1 + rng.below(2) as u32;
                let mut icontent = vec![];
                if rng.coin() {
                    let g = Self::garbage(rng, 1);
                    icontent.push(Self::cond(rng, false, g));
                }
                icontent.push(if rng.coin() { Self::cond_true_nest(rng, vec![inner_list], dtop) } else { inner_list });
                let mut idef = vec![atom("deftemplate"), atom(&tin), list(vec![atom("zp"), atom("zq"), atom("zr")])];
                idef.extend(icontent);
                // which guards are forwarded
                let fw = rng.usize(4);
                let (gq, gr) = match fw {
                    0 | 1 => (atom("$zx"), atom("$zy")),
                    2 => (atom("$zx"), atom("no")),
                    _ => (atom("yes"), atom("$zy")),
                };
                notes.push(format!("fwd_guards_forwarded:{}", ["both", "both", "first-only", "second-only"][fw]));
                let mut inner_call = list(vec![ex(rng), atom(&tin), atom("$zw"), gq, gr]);
                if rng.chance(1, 3) {
                    // a conditional of outer's own around the forwarding expansion
                    inner_call = match rng.usize(3) {
                        0 => list(vec![atom("if-equal"), atom("$zx"), atom("yes"), inner_call]),
                        1 => list(vec![atom("if-not-equal"), atom("$zy"), atom("yes"), inner_call]),
                        _ => list(vec![atom("if-in-list"), atom("$zy"), list(vec![atom("no"), atom("never")]), inner_call]),
                    };
                    notes.push("fwd_outer_has_own_conditional".into());
                }
                let mut ocontent = vec![];
                if rng.chance(1, 3) {
                    ocontent.push(list(vec![atom("if-equal"), atom("$zx"), atom("no"), atom("this-is-not-an-action"), list(vec![ex(rng), atom(&tin), atom("$zw"), atom("$zy"), atom("$zx")])]));
                }
                ocontent.push(inner_call);
                let mut order = vec![0usize, 1, 2];
                rng.shuffle(&mut order);
                let pn = ["zw", "zx", "zy"];
                let pa = [arg, atom("yes"), atom("no")];
                let mut odef = vec![atom("deftemplate"), atom(&tout), list(order.iter().map(|&i| atom(pn[i])).collect())];
                odef.extend(ocontent);
                let mut call = vec![ex(rng), atom(&tout)];
                call.extend(order.iter().map(|&i| pa[i].clone()));
                (list(idef), list(odef), list(call))
            }
            1 => {
                // a second atom of the same list, forwarded through the same inner template
                let others: Vec<usize> = action_children(&Node::List(body.clone())).into_iter().chain(number_children(&Node::List(body.clone()))).filter(|&j| j != ci && comparable(&body[j])).collect();
                let mut sites = vec![ci];
                if !others.is_empty() && rng.coin() {
                    sites.push(*rng.pick(&others));
                }
                let text = |n: &Node| if let Node::Atom(a) = n { a.clone() } else { String::new() };
                let mut matching: Vec<bool> = vec![rng.coin()];
                if sites.len() == 2 {
                    let may = !matching[0] || text(&body[sites[0]]) == text(&body[sites[1]]);
                    matching.push(may && rng.coin());
                }
                let hit = sites.iter().zip(&matching).find(|(_, m)| **m).map(|(s, _)| body[*s].clone());
                let repl: Node = hit.unwrap_or_else(|| list(vec![atom("this-is-not-an-action"), atom("$zk")]));
                let (s1, s2) = ("zsentinel", "zothersentinel");
                let two = |rng: &mut Rng, a: Node, b: Node| if rng.coin() { vec![a, b] } else { vec![b, a] };
                let ck = rng.usize(4);
                let icontent: Vec<Node> = match ck {
                    0 => {
                        let mut c1 = vec![atom("if-equal")];
                        c1.extend(two(rng, atom("$zk"), atom(s1)));
                        c1.push(repl.clone());
                        let mut c2 = vec![atom("if-not-equal")];
                        c2.extend(two(rng, atom("$zk"), atom(s1)));
                        c2.push(atom("$zk"));
                        two(rng, list(c1), list(c2))
                    }
                    1 => {
                        let c1 = list(vec![atom("if-in-list"), atom("$zk"), list(two(rng, atom(s1), atom(s2))), repl.clone()]);
                        let c2 = list(vec![atom("if-not-in-list"), atom("$zk"), list(two(rng, atom(s1), list(vec![atom(s2)]))), atom("$zk")]);
                        two(rng, c1, c2)
                    }
                    2 => {
                        let inner = list(vec![atom("if-not-in-list"), atom("$zk"), list(vec![atom(s2)]), atom("$zk")]);
                        let c1 = list(vec![atom("if-not-equal"), atom("$zk"), atom(s1), inner]);
                        let c2 = list(vec![atom("if-in-list"), atom("$zk"), list(vec![atom(s1)]), repl.clone()]);
                        two(rng, c1, c2)
                    }
                    _ => {
                        // the sentinel case first decided by if-equal, everything else falls through two negative tests
                        let c1 = list(vec![atom("if-equal"), atom(s1), atom("$zk"), list(vec![atom("if-not-equal"), atom("$zk"), atom(s2), repl.clone()])]);
                        let c2 = list(vec![atom("if-not-in-list"), atom("$zk"), list(vec![atom(s2), atom(s1)]), atom("$zk")]);
                        two(rng, c1, c2)
                    }
                };
                notes.push(format!("fwd_cond_form:{}", ["equal", "in-list", "nested-negative", "nested-positive"][ck]));
                let mut idef = vec![atom("deftemplate"), atom(&tin), list(vec![atom("zk")])];
                idef.extend(icontent);
                let pn = ["zw", "zx"];
                let mut args = vec![];
                for (i, &sidx) in sites.iter().enumerate() {
                    let old = std::mem::replace(&mut body[sidx], list(vec![ex(rng), atom(&tin), atom(&format!("${}", pn[i]))]));
                    args.push(if matching[i] { atom(s1) } else { old });
                    notes.push(format!("fwd_value:{}", if matching[i] { "matching" } else { "non-matching" }));
                }
                if sites.len() == 2 {
                    notes.push(format!("fwd_pair:{}", match (matching[0], matching[1]) {
                        (true, true) => "both-matching",
                        (false, false) => "both-non-matching",
                        _ => "mixed",
                    }));
                }
                let mut order: Vec<usize> = (0..sites.len()).collect();
                rng.shuffle(&mut order);
                let odef = vec![atom("deftemplate"), atom(&tout), list(order.iter().map(|&i| atom(pn[i])).collect()), list(body)];
                let mut call = vec![ex(rng), atom(&tout)];
                call.extend(order.iter().map(|&i| args[i].clone()));
                (list(idef), list(odef), list(call))
            }
            _ => {
                let Node::Atom(a) = body[ci].clone() else { return false };
                let cut = 1 + rng.usize(a.len() - 1);
                let (x, y) = a.split_at(cut);
                let q = |s: &str| atom(&format!("\"{s}\""));
                let form = rng.usize(4);
                // (inner parameters, inner content, arguments of the inner use inside outer, argument of outer)
                let (ip, ic, ia, oa): (Vec<Node>, Node, Vec<Node>, Node) = match form {
                    0 => (vec![atom("zk")], list(vec![atom("concat"), atom("$zk"), q(y)]), vec![atom("$zw")], atom(x)),
                    1 => (vec![atom("zk")], list(vec![atom("concat"), atom(x), atom("$zk")]), vec![atom("$zw")], atom(y)),
                    2 => (vec![atom("zk"), atom("zl")], list(vec![atom("concat"), atom("$zk"), atom("$zl")]), vec![atom("$zw"), atom(y)], atom(x)),
                    _ => (vec![atom("zk"), atom("zl")], list(vec![atom("concat"), atom("$zk"), atom("$zl")]), vec![atom(x), atom("$zw")], atom(y)),
                };
                notes.push(format!("fwd_concat_form:{}", ["head-forwarded", "tail-forwarded", "head-forwarded-tail-from-outer", "tail-forwarded-head-from-outer"][form]));
                let idef = vec![atom("deftemplate"), atom(&tin), list(ip), ic];
                let mut icall = vec![ex(rng), atom(&tin)];
                icall.extend(ia);
                body[ci] = list(icall);
                let odef = vec![atom("deftemplate"), atom(&tout), list(vec![atom("zw")]), list(body)];
                (list(idef), list(odef), list(vec![ex(rng), atom(&tout), oa]))
            }
        };
        let Some(slot) = self.node_mut(&site) else { return false };
        *slot = call;
        // inner is declared before outer, outer before its use
        let pos_o = rng.usize(site[0] + 1);
        let pos_o = self.insert(pos_o, outer_def, rng);
        let pos_i = rng.usize(pos_o + 1);
        let pos_i = self.insert(pos_i, inner_def, rng);
        notes.push(format!("fwd_definitions:{}", if pos_i == pos_o { "adjacent" } else { "apart" }));
        self.created_def(pos_o + 1);
        self.notes.extend(notes);
        true
    }

    /// a whole deflayer / defalias item becomes the body of a template (conditionals inside the item's
    /// list) and is put back by a top-level expansion
    fn template_toplevel(&mut self, rng: &mut Rng) -> bool {
        let cands: Vec<(usize, usize)> = self
            .items
            .iter()
            .enumerate()
            .filter(|(_, it)| matches!(head(&it.node), Some("deflayer") | Some("defalias")) && !Self::uses_template(&it.node) && matches!(&it.node, Node::List(l) if l.len() >= 3))
            .map(|(i, _)| (i, i))
            .collect();
        let cands = self.focused(cands);
        if cands.is_empty() {
            return false;
        }
        let fi = *rng.pick(&cands);
        let Node::List(mut body) = self.items[fi].node.clone() else { return false };
        let ci = 2 + rng.usize(body.len() - 2);
        let arg = std::mem::replace(&mut body[ci], atom("$zp"));
        let tname = self.fresh("zt");
        let inner = list(Self::conditionalise_list(rng, body, ci));
        let dtop = 1 + rng.below(2) as u32;
        let content = if rng.coin() { vec![Self::cond_true_nest(rng, vec![inner], dtop)] } else { vec![inner] };
        let expand = if rng.coin() { "t!" } else { "template-expand" };
        self.items[fi].node = list(vec![atom(expand), atom(&tname), arg, atom("yes"), atom("no")]);
        let mut def = vec![atom("deftemplate"), atom(&tname), list(vec![atom("zp"), atom("zq"), atom("zr")])];
        def.extend(content);
        let pos = rng.usize(fi + 1);
        let pos = self.insert(pos, list(def), rng);
        self.created_def(pos);
        true
    }

    fn run_of_items(&self, rng: &mut Rng, ok: &dyn Fn(&Item) -> bool) -> Option<(usize, usize)> {
        if let Some(f) = self.focus {
            if self.items.get(f).map(ok).unwrap_or(false) {
                return Some((f, f + 1));
            }
        }
        if self.items.is_empty() {
            return None;
        }
        for _ in 0..8 {
            let i = rng.usize(self.items.len());
            let j = (i + 1 + rng.usize(3)).min(self.items.len());
            if self.items[i..j].iter().all(ok) {
                return Some((i, j));
            }
        }
        None
    }

    fn include(&mut self, rng: &mut Rng) -> bool {
        // anything that is still in the main file can move, platform-wrapped items and expansions included
        let Some((i, j)) = self.run_of_items(rng, &|it: &Item| it.file.is_none()) else { return false };
        let fname = format!("{}.kbd", self.fresh("zinc"));
        self.file_names.push(fname);
        let k = self.file_names.len() - 1;
        for it in &mut self.items[i..j] {
            it.file = Some(k);
        }
        true
    }

    fn platform(&mut self, rng: &mut Rng) -> bool {
        let Some((i, j)) = self.run_of_items(rng, &|it: &Item| head(&it.node) != Some("platform")) else { return false };
        // one configuration item per platform form (the parser requires exactly that)
        for k in i..j {
            let item = std::mem::replace(&mut self.items[k].node, atom("x"));
            let plats = if rng.coin() { list(vec![atom("linux")]) } else { list(vec![atom("macos"), atom("linux")]) };
            self.items[k].node = list(vec![atom("platform"), plats, item]);
        }
        // an item for a platform that is not this one is dropped before it is looked at
        let decoy = list(vec![atom("platform"), list(vec![atom("win"), atom("winiov2")]), list(vec![atom("garbage"), atom("that"), list(vec![atom("would")]), atom("\"not parse\""), atom("@nowhere"), atom("$nothing")])]);
        let pos = rng.usize(self.items.len() + 1);
        self.insert(pos, decoy, rng);
        true
    }

    /// (process-unmapped-keys is yes, block-unmapped-keys is mentioned) as written in defcfg
    fn unmapped_opts(&self) -> (bool, bool) {
        let (mut pu, mut bu) = (false, false);
        for it in &self.items {
            let f = match &it.node {
                Node::List(l) if head(&it.node) == Some("platform") && l.len() == 3 => &l[2],
                n => n,
            };
            if let (Some("defcfg"), Node::List(l)) = (head(f), f) {
                for w in l.windows(2) {
                    if let (Node::Atom(k), Node::Atom(v)) = (&w[0], &w[1]) {
                        if k == "process-unmapped-keys" {
                            pu = v == "yes";
                        }
                    }
                }
                if contains_atom(f, &|a| a == "block-unmapped-keys") {
                    bu = true;
                }
            }
        }
        (pu, bu)
    }

    /// A deflayer becomes the equivalent deflayermap. `wild` = false: one explicit entry per defsrc key, in defsrc order
    /// or shuffled. `wild` = true: the wildcard inputs are used as well, each at a uniformly random place among the
    /// entries (before, between and after the explicit ones):
    ///   `_ A`    for a (possibly empty) subset of the defsrc keys whose cell is A, every other defsrc key explicit;
    ///   `__ _`   (non-defsrc keys transparent, which is what a deflayer leaves them) and explicit `K _` entries for
    ///            1-2 keys K that are not in defsrc, before or after the wildcard;
    ///   `___ _`  for a subset of the defsrc keys whose cell is `_` plus all keys outside defsrc.
    /// The last two only when process-unmapped-keys is yes (the wildcards demand it) and block-unmapped-keys is absent.
    fn layermap(&mut self, rng: &mut Rng, wild: bool) -> bool {
        fn unwrap(n: &Node) -> &Node {
            match n {
                Node::List(l) if head(n) == Some("platform") && l.len() == 3 => &l[2],
                _ => n,
            }
        }
        let Some(keys) = self.items.iter().map(|it| unwrap(&it.node)).find(|f| head(f) == Some("defsrc")).and_then(|f| match f {
            Node::List(l) if l[1..].iter().all(|x| matches!(x, Node::Atom(_))) => Some(l[1..].to_vec()),
            _ => None,
        }) else {
            return false;
        };
        let cands: Vec<(usize, usize)> = self
            .items
            .iter()
            .enumerate()
            .filter(|(_, it)| {
                let f = unwrap(&it.node);
                head(f) == Some("deflayer") && matches!(f, Node::List(l) if l.len() == keys.len() + 2 && matches!(l[1], Node::Atom(_)) && !l[2..].iter().any(|c| matches!(c, Node::List(_)) && matches!(head(c), Some("if-equal") | Some("if-not-equal") | Some("if-in-list") | Some("if-not-in-list"))))
            })
            .map(|(i, _)| (i, i))
            .collect();
        let cands = self.focused(cands);
        if cands.is_empty() {
            return false;
        }
        let fi = *rng.pick(&cands);
        let wrapped = head(&self.items[fi].node) == Some("platform");
        let Node::List(l) = unwrap(&self.items[fi].node).clone() else { return false };
        let n = keys.len();
        let cells: Vec<Node> = l[2..].to_vec();
        // (input, action, class) - class 0: explicit defsrc key, 1: explicit key outside defsrc, 2: _, 3: __, 4: ___
        let mut explicit: Vec<(Node, Node, u8)> = vec![];
        let mut wilds: Vec<(Node, Node, u8)> = vec![];
        let mut notes: Vec<String> = vec![];
        let mut covered = vec![false; n];
        if wild {
            let (pu, bu) = self.unmapped_opts();
            let outside_ok = pu && !bu;
            // 0: _   1: _ and __   2: __   3: ___
            let modes: Vec<u8> = match (n > 0, outside_ok) {
                (true, true) => vec![0, 0, 1, 1, 2, 3, 3],
                (true, false) => vec![0],
                (false, true) => vec![2, 3],
                (false, false) => return false,
            };
            let mode = *rng.pick(&modes);
            if mode <= 1 {
                // the action of `_`: the cell of a random key; it stands for any subset of the keys with that very cell
                // (3 times in 4 a key whose cell also stands at another key, if there is one)
                let dup: Vec<usize> = (0..n).filter(|&k| (0..n).any(|j| j != k && cells[j] == cells[k])).collect();
                let k0 = if !dup.is_empty() && rng.chance(3, 4) { *rng.pick(&dup) } else { rng.usize(n) };
                let same: Vec<usize> = (0..n).filter(|&k| cells[k] == cells[k0]).collect();
                let take = match rng.usize(6) {
                    0 => 0,
                    1 | 2 => same.len(),
                    _ => 1 + rng.usize(same.len()),
                };
                let mut pickd = same.clone();
                rng.shuffle(&mut pickd);
                for &k in pickd.iter().take(take) {
                    covered[k] = true;
                }
                notes.push(format!("lmap_covered_by__:{}", if take == 0 { "none" } else if take == 1 { "one" } else if take == n { "all" } else { "several" }));
                wilds.push((atom("_"), cells[k0].clone(), 2));
            }
            if mode == 3 {
                let trans: Vec<usize> = (0..n).filter(|&k| cells[k] == atom("_")).collect();
                let mut pickd = trans.clone();
                rng.shuffle(&mut pickd);
                let take = if trans.is_empty() { 0 } else { rng.usize(trans.len() + 1) };
                for &k in pickd.iter().take(take) {
                    covered[k] = true;
                }
                notes.push(format!("lmap_defsrc_keys_covered_by____:{}", if take == 0 { "none" } else { "some" }));
                wilds.push((atom("___"), atom("_"), 4));
            }
            if mode == 1 || mode == 2 {
                wilds.push((atom("__"), atom("_"), 3));
            }
            if mode >= 1 && rng.chance(2, 3) {
                // keys outside defsrc, written out as transparent
                let pool: Vec<&str> = gen::PHYS.iter().copied().chain(["f1", "f5", "f12", "kp1", "ins", "home", "pgup", "del", "min", "eql"]).filter(|k| !keys.contains(&atom(k))).collect();
                if !pool.is_empty() {
                    let cnt = 1 + rng.usize(2);
                    let mut idx: Vec<usize> = (0..pool.len()).collect();
                    rng.shuffle(&mut idx);
                    for &i in idx.iter().take(cnt) {
                        explicit.push((atom(pool[i]), atom("_"), 1));
                    }
                }
            }
            notes.push(format!("lmap_wildcards:{}", ["_", "_+__", "__", "___"][mode as usize]));
        }
        for k in 0..n {
            if !covered[k] {
                explicit.push((keys[k].clone(), cells[k].clone(), 0));
            }
        }
        if wild || rng.coin() {
            rng.shuffle(&mut explicit);
        }
        let mut entries = explicit;
        for w in wilds {
            let at = rng.usize(entries.len() + 1);
            entries.insert(at, w);
        }
        for (i, e) in entries.iter().enumerate() {
            if e.2 < 2 {
                continue;
            }
            let name = ["", "", "_", "__", "___"][e.2 as usize];
            let covers = |c: u8| c < 2 && (e.2 == 4 || (e.2 == 2 && c == 0) || (e.2 == 3 && c == 1));
            let before = entries[..i].iter().filter(|x| covers(x.2)).count();
            let after = entries[i + 1..].iter().filter(|x| covers(x.2)).count();
            notes.push(format!("lmap_place:{name}:{}", match (before, after) {
                (0, 0) => "no-explicit-entry-of-its-kind",
                (0, _) => "before-all-explicit",
                (_, 0) => "after-all-explicit",
                _ => "between-explicit",
            }));
            if after > 0 {
                notes.push("lmap_explicit_entry_after_wildcard_covering_its_key".into());
            }
            if entries[i + 1..].iter().any(|x| x.2 >= 2) {
                notes.push("lmap_wildcard_before_other_wildcard".into());
            }
        }
        let mut v = vec![atom("deflayermap"), list(vec![l[1].clone()])];
        for (i, a, _) in entries {
            v.push(i);
            v.push(a);
        }
        if wrapped {
            if let Node::List(w) = &mut self.items[fi].node {
                w[2] = list(v);
            }
        } else {
            self.items[fi].node = list(v);
        }
        self.notes.extend(notes);
        true
    }

    fn apply(&mut self, kind: &'static str, rng: &mut Rng) -> bool {
        let mut ok = self.apply_once(kind, rng);
        if !ok && self.focus.is_some() {
            // not applicable to the focused item: anywhere else
            let f = self.focus.take();
            ok = self.apply_once(kind, rng);
            self.focus = f;
        }
        if ok {
            self.applied.push(kind);
        }
        ok
    }
    fn apply_once(&mut self, kind: &'static str, rng: &mut Rng) -> bool {
        match kind {
            "alias" => self.alias(rng),
            "var-action" => self.var(rng, 0),
            "var-atom" => self.var(rng, 1),
            "var-concat" => self.var(rng, 2),
            "var-chain" => self.var_chain(rng, false),
            "var-chain-fwd" => self.var_chain(rng, true),
            "template" => self.template(rng, 0),
            "template-if-equal" => self.template(rng, 1),
            "template-nested-cond" => self.template(rng, 2),
            "template-toplevel-form" => self.template_toplevel(rng),
            "template-multi-param" => self.template_multi(rng, false),
            "template-var-args" => self.template_multi(rng, true),
            "include" => self.include(rng),
            "platform" => self.platform(rng),
            "template-forward" => self.template_forward(rng),
            "layermap" => self.layermap(rng, false),
            "layermap-wildcard" => self.layermap(rng, true),
            _ => false,
        }
    }
}

fn file_map(files: &[(String, String)]) -> FileMap {
    let mut fm = FileMap::default();
    for (n, t) in files {
        fm.insert(n.clone(), t.clone());
    }
    fm
}

/// everything the parser produced that the property names, rendered as text
fn digest(text: &str, files: &[(String, String)]) -> Result<BTreeMap<&'static str, String>, String> {
    let cfg = kanata_parser::cfg::new_from_str(text, file_map(files)).map_err(|e| {
        let h = miette::Diagnostic::help(&*e).map(|h| h.to_string()).unwrap_or_default();
        format!("{e} {h}").lines().next().unwrap_or("").to_string()
    })?;
    let mut d = BTreeMap::new();
    let mut mk: Vec<u16> = cfg.mapped_keys.iter().map(|o| o.as_u16()).collect();
    mk.sort();
    d.insert("mapped_keys", format!("{mk:?}"));
    let mut ko = String::new();
    for m in cfg.key_outputs.iter() {
        let mut es: Vec<(u16, Vec<u16>)> = m.iter().map(|(k, v)| (k.as_u16(), v.iter().map(|o| o.as_u16()).collect())).collect();
        es.sort();
        ko.push_str(&format!("{es:?};"));
    }
    d.insert("key_outputs", ko);
    d.insert("overrides", format!("{:?}", cfg.overrides));
    d.insert("sequences", format!("{:?}", cfg.sequences));
    let mut fk: Vec<(String, usize)> = cfg.fake_keys.iter().map(|(k, v)| (k.clone(), *v)).collect();
    fk.sort();
    d.insert("virtual_key_map", format!("{fk:?}"));
    d.insert("options", format!("{:?}", cfg.options));
    d.insert("layer_names", format!("{:?}", cfg.layer_info.iter().map(|l| l.name.clone()).collect::<Vec<_>>()));
    let mut cells = String::new();
    let lay = cfg.layout.b();
    for (li, layer) in lay.layers.iter().enumerate() {
        for k in &mk {
            cells.push_str(&format!("L{li}k{k}={:?}\n", layer[0][*k as usize]));
        }
        for (_, idx) in &fk {
            cells.push_str(&format!("L{li}v{idx}={:?}\n", layer[1][*idx]));
        }
    }
    d.insert("layer_cells", cells);
    Ok(d)
}

fn first_line_diff(a: &str, b: &str) -> String {
    for (x, y) in a.lines().zip(b.lines()) {
        if x != y {
            let cut = |s: &str| s.chars().take(300).collect::<String>();
            return format!("{} <> {}", cut(x), cut(y));
        }
    }
    format!("lengths {} <> {}", a.len(), b.len())
}

struct Variant {
    kinds: Vec<&'static str>,
    text: String,
    files: Vec<(String, String)>,
    /// counters describing what the chain rewrites did
    notes: Vec<String>,
}

struct Case {
    g: GenCfg,
    variants: Vec<Variant>,
    hists: Vec<Vec<Ev>>,
}

const N_SINGLE: u64 = NK * 30;
/// every ordered pair of rewrite kinds x {second rewrite on the same item, second rewrite on the
/// definition the first one created} x 2 configurations
const N_PAIR: u64 = NK * NK * 2 * 2;
const N_SYS: u64 = N_SINGLE + N_PAIR;

fn focus_candidates(forms: &[Node]) -> Vec<usize> {
    forms.iter().enumerate().filter(|(_, f)| head(f) == Some("deflayer")).map(|(i, _)| i).collect()
}

fn make_case(ctx: &Ctx, idx: u64) -> Case {
    // first block: every rewrite kind singly, then every ordered pair, on seed-independent configurations
    let sys = idx < N_SYS;
    let mut rng = if sys { Rng::for_case(0x5eed, "C16", "sys", idx) } else { Rng::for_case(ctx.seed, "C16", "case", idx) };
    let p = profile();
    let g = gen::generate(&mut rng, &p);
    let mut variants = vec![];
    if let Some(forms) = sexp::parse(&g.text) {
        // (kinds, focus an item?, follow created definitions?)
        let mut plans: Vec<(Vec<&'static str>, bool, bool)> = vec![];
        if idx < N_SINGLE {
            plans.push((vec![KINDS[(idx % NK) as usize]], false, false));
        } else if sys {
            let k = idx - N_SINGLE;
            let (a, b, follow) = ((k % NK) as usize, ((k / NK) % NK) as usize, (k / (NK * NK)) % 2 == 1);
            plans.push((vec![KINDS[a], KINDS[b]], true, follow));
        } else {
            plans.push((vec![*rng.pick(&KINDS)], false, false));
            let n = 2 + rng.usize(2);
            plans.push(((0..n).map(|_| *rng.pick(&KINDS)).collect(), true, rng.coin()));
            let n = 2 + rng.usize(ctx.tier.sel(3, 5));
            plans.push(((0..n).map(|_| *rng.pick(&KINDS)).collect(), rng.coin(), rng.coin()));
        }
        for (plan, focus, follow) in plans {
            let mut rw = Rw::new(forms.clone());
            if focus {
                let c = focus_candidates(&forms);
                if !c.is_empty() {
                    rw.focus = Some(*rng.pick(&c));
                }
                rw.follow_def = follow;
            }
            for k in plan {
                rw.apply(k, &mut rng);
            }
            if !rw.applied.is_empty() {
                let (text, files) = rw.output();
                variants.push(Variant { kinds: rw.applied.clone(), text, files, notes: rw.notes.clone() });
            }
        }
    }
    let keys: Vec<u16> = g.keys.iter().map(|k| osc(k)).collect();
    let mut gaps: Vec<u32> = vec![0, 1, 2, 7, 30];
    for n in g.numbers.iter().take(10) {
        let n = (*n).min(300) as u32;
        gaps.extend_from_slice(&[n.saturating_sub(1), n, n + 1]);
    }
    let hists = (0..2).map(|i| hist::consistent(&mut rng, &keys, 12 + 20 * i, &gaps, true)).collect();
    Case { g, variants, hists }
}

fn run_trace(text: &str, files: &[(String, String)], h: &[Ev]) -> Result<Sim, String> {
    let mut sim = Sim::new_with_files(text, file_map(files))?;
    sim.run(h);
    sim.ticks(400);
    Ok(sim)
}

impl Check for C16Check {
    fn id(&self) -> &'static str {
        "C16"
    }
    fn n_cases(&self, ctx: &Ctx) -> u64 {
        N_SYS + ctx.tier.sel(10_000, 80_000)
    }
    fn describe(&self, ctx: &Ctx, idx: u64) -> Value {
        let c = make_case(ctx, idx);
        json!({"config": c.g.text, "variants": c.variants.iter().map(|v| json!({"rewrites": v.kinds, "config": v.text, "files": v.files})).collect::<Vec<_>>(), "histories": c.hists.iter().map(|h| render_hist(h)).collect::<Vec<_>>()})
    }
    fn run_case(&self, ctx: &Ctx, idx: u64) -> CaseOut {
        let mut out = CaseOut::new();
        let c = make_case(ctx, idx);
        out.inc("configs");
        let orig = digest(&c.g.text, &[]);
        match &orig {
            Ok(_) => out.inc("originals_accepted"),
            Err(_) => out.inc("originals_rejected"),
        }
        // a rendering that is not a function of the text (addresses) cannot be compared
        let stable = match (&orig, digest(&c.g.text, &[])) {
            (Ok(a), Ok(b)) => *a == b,
            _ => true,
        };
        if !stable {
            out.inc("originals_with_unstable_rendering");
        }
        let mut orig_traces: Vec<Option<Sim>> = vec![];
        for Variant { kinds, text, files, notes } in &c.variants {
            let mut ks: Vec<&str> = kinds.clone();
            ks.sort();
            ks.dedup();
            // one rewrite kind: its name; two: "a>b"; several different kinds: "composed" (the witness lists them), kept apart
            // when a variable chain written against the definition order is among them
            let label = if ks.len() == 1 { ks[0].to_string() } else if kinds.len() == 2 { format!("{}>{}", kinds[0], kinds[1]) } else if ks.contains(&"var-chain-fwd") { "composed-with-var-chain-fwd".to_string() } else { "composed".to_string() };
            for k in kinds {
                out.inc(&format!("applied:{k}"));
            }
            out.inc("variants");
            for n in notes {
                out.inc(n);
            }
            if kinds.len() > 1 {
                out.inc("variants_composed");
            }
            if idx >= N_SINGLE && idx < N_SYS && kinds.len() == 2 {
                out.inc("pairs_on_same_item");
            }
            if !files.is_empty() && files.iter().any(|(_, t)| t.contains("(platform ") || t.contains("(t! ") || t.contains("(template-expand ") || t.contains("(deftemplate ") || t.contains("(defalias zz") || t.contains("(defvar zv")) {
                out.inc("variants_with_indirection_inside_included_file");
            }
            out.max("composition_length", kinds.len() as u64);
            let rewritten = digest(text, files);
            let witness = |obs: Value, exp: Value, history: String| json!({"config": c.g.text, "rewrites": kinds, "rewritten_config": text, "files": files, "history": history, "observed": obs, "expected": exp});
            match (&orig, &rewritten) {
                (Err(_), Err(_)) => {
                    out.inc("both_rejected");
                    out.tag(format!("rej:{label}"));
                }
                (Ok(_), Err(e)) => {
                    out.violate(format!("C16:accepted-original-rejected-rewrite:{label}"), format!("the original is accepted, the version rewritten with {kinds:?} is rejected: {e}"), witness(json!({"rewritten": format!("rejected: {e}")}), json!({"rewritten": "accepted"}), String::new()));
                }
                (Err(e), Ok(_)) => {
                    out.violate(format!("C16:rejected-original-accepted-rewrite:{label}"), format!("the original is rejected ({e}), the version rewritten with {kinds:?} is accepted"), witness(json!({"original": format!("rejected: {e}"), "rewritten": "accepted"}), json!({"rewritten": "rejected"}), String::new()));
                }
                (Ok(a), Ok(b)) => {
                    out.inc("both_accepted");
                    for n in notes {
                        out.inc(&format!("accepted_{n}"));
                    }
                    out.tag(format!("acc:{label}:{}", c.g.kinds_used.iter().take(6).copied().collect::<Vec<_>>().join(",")));
                    let mut artefacts_equal = true;
                    for (k, va) in a {
                        if k == &"layer_cells" && !stable {
                            continue;
                        }
                        let vb = b.get(k).cloned().unwrap_or_default();
                        if *va != vb {
                            artefacts_equal = false;
                            out.violate(format!("C16:parsed-{k}-differ:{label}"), format!("{k} of the parsed configuration change under the rewrite {kinds:?}: {}", first_line_diff(va, &vb)), witness(json!({k.to_string(): first_line_diff(va, &vb)}), json!("identical"), String::new()));
                        }
                    }
                    if artefacts_equal {
                        out.inc("parsed_artefacts_equal");
                    }
                    // behaviour
                    for (hi, h) in c.hists.iter().enumerate() {
                        if orig_traces.len() <= hi {
                            orig_traces.push(run_trace(&c.g.text, &[], h).ok());
                        }
                        let Some(sa) = &orig_traces[hi] else {
                            out.inconclusive = Some("original accepted by the parser but refused by Kanata::new_from_str".into());
                            continue;
                        };
                        match run_trace(text, files, h) {
                            Ok(sb) => {
                                out.inc("histories_compared");
                                out.count("outputs_compared", sa.trace.len() as u64);
                                if let Some(d) = first_diff(&sa.trace, &sb.trace) {
                                    out.violate(format!("C16:trace-differs:{label}"), format!("OS trace differs after rewriting with {kinds:?}: {d}"), witness(json!({"first_difference": d, "original_trace": sa.trace_short(), "rewritten_trace": sb.trace_short()}), json!("identical traces"), render_hist(h)));
                                } else if sa.os.describe() != sb.os.describe() || sa.is_idle() != sb.is_idle() {
                                    out.violate(format!("C16:end-state-differs:{label}"), format!("end state differs after rewriting with {kinds:?}"), witness(json!({"original": sa.os.describe(), "rewritten": sb.os.describe()}), json!("identical"), render_hist(h)));
                                } else {
                                    out.inc("traces_equal");
                                    if kinds.contains(&"var-chain-fwd") {
                                        out.inc("forward_chain_traces_equal");
                                    }
                                    if kinds.contains(&"template-var-args") {
                                        out.inc("template_var_args_traces_equal");
                                    }
                                    if kinds.contains(&"template-forward") {
                                        out.inc("template_forward_traces_equal");
                                    }
                                    if kinds.contains(&"layermap-wildcard") {
                                        out.inc("layermap_wildcard_traces_equal");
                                    }
                                    if !sa.trace.is_empty() {
                                        out.inc("nonempty_traces_equal");
                                    }
                                }
                            }
                            Err(e) => {
                                out.violate(format!("C16:accepted-original-rejected-rewrite:{label}"), format!("rewritten configuration refused when building Kanata: {e}"), witness(json!({"rewritten": e}), json!("accepted"), String::new()));
                            }
                        }
                    }
                }
            }
        }
        if idx % 300 == 11 || idx == 2 {
            if let Some(v) = c.variants.last() {
                out.sample = Some(json!({"idx": idx, "original": c.g.text, "rewrites": v.kinds, "rewritten": v.text, "files": v.files}));
            }
        }
        out
    }
    fn rule(&self) -> String {
        "case = one grammar-generated configuration (whole action grammar except rpt-any, dynamic macros, on-press/release-delay and chords v2; boundary numbers and deliberately rejected ones included) x up to 3 rewritten variants: one single rewrite, one composition of 2-3 applied to the SAME top-level item (optionally following the definition the previous rewrite created), one free composition of 2-4 (quick) / 2-6 (thorough), drawn from 17 kinds {defalias + @name at an action position of a layer cell or alias value or nested in multi/tap-hold/fork/switch/tap-dance; defvar of a whole action list; defvar of a key atom or timeout number; the same through (concat ..); a chain of 2 or 3 variables (site = $v0, v0 = $v1, [v1 = $v2,] last = the value, with probability 1/4 the value of a key / number written as (concat ..)) standing for a whole action list, a plain list (fork / tap-hold-release-keys / tap-hold-except-keys key list, push-msg sub-list), a key atom, a timeout number, a string (layer name of layer-switch / layer-while-held / layer-toggle / release-layer, virtual-key name of on-press / on-release / on-press-fakekey / on-release-fakekey, push-msg item, unicode character) or the whole value of an existing defvar entry, with every link defined after the variable it names (var-chain: the definitions in one defvar block, one defvar form per link at random places in that relative order, or 2+1 / 1+2; for the value of an existing variable: written into its defvar form directly in front of it); the same chain written in any OTHER definition order (var-chain-fwd: 1 order for length 2, 5 for length 3, so at least one variable's whole value names a variable defined later in the same block or in a later defvar form, possibly in an included file or behind a platform wrapper after composition); deftemplate with the sub-action or number as argument expanded with t!/template-expand; the same guarded by if-equal / if-not-equal with decoy branches; the same with conditionals nested 2-3 deep (if-equal, if-not-equal, if-in-list, if-not-in-list, true and false branches, false branches containing conditionals that would hold) both at the top of the template body and inside the action list; a whole deflayer / defalias item written as a template body with such conditionals inside its list and put back by a top-level expansion; an action list written as a template with 2, 3 or 4 parameters (template-multi-param: the parameters stand for non-overlapping pieces cut out of the list and of the action lists nested in it - sub-actions, keys, alias / variable references, timeout numbers, plain key lists, layer / virtual-key names and other strings -, preferring lists and pieces that already refer to variables; when the list has fewer pieces than parameters the rest are guard parameters passed as 'yes' and compared by if-equal / if-not-equal / if-in-list / if-not-in-list either around the list or in a vanishing conditional among its items; the parameter list is a uniformly random permutation of the order in which the parameters occur in the body, all 2 + 6 + 24 orders; half of the parameters are named like a variable that already exists in the configuration and does not occur in the template body, first choice a variable that one of the ARGUMENTS refers to, so that the expansion is called with $name where name is also a parameter written earlier or later in the parameter list; a parameter standing for an atom also replaces, half of the time, every other atom with the same text in the body); the same where additionally (a piece of) one or more arguments is moved into a new defvar named like ANOTHER parameter of the same template, written before or after it in the parameter list, a guard parameter included (1 in 10: like its own parameter), and the argument becomes / contains $<that parameter name> - whole arguments of every class above and pieces inside list arguments (nested action, key, number, plain list, string), the new variables in one defvar block or separate forms anywhere in the configuration, a quarter of the time with one parameter name extending another one's (zv7, zv7x) (template-var-args); an action list produced through two templates (template-forward): the use site expands an outer template whose body contains an expansion of an inner template, declared before it, and passes outer's own parameters on to it, and the inner template decides on the forwarded parameter - shape 'guard': the inner template is that of the nested-conditional rewrite (guards compared by if-equal / if-not-equal / if-in-list / if-not-in-list nested around and inside the list), outer forwards the payload and both guards or one guard and a literal, in any parameter order, optionally inside a conditional of its own and next to a vanishing conditional that contains another forwarding expansion; shape 'payload-cond': one or two atoms of the list (key, alias or variable reference, number, XX, _) are each produced by (t! inner $param) where inner compares its parameter with a sentinel and yields the original atom for the sentinel (matching value: outer is called with the sentinel) and the parameter itself otherwise (non-matching value: outer is called with the original atom), written with if-equal + if-not-equal, if-in-list + if-not-in-list, or one conditional nested in another, either comparand order and either order of the conditionals, pairs mixed / both non-matching / both matching; shape 'payload-concat': a key or number atom is cut in two, outer is called with one half and forwards it to inner which glues it to the other half with (concat ..), the other half being a literal of inner or a second argument written in outer's body; 1-3 consecutive top-level items moved into an included file; items wrapped in (platform (linux) ..) plus an unparsable (platform (win winiov2) ..) decoy; a deflayer rewritten as deflayermap with one explicit entry per defsrc key in defsrc order or shuffled (layermap); a deflayer rewritten as deflayermap that uses the wildcard inputs (layermap-wildcard): `_ A` standing for none / one / several / all of the defsrc keys whose cell is A (3 times in 4 a cell that occurs at more than one key when there is one) with every other defsrc key explicit, and, only when defcfg has process-unmapped-keys yes and no block-unmapped-keys, also `__ _` (alone or together with `_`), `___ _` standing for a subset of the defsrc keys whose cell is `_` and everything outside defsrc, and 1-2 explicit transparent entries `K _` for keys K outside defsrc; the explicit entries are shuffled and every wildcard entry is inserted at a uniformly random place, so it stands before all, between, and after all explicit entries for keys it would cover}. The configuration is kept as one flat item list with a file tag per item, so rewrites apply equally inside included files: platform-wrapped items, template definitions and expansions, aliases and variables can be defined in an included file and used in the main file after the include and vice versa. The first 1666 cases are the same for every seed: each kind singly on 30 configurations, then every ordered pair of kinds (289) applied to the same item, once staying on the item and once following the created definition, on 2 configurations each. Compared: accept/reject, mapped keys, key outputs, overrides, sequence trie, virtual-key map, options, layer names, Debug rendering of every mapped layer cell and virtual-key cell of every layer, and the OS trace (tick-exact, redundant releases dropped) + end state on 2 random physically consistent histories with OS repeats and gaps around every configured number. Non-trivial = variant with at least one rewrite applied; distinct = (accept/reject, rewrite kinds, action kinds in the configuration).".into()
    }
    fn assumptions(&self) -> Vec<String> {
        vec![
            "rewrite sites are restricted to places where the guide promises neutrality: aliases and variables only at action positions reachable from deflayer/deflayermap cells and defalias values (not in defvirtualkeys/defchords, not action names, not inside macros or quoted strings); aliases are defined directly before the item that uses them (a value inside a defalias item that refers, directly or through a variable/template, to an alias of the same item is not hoisted); templates are declared before their use and, except in the template-forward rewrite, never nested in each other; include is applied to whole top-level items of the main file only (no nested includes), platform wraps exactly one item and is not nested in platform".into(),
            "variables standing for atoms are only used for alphanumeric key names, timeout numbers and (chain rewrites only) the free-form string / name positions listed in rule(); never for action names, never in defcfg / defsrc / deflocalkeys, never inside macros".into(),
            "forward references between variables: the guide says a variable's value 'will be substituted wherever the variable is used', that the label 'can be used in the rest of the configuration', and that 'variables are allowed to refer to previously defined variables'; it does not say that naming a later variable is an error. All defvar forms are collected before anything that uses them is parsed and substitution happens at the use site, so a variable whose WHOLE value is $other is judged transparent in every definition order (var-chain-fwd). Because the guide's sentence literally promises only the backward order, violations that need a forward chain carry their own labels (':var-chain-fwd', 'x>var-chain-fwd', 'composed-with-var-chain-fwd') and never share a signature with the order the guide's example uses (var-chain). (concat ..) is documented to produce its string where it is written, so it only ever appears as the LAST link of a chain, with literal parts, never with a reference to a later variable".into(),
            "template arguments: the guide says that within the template content the $names of the template variables 'will be substituted with the expression passed into template-expand', that expansion happens 'before any other parsing', that variables of defvar 'are not substituted when used inside of template-expand', and its example 5 passes $a as an argument and gets the text $a inserted; an argument is therefore taken to be inserted exactly as written (all parameters at once, an inserted argument is not looked at again), and a $name inside an argument is afterwards an ordinary reference to the variable of that name - also when a parameter of the same template has that name (the unchanged tree does exactly this). Parameters are never named like a variable that the template BODY refers to (that would be shadowing, which the guide does not define), variable references in arguments only stand where the variable rewrites may put them (action positions outside macros, timeout numbers, plain key lists, name / string positions), arguments of guard parameters are literal atoms because the conditionals compare text, and the templates of these rewrites are never nested in each other".into(),
            "a template used inside a template: the guide calls templates 'a simple text substitution', allows template-expand 'within another list' and the parser's own message says 'order of declaration matters'; a template body that expands an EARLIER template is therefore taken to mean the text one gets by substituting outer's arguments first and expanding the inner use afterwards with the substituted values - conditionals and concat of the inner template see the VALUES passed to outer, never outer's parameter names. The inner template is always declared before the outer one, comparands are atoms (the conditionals demand strings), the sentinels never occur in the configuration, concat is only used for alphanumeric key names and numbers".into(),
            "deflayermap wildcards: the guide says _ / __ / ___ 'map all the keys that are not explicitly mapped in the layer' (defsrc keys / keys outside defsrc / both) and gives them no position, so a wildcard entry is judged to mean the same wherever it stands among the entries, and an explicit entry always wins over it. Equivalence with a deflayer: `_ A` replaces explicit entries with the identical action text A; a deflayer leaves keys outside defsrc transparent, so `__ _`, `___ _` (the latter only covering defsrc keys whose cell is `_`) and explicit `K _` entries for keys outside defsrc are judged neutral - only under process-unmapped-keys yes (the parser demands it for __ / ___, and only then are such keys mapped at all) and without block-unmapped-keys (which turns unmapped keys into no-ops instead)".into(),
            "configurations whose Debug rendering is not a function of the text (two parses of the original differ) are compared on everything except the cell rendering".into(),
            "actions known to crash or sleep at run time on the unchanged tree (rpt-any, dynamic macros, on-press-delay, chords v2 with use-defsrc) are not generated".into(),
        ]
    }
    fn floors(&self, _ctx: &Ctx) -> Vec<(&'static str, u64)> {
        vec![
            ("both_accepted", 2000),
            ("both_rejected", 100),
            ("parsed_artefacts_equal", 2000),
            ("nonempty_traces_equal", 2000),
            ("variants_composed", 800),
            ("applied:alias", 300),
            ("applied:var-action", 300),
            ("applied:var-atom", 300),
            ("applied:var-concat", 300),
            ("applied:var-chain", 300),
            ("applied:var-chain-fwd", 300),
            // accepted on both sides, i.e. the chain was really resolved at its use site
            ("accepted_chain_len:2", 500),
            ("accepted_chain_len:3", 500),
            ("accepted_chain_order:v1-v0", 300),
            ("accepted_chain_order:v0-v1", 300),
            ("accepted_chain_order:v2-v1-v0", 300),
            ("accepted_chain_order:v0-v1-v2", 100),
            ("accepted_chain_order:v0-v2-v1", 100),
            ("accepted_chain_order:v1-v0-v2", 100),
            ("accepted_chain_order:v1-v2-v0", 100),
            ("accepted_chain_order:v2-v0-v1", 100),
            ("accepted_chain_forward_links:1", 500),
            ("accepted_chain_forward_links:2", 100),
            ("accepted_chain_layout:one-block", 500),
            ("accepted_chain_layout:separate-forms", 500),
            ("accepted_chain_layout:split", 300),
            ("accepted_chain_layout:same-form-in-front", 100),
            ("accepted_chain_site:action-list", 300),
            ("accepted_chain_site:plain-list", 150),
            ("accepted_chain_site:key", 300),
            ("accepted_chain_site:number", 300),
            ("accepted_chain_site:string", 300),
            ("accepted_chain_site:var-value", 200),
            ("accepted_chain_tail_concat", 80),
            ("forward_chain_traces_equal", 1000),
            ("applied:template", 300),
            ("applied:template-if-equal", 300),
            ("applied:template-nested-cond", 300),
            ("applied:template-toplevel-form", 300),
            ("applied:template-multi-param", 300),
            ("applied:template-var-args", 300),
            // templates with 2 / 3 / 4 parameters, accepted on both sides (i.e. really expanded), in every parameter order
            ("accepted_tmpl_params:2", 1000),
            ("accepted_tmpl_params:3", 1000),
            ("accepted_tmpl_params:4", 1000),
            ("accepted_tmpl_order:2:01", 500),
            ("accepted_tmpl_order:2:10", 500),
            ("accepted_tmpl_order:3:012", 150),
            ("accepted_tmpl_order:3:021", 150),
            ("accepted_tmpl_order:3:102", 150),
            ("accepted_tmpl_order:3:120", 150),
            ("accepted_tmpl_order:3:201", 150),
            ("accepted_tmpl_order:3:210", 150),
            ("accepted_tmpl_order:4:0123", 30),
            ("accepted_tmpl_order:4:0132", 30),
            ("accepted_tmpl_order:4:0213", 30),
            ("accepted_tmpl_order:4:0231", 30),
            ("accepted_tmpl_order:4:0312", 30),
            ("accepted_tmpl_order:4:0321", 30),
            ("accepted_tmpl_order:4:1023", 30),
            ("accepted_tmpl_order:4:1032", 30),
            ("accepted_tmpl_order:4:1203", 30),
            ("accepted_tmpl_order:4:1230", 30),
            ("accepted_tmpl_order:4:1302", 30),
            ("accepted_tmpl_order:4:1320", 30),
            ("accepted_tmpl_order:4:2013", 30),
            ("accepted_tmpl_order:4:2031", 30),
            ("accepted_tmpl_order:4:2103", 30),
            ("accepted_tmpl_order:4:2130", 30),
            ("accepted_tmpl_order:4:2301", 30),
            ("accepted_tmpl_order:4:2310", 30),
            ("accepted_tmpl_order:4:3012", 30),
            ("accepted_tmpl_order:4:3021", 30),
            ("accepted_tmpl_order:4:3102", 30),
            ("accepted_tmpl_order:4:3120", 30),
            ("accepted_tmpl_order:4:3201", 30),
            ("accepted_tmpl_order:4:3210", 30),
            ("accepted_tmpl_arg:action-position", 2000),
            ("accepted_tmpl_arg:number", 1000),
            ("accepted_tmpl_arg:plain-list", 200),
            ("accepted_tmpl_arg:string", 1000),
            ("accepted_tmpl_with_guard_params", 2000),
            // parameters named like variables that exist, among them variables an argument at an earlier / later place refers to
            ("accepted_tmpl_param_named_like_existing_var", 400),
            ("accepted_tmpl_param_named_like_var_in_earlier_argument", 25),
            ("accepted_tmpl_param_named_like_var_in_later_argument", 25),
            ("accepted_tmpl_param_used_repeatedly", 30),
            ("accepted_tmpl_param_name_extends_another", 300),
            // arguments that are / contain a reference to a variable named like another parameter of the same template
            ("accepted_tmpl_vararg_names:later-param", 1000),
            ("accepted_tmpl_vararg_names:earlier-param", 1000),
            ("accepted_tmpl_vararg_names:same-param", 150),
            ("accepted_tmpl_vararg_names_guard_param", 800),
            ("accepted_tmpl_vararg_at:whole-argument", 2000),
            ("accepted_tmpl_vararg_at:inside-list-argument", 100),
            ("accepted_tmpl_vararg_site:action-list", 300),
            ("accepted_tmpl_vararg_site:key", 200),
            ("accepted_tmpl_vararg_site:number", 500),
            ("accepted_tmpl_vararg_site:plain-list", 100),
            ("accepted_tmpl_vararg_site:string", 600),
            ("template_var_args_traces_equal", 1000),
            ("pairs_on_same_item", 400),
            ("applied:include", 300),
            ("applied:platform", 300),
            ("applied:layermap", 300),
            // template -> template with the decision taken on a forwarded parameter, accepted on both sides (really expanded)
            ("applied:template-forward", 300),
            ("accepted_fwd_shape:guard", 500),
            ("accepted_fwd_shape:payload-cond", 400),
            ("accepted_fwd_shape:payload-concat", 60),
            ("accepted_fwd_guards_forwarded:both", 250),
            ("accepted_fwd_guards_forwarded:first-only", 120),
            ("accepted_fwd_guards_forwarded:second-only", 120),
            ("accepted_fwd_outer_has_own_conditional", 150),
            ("accepted_fwd_value:matching", 200),
            ("accepted_fwd_value:non-matching", 250),
            ("accepted_fwd_pair:mixed", 60),
            ("accepted_fwd_pair:both-non-matching", 15),
            ("accepted_fwd_cond_form:equal", 100),
            ("accepted_fwd_cond_form:in-list", 100),
            ("accepted_fwd_cond_form:nested-negative", 100),
            ("accepted_fwd_cond_form:nested-positive", 100),
            ("accepted_fwd_concat_form:head-forwarded", 10),
            ("accepted_fwd_concat_form:tail-forwarded", 10),
            ("accepted_fwd_concat_form:head-forwarded-tail-from-outer", 10),
            ("accepted_fwd_concat_form:tail-forwarded-head-from-outer", 10),
            ("accepted_fwd_definitions:apart", 500),
            ("template_forward_traces_equal", 1000),
            // deflayermap wildcards at every place relative to the explicit entries, accepted on both sides
            ("applied:layermap-wildcard", 300),
            ("accepted_lmap_wildcards:_", 1000),
            ("accepted_lmap_wildcards:_+__", 40),
            ("accepted_lmap_wildcards:__", 25),
            ("accepted_lmap_wildcards:___", 40),
            ("accepted_lmap_place:_:before-all-explicit", 250),
            ("accepted_lmap_place:_:between-explicit", 500),
            ("accepted_lmap_place:_:after-all-explicit", 250),
            ("accepted_lmap_place:__:before-all-explicit", 15),
            ("accepted_lmap_place:__:after-all-explicit", 15),
            ("accepted_lmap_place:___:before-all-explicit", 5),
            ("accepted_lmap_place:___:between-explicit", 30),
            ("accepted_lmap_place:___:after-all-explicit", 5),
            ("accepted_lmap_explicit_entry_after_wildcard_covering_its_key", 1000),
            ("accepted_lmap_wildcard_before_other_wildcard", 40),
            ("accepted_lmap_covered_by__:none", 150),
            ("accepted_lmap_covered_by__:one", 500),
            ("accepted_lmap_covered_by__:several", 10),
            ("layermap_wildcard_traces_equal", 1000),
        ]
    }
}
