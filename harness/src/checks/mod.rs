//! Registry of property checks.

use crate::core::Check;

pub mod c01;
pub mod c02;
pub mod c03;
pub mod c04;
pub mod c05;
pub mod c06;
pub mod c07;
pub mod c08;
pub mod c09;
pub mod c10;
pub mod c11;
pub mod c12;
pub mod c13;
pub mod c14;
pub mod c15;
pub mod c16;
pub mod c17;
pub mod c18;
pub mod c19;
pub mod c20;

pub fn all() -> Vec<&'static dyn Check> {
    vec![
        &c01::C01, &c02::C02, &c03::C03, &c04::C04, &c05::C05, &c06::C06, &c07::C07, &c08::C08, &c09::C09, &c10::C10,
        &c11::C11, &c12::C12, &c13::C13, &c14::C14, &c15::C15, &c16::C16, &c17::C17, &c18::C18, &c19::C19, &c20::C20,
    ]
}

pub fn by_id(id: &str) -> Option<&'static dyn Check> {
    all().into_iter().find(|c| c.id() == id)
}
