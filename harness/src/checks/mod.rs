//! Registry of property checks.

use crate::core::Check;

pub mod c02;

pub fn all() -> Vec<&'static dyn Check> {
    vec![&c02::C02]
}

pub fn by_id(id: &str) -> Option<&'static dyn Check> {
    all().into_iter().find(|c| c.id() == id)
}
