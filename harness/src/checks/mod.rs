//! Registry of property checks.

use crate::core::Check;

pub mod c02;
pub mod c03;

pub fn all() -> Vec<&'static dyn Check> {
    vec![&c02::C02, &c03::C03]
}

pub fn by_id(id: &str) -> Option<&'static dyn Check> {
    all().into_iter().find(|c| c.id() == id)
}
