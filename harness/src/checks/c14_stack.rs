//! C14, layer-stack family: which layer's cell decides what a repeat is forwarded for.
//!
//! The main family of C14 gives every judged physical key a private output alphabet, so a key that a
//! LOWER layer of the stack lists for a physical key can never be down through ANOTHER physical key.
//! This family removes that restriction: 4 physical keys (a s d f) on 2-4 layers, every cell drawn from
//! one shared pool of 6 output keys (a s d f j k), with many IDENTITY cells (the key mapped to itself,
//! written as the key name or as `use-defsrc`) on the held layers, next to other plain keys, output
//! chords, `multi` of two keys, transparent cells and `XX`. Layers are activated by `layer-while-held` or
//! `layer-toggle` keys (stacks of 0-3 held layers over a base layer that is l0 or, after a
//! `layer-switch`, l1), 1-4 physical keys are held at the same time, repeats are injected mostly for the
//! most recently pressed key.
//!
//! Reference model (configuration guide): a press is resolved by the first non-transparent cell in the
//! stack - held layers newest first, then the base layer, then the defsrc key. All cells of this family
//! are unconditional (no tap-hold / fork / switch ...), so that cell alone says which keys the physical
//! key put down. Oracle = the existing rule of C14: while one of those keys is down at the OS, the repeat of
//! the physical key produces exactly one output, a repeat, for one of THOSE keys (for an output chord:
//! not for a modifier while the chord's key is down) - whatever the cells of the same physical key on
//! lower layers of the stack, or on layers that are not active, list, and whoever holds those keys down.

use super::Drv;
use crate::core::rng::Rng;
use crate::core::sim::{code_name, osc, render_hist, Ev, OutKind, Sim};
use crate::core::CaseOut;
use serde_json::{json, Value};
use std::collections::BTreeSet;

const PHYS: [&str; 4] = ["a", "s", "d", "f"];
const POOL: [&str; 6] = ["a", "s", "d", "f", "j", "k"];
const MODS: [&str; 2] = ["lsft", "lctl"];
const LKEYS: [&str; 3] = ["f1", "f2", "f3"];
const SW_TO_1: &str = "f5";
const SW_TO_0: &str = "f6";

#[derive(Clone, Copy, PartialEq, Eq, Debug)]
pub(super) enum Kind {
    /// the key's own name
    Identity,
    /// `use-defsrc`
    UseDefsrc,
    /// another plain key of the pool
    Key,
    /// output chord, e.g. `S-k`
    Chord,
    /// `(multi k1 k2)` / `(multi lsft k)`
    Multi,
    /// `_`
    Trans,
    /// `XX`
    Nop,
    /// (model only) every consulted layer is transparent: the defsrc key
    Defsrc,
}

impl Kind {
    fn name(self) -> &'static str {
        match self {
            Kind::Identity => "identity",
            Kind::UseDefsrc => "use-defsrc",
            Kind::Key => "other-key",
            Kind::Chord => "chord",
            Kind::Multi => "multi",
            Kind::Trans => "transparent",
            Kind::Nop => "XX",
            Kind::Defsrc => "defsrc-fallthrough",
        }
    }
    fn is_identity(self) -> bool {
        matches!(self, Kind::Identity | Kind::UseDefsrc)
    }
}

#[derive(Clone, Debug)]
pub(super) struct Cell {
    text: String,
    kind: Kind,
    /// OS names of everything the cell puts down (modifiers included)
    keys: BTreeSet<String>,
    /// OS names of the non-modifier keys
    nonmods: BTreeSet<String>,
}

fn cell(text: String, kind: Kind, nonmods: &[&str], mods: &[&str]) -> Cell {
    let nm: BTreeSet<String> = nonmods.iter().map(|k| code_name(osc(k))).collect();
    let mut keys = nm.clone();
    for m in mods {
        keys.insert(code_name(osc(m)));
    }
    Cell { text, kind, keys, nonmods: nm }
}

fn prefix(m: &str) -> &'static str {
    if m == "lsft" {
        "S-"
    } else {
        "C-"
    }
}

/// a cell of `kind` for physical key `ki`; `k1`/`k2` are pool keys (k1 != the physical key, k2 != k1)
fn make_cell(kind: Kind, ki: usize, k1: &str, k2: &str, m: &str, variant: usize) -> Cell {
    let p = PHYS[ki];
    match kind {
        Kind::Identity => cell(p.to_string(), kind, &[p], &[]),
        Kind::UseDefsrc => cell("use-defsrc".to_string(), kind, &[p], &[]),
        Kind::Key => cell(k1.to_string(), kind, &[k1], &[]),
        Kind::Chord => {
            // the chord's key may be the physical key itself (`S-s` on s)
            let k = if variant % 3 == 0 { p } else { k1 };
            if variant % 2 == 0 {
                cell(format!("{}{k}", prefix(m)), kind, &[k], &[m])
            } else {
                cell(format!("C-S-{k}"), kind, &[k], &["lsft", "lctl"])
            }
        }
        Kind::Multi => match variant % 3 {
            0 => cell(format!("(multi {m} {k1})"), kind, &[k1], &[m]),
            1 => cell(format!("(multi {k1} {k2})"), kind, &[k1, k2], &[]),
            _ => cell(format!("(multi {p} {k1})"), kind, &[p, k1], &[]),
        },
        Kind::Trans => cell("_".to_string(), kind, &[], &[]),
        Kind::Nop => cell("XX".to_string(), kind, &[], &[]),
        Kind::Defsrc => cell(p.to_string(), kind, &[p], &[]),
    }
}

pub(super) struct SCfg {
    pub text: String,
    n_layers: usize,
    n_keys: usize,
    /// cells[layer][key]
    cells: Vec<Vec<Cell>>,
    /// the action name on each layer key
    lnames: Vec<&'static str>,
}

fn render(cells: &[Vec<Cell>], n_keys: usize, lnames: &[&'static str]) -> String {
    let n_layers = cells.len();
    let mut src: Vec<String> = PHYS[..n_keys].iter().map(|s| s.to_string()).collect();
    for k in LKEYS.iter().chain([SW_TO_1, SW_TO_0].iter()) {
        src.push(k.to_string());
    }
    let mut text = format!("(defcfg process-unmapped-keys yes)\n(defsrc {})\n", src.join(" "));
    for (l, row) in cells.iter().enumerate() {
        let mut r: Vec<String> = row.iter().map(|c| c.text.clone()).collect();
        // layer keys and switch keys do the same on every layer
        for (i, _) in LKEYS.iter().enumerate() {
            r.push(if i + 1 < n_layers { format!("({} l{})", lnames[i], i + 1) } else { "XX".to_string() });
        }
        r.push("(layer-switch l1)".to_string());
        r.push("(layer-switch l0)".to_string());
        text.push_str(&format!("(deflayer l{l} {})\n", r.join(" ")));
    }
    text
}

pub(super) fn random_cfg(rng: &mut Rng) -> SCfg {
    let n_layers = 2 + rng.usize(3);
    let n_keys = PHYS.len();
    let lnames: Vec<&'static str> = (0..3).map(|_| if rng.coin() { "layer-while-held" } else { "layer-toggle" }).collect();
    // half of the configurations: the base layer is a rearrangement of the physical keys (a Dvorak-like
    // base under qwerty-like held layers), so that what a lower layer lists for one physical key is
    // what another physical key outputs on an identity layer
    let permuted_base = rng.coin();
    let mut perm: Vec<usize> = (0..n_keys).collect();
    rng.shuffle(&mut perm);
    let mut cells = vec![];
    for l in 0..n_layers {
        let mut row = vec![];
        for ki in 0..n_keys {
            let weights: [(u32, Kind); 7] = if l == 0 {
                [(22, Kind::Identity), (45, Kind::Key), (8, Kind::Trans), (9, Kind::Chord), (8, Kind::Multi), (4, Kind::UseDefsrc), (4, Kind::Nop)]
            } else {
                [(28, Kind::Identity), (24, Kind::Key), (16, Kind::Trans), (10, Kind::Chord), (8, Kind::Multi), (8, Kind::UseDefsrc), (6, Kind::Nop)]
            };
            let mut kind = *rng.pick_weighted(&weights);
            let others: Vec<&str> = POOL.iter().copied().filter(|k| *k != PHYS[ki]).collect();
            let mut k1 = *rng.pick(&others);
            if l == 0 && permuted_base && rng.chance(4, 5) {
                k1 = PHYS[perm[ki]];
                kind = if perm[ki] == ki { Kind::Identity } else { Kind::Key };
            }
            let rest: Vec<&str> = others.iter().copied().filter(|k| *k != k1).collect();
            let k2 = *rng.pick(&rest);
            let m = *rng.pick(&MODS);
            let variant = rng.usize(6);
            row.push(make_cell(kind, ki, k1, k2, m, variant));
        }
        cells.push(row);
    }
    let text = render(&cells, n_keys, &lnames);
    SCfg { text, n_layers, n_keys, cells, lnames }
}

/// the cell kinds of the systematic part, for the repeated key s on l2, l1, l0
const SYS_KINDS: [Kind; 7] = [Kind::Identity, Kind::UseDefsrc, Kind::Key, Kind::Chord, Kind::Multi, Kind::Trans, Kind::Nop];
pub(super) const N_SYSTEMATIC: u64 = 7 * 7 * 7 * 2;

/// systematic configuration `i`: two physical keys; `a` is mapped to itself on every layer; the cells
/// of `s` on l2 / l1 / l0 run over all kind triples, where "another key" is always `a` (what the other
/// physical key holds down); x both layer action names
pub(super) fn systematic_cfg(i: u64) -> SCfg {
    let i = i as usize;
    let lname = if i % 2 == 0 { "layer-while-held" } else { "layer-toggle" };
    let t = i / 2;
    let kinds = [SYS_KINDS[t % 7], SYS_KINDS[(t / 7) % 7], SYS_KINDS[(t / 49) % 7]];
    let mut cells = vec![];
    for l in 0..3 {
        // kinds[0] is the top layer l2
        let kind = kinds[2 - l];
        let c = match kind {
            Kind::Multi => make_cell(kind, 1, "a", "j", "lsft", 2),
            Kind::Chord => make_cell(kind, 1, "a", "j", "lsft", 2),
            _ => make_cell(kind, 1, "a", "j", "lsft", 0),
        };
        cells.push(vec![make_cell(Kind::Identity, 0, "s", "j", "lsft", 0), c]);
    }
    let lnames = vec![lname, lname, lname];
    let text = render(&cells, 2, &lnames);
    SCfg { text, n_layers: 3, n_keys: 2, cells, lnames }
}

#[derive(Clone, Debug)]
enum Step {
    Press(usize),
    Release(usize),
    /// repeat of physical key; `true` = the key is not held (stray repeat, safety only)
    Repeat(usize, bool),
    Tick(u64),
}

struct Plan {
    switch_base: bool,
    /// layers in the order their keys are pressed
    hold: Vec<usize>,
    steps: Vec<Step>,
}

fn random_plan(rng: &mut Rng, cfg: &SCfg) -> Plan {
    let switch_base = rng.chance(1, 4);
    let base = if switch_base { 1 } else { 0 };
    let mut avail: Vec<usize> = (1..cfg.n_layers).filter(|l| *l != base).collect();
    rng.shuffle(&mut avail);
    let n_hold = if rng.chance(1, 8) { 0 } else { (1 + rng.usize(3)).min(avail.len()) };
    let hold: Vec<usize> = avail.into_iter().take(n_hold).collect();
    let mut steps = vec![];
    let mut held: Vec<usize> = vec![];
    let n = 6 + rng.usize(12);
    for _ in 0..n {
        let r = rng.usize(100);
        let free: Vec<usize> = (0..cfg.n_keys).filter(|k| !held.contains(k)).collect();
        if (r < 35 || held.is_empty()) && !free.is_empty() {
            let k = *rng.pick(&free);
            steps.push(Step::Press(k));
            held.push(k);
            steps.push(Step::Tick(rng.range(1, 12)));
        } else if r < 80 && !held.is_empty() {
            // an OS repeats the most recently pressed key; any held key is legal
            let k = if rng.chance(3, 4) { *held.last().unwrap() } else { *rng.pick(&held) };
            steps.push(Step::Repeat(k, false));
            for _ in 0..rng.usize(3) {
                steps.push(Step::Tick(rng.range(1, 30)));
                steps.push(Step::Repeat(k, false));
            }
        } else if r < 92 && !held.is_empty() {
            let i = rng.usize(held.len());
            let k = held.remove(i);
            steps.push(Step::Release(k));
            if rng.chance(1, 3) {
                steps.push(Step::Tick(rng.below(3)));
                steps.push(Step::Repeat(k, true));
            }
            steps.push(Step::Tick(rng.range(1, 8)));
        } else {
            steps.push(Step::Tick(rng.range(1, 40)));
        }
    }
    Plan { switch_base, hold, steps }
}

/// the fixed plans of the systematic part: every stack over l0 x {other key first, repeated key
/// alone, repeated key first}
fn systematic_plans() -> Vec<Plan> {
    let mut v = vec![];
    for hold in [vec![], vec![1], vec![2], vec![1, 2], vec![2, 1]] {
        for order in 0..3 {
            let mut steps = vec![];
            let (a, s) = (0usize, 1usize);
            match order {
                0 => {
                    steps.extend([Step::Press(a), Step::Tick(10), Step::Press(s), Step::Tick(10)]);
                }
                1 => {
                    steps.extend([Step::Press(s), Step::Tick(10)]);
                }
                _ => {
                    steps.extend([Step::Press(s), Step::Tick(10), Step::Press(a), Step::Tick(10)]);
                }
            }
            steps.extend([Step::Repeat(s, false), Step::Tick(10), Step::Repeat(s, false), Step::Tick(10)]);
            if order != 1 {
                steps.extend([Step::Repeat(a, false), Step::Tick(10), Step::Release(a), Step::Tick(10), Step::Repeat(s, false), Step::Tick(10)]);
            }
            steps.extend([Step::Release(s), Step::Tick(1), Step::Repeat(s, true), Step::Tick(10)]);
            v.push(Plan { switch_base: false, hold: hold.clone(), steps });
        }
    }
    v
}

struct HeldKey {
    ki: usize,
    /// index into the consulted stack (0 = newest held layer, ..., n_held = base layer,
    /// n_held + 1 = defsrc) of the layer whose cell resolved the press
    eff_pos: usize,
    eff: Cell,
}

/// consulted layers: held newest first, then the base layer
fn consulted(hold: &[usize], base: usize) -> Vec<usize> {
    let mut v: Vec<usize> = hold.iter().rev().copied().collect();
    v.push(base);
    v
}

fn effective(cfg: &SCfg, ki: usize, stack: &[usize]) -> (usize, Cell) {
    for (pos, l) in stack.iter().enumerate() {
        if cfg.cells[*l][ki].kind != Kind::Trans {
            return (pos, cfg.cells[*l][ki].clone());
        }
    }
    (stack.len(), make_cell(Kind::Defsrc, ki, "", "", "", 0))
}

fn witness(cfg: &SCfg, d: &Drv, observed: Value, expected: Value, extra: Value) -> Value {
    json!({
        "config": cfg.text,
        "history": render_hist(&d.hist),
        "observed": observed,
        "expected": expected,
        "os_model": d.sim.os.describe(),
        "extra": extra,
    })
}

fn is_mod_name(n: &str) -> bool {
    MODS.iter().any(|m| code_name(osc(m)) == n)
}

fn do_repeat(out: &mut CaseOut, cfg: &SCfg, d: &mut Drv, held: &[HeldKey], stack: &[usize], base_switched: bool, ki: usize, stray: bool) {
    let code = osc(PHYS[ki]);
    let down_before: BTreeSet<String> = d.sim.os.keys_down.clone();
    let n0 = d.sim.trace.len();
    d.sim.repeat(code);
    d.hist.push(Ev::Rep(code));
    let outs: Vec<_> = d.sim.trace[n0..].to_vec();
    let shown: Vec<String> = outs.iter().map(|o| o.short()).collect();
    out.inc("stack_repeats_injected");
    if !outs.is_empty() {
        out.inc("stack_repeats_forwarded");
    }
    // ---- safety, always
    if outs.len() > 1 {
        out.violate("C14:more-than-one-output", format!("a repeat of {} produced {} outputs", code_name(code), outs.len()), witness(cfg, d, json!(shown), json!("at most one repeat"), json!(null)));
        return;
    }
    if let Some(o) = outs.first() {
        if o.kind != OutKind::Repeat {
            out.violate("C14:non-repeat-output", format!("a repeat of {} produced {}", code_name(code), o.short()), witness(cfg, d, json!(shown), json!("a key repeat or nothing"), json!(null)));
            return;
        }
        if !down_before.contains(&o.name) {
            out.violate("C14:repeat-of-up-key", format!("a repeat of {} was forwarded for {}, which is up in the OS (down: {:?})", code_name(code), o.name, down_before), witness(cfg, d, json!(shown), json!({"repeat_only_for_a_key_in": down_before}), json!(null)));
            return;
        }
    }
    if stray {
        out.inc("stack_stray_repeats");
        return;
    }
    // ---- completeness: the repeat is for one of the keys the held key put down
    let Some(h) = held.iter().find(|h| h.ki == ki) else { return };
    if h.eff.keys.is_empty() {
        // XX: the key put nothing down; the statement does not say what its repeat does
        out.inc("stack_not_judged_key_put_nothing_down");
        if !outs.is_empty() {
            out.inc("stack_repeats_of_key_that_put_nothing_down_forwarded");
        }
        return;
    }
    // the keys of the effective cell that are down now (another key pressed later legitimately
    // releases the modifiers of an output chord; the statement's precondition is that something the
    // key put down is still down)
    let attributed: BTreeSet<String> = h.eff.keys.iter().filter(|k| down_before.contains(*k)).cloned().collect();
    if attributed.is_empty() {
        out.inc("stack_not_judged_nothing_of_effective_cell_down");
        return;
    }
    if attributed.len() < h.eff.keys.len() {
        out.inc("stack_judged_with_part_of_effective_cell_released");
    }
    out.inc("stack_completeness_judged");
    let n_held_layers = stack.len() - 1;
    out.inc(&format!("stack_judged_depth_{}", stack.len()));
    out.inc(&format!("stack_judged_effective_cell_{}", h.eff.kind.name()));
    if base_switched {
        out.inc("stack_judged_on_switched_base_layer");
    }
    if held.len() >= 2 {
        out.inc("stack_judged_with_two_or_more_physical_keys_held");
    }
    let on_held_layer = h.eff_pos < n_held_layers;
    if on_held_layer {
        out.inc("stack_judged_effective_cell_on_held_layer");
        out.inc(&format!("stack_judged_effective_cell_on_{}_layer", cfg.lnames[stack[h.eff_pos] - 1]));
        if h.eff_pos > 0 {
            out.inc("stack_judged_through_transparent_held_layer");
        }
    } else if h.eff_pos > 0 && n_held_layers > 0 {
        out.inc("stack_judged_through_all_held_layers_transparent");
    }
    // what the cells of the same physical key list on the layers BELOW the effective one, and whether
    // such a key is down although the repeated key did not put it down (another physical key holds it)
    let mut lower: BTreeSet<String> = BTreeSet::new();
    for l in stack.iter().skip(h.eff_pos + 1) {
        lower.extend(cfg.cells[*l][ki].keys.iter().cloned());
    }
    if h.eff_pos < stack.len() {
        lower.insert(code_name(code));
    }
    let inactive: BTreeSet<String> = (0..cfg.n_layers).filter(|l| !stack.contains(l)).flat_map(|l| cfg.cells[l][ki].keys.iter().cloned()).collect();
    let lower_down_foreign = lower.iter().any(|k| !h.eff.keys.contains(k) && down_before.contains(k));
    if lower_down_foreign {
        out.inc("stack_judged_lower_layer_output_down_via_other_key");
        if h.eff.kind.is_identity() {
            out.inc("stack_judged_identity_cell_lower_layer_output_down_via_other_key");
            if on_held_layer {
                out.inc("stack_judged_identity_cell_on_held_layer_lower_layer_output_down_via_other_key");
                out.inc(&format!("stack_judged_identity_cell_on_{}_layer_lower_layer_output_down_via_other_key", cfg.lnames[stack[h.eff_pos] - 1]));
                out.inc(&format!("stack_judged_identity_cell_on_held_layer_lower_layer_output_down_via_other_key_depth_{}", stack.len()));
            }
        }
    }
    if inactive.iter().any(|k| !h.eff.keys.contains(k) && down_before.contains(k)) {
        out.inc("stack_judged_inactive_layer_output_down_via_other_key");
    }
    let exp = json!({"one_repeat_for_a_key_in": attributed});
    let extra = json!({"effective_cell": h.eff.text, "effective_cell_kind": h.eff.kind.name(), "consulted_layers_newest_first": stack, "resolved_at_position": h.eff_pos});
    match outs.first() {
        None => {
            out.violate("C14:layer-stack:repeat-dropped", format!("{} holds {:?} down ({} cell) but its repeat produced nothing", code_name(code), h.eff.keys, h.eff.kind.name()), witness(cfg, d, json!(shown), exp, extra));
        }
        Some(o) if !h.eff.keys.contains(&o.name) => {
            let sig = if lower.contains(&o.name) {
                "C14:layer-stack:repeat-for-output-of-cell-below-the-effective-layer"
            } else if inactive.contains(&o.name) {
                "C14:layer-stack:repeat-for-output-of-cell-on-inactive-layer"
            } else {
                "C14:layer-stack:repeat-of-foreign-key"
            };
            out.violate(sig, format!("{} holds {:?} down ({} cell) but the repeat was for {}", code_name(code), h.eff.keys, h.eff.kind.name(), o.name), witness(cfg, d, json!(shown), exp, extra));
        }
        Some(o) => {
            if h.eff.kind == Kind::Chord && is_mod_name(&o.name) && h.eff.nonmods.iter().any(|k| down_before.contains(k)) {
                out.violate("C14:layer-stack:repeat-of-modifier-instead-of-key", format!("{} holds the output chord {:?} down but the repeat was for the modifier {}", code_name(code), h.eff.keys, o.name), witness(cfg, d, json!(shown), exp, extra));
            } else {
                out.inc("stack_completeness_ok");
            }
        }
    }
    out.tag(format!("stack|{}@{}of{}|{}", h.eff.kind.name(), h.eff_pos, stack.len(), if lower_down_foreign { "lower-down" } else { "-" }));
}

fn run_plan(out: &mut CaseOut, cfg: &SCfg, plan: &Plan) -> Option<()> {
    let sim = Sim::new(&cfg.text).ok()?;
    let mut d = Drv { sim, hist: vec![] };
    let mut base = 0;
    if plan.switch_base {
        d.press(osc(SW_TO_1));
        d.tick(3);
        d.release(osc(SW_TO_1));
        d.tick(5);
        base = 1;
    }
    for l in &plan.hold {
        d.press(osc(LKEYS[*l - 1]));
        d.tick(3);
    }
    d.tick(5);
    let stack = consulted(&plan.hold, base);
    let mut held: Vec<HeldKey> = vec![];
    for st in &plan.steps {
        match st {
            Step::Press(ki) => {
                let (eff_pos, eff) = effective(cfg, *ki, &stack);
                d.press(osc(PHYS[*ki]));
                held.push(HeldKey { ki: *ki, eff_pos, eff });
                out.inc("stack_presses");
            }
            Step::Release(ki) => {
                d.release(osc(PHYS[*ki]));
                held.retain(|h| h.ki != *ki);
            }
            Step::Repeat(ki, stray) => do_repeat(out, cfg, &mut d, &held, &stack, plan.switch_base, *ki, *stray),
            Step::Tick(n) => d.tick(*n),
        }
    }
    // wind down
    for h in held.drain(..) {
        d.release(osc(PHYS[h.ki]));
        d.tick(1);
    }
    for l in plan.hold.iter().rev() {
        d.release(osc(LKEYS[*l - 1]));
        d.tick(1);
    }
    if plan.switch_base {
        d.press(osc(SW_TO_0));
        d.tick(2);
        d.release(osc(SW_TO_0));
    }
    d.tick(20);
    if !d.sim.os.all_up() {
        out.inc("stack_windows_with_keys_left_down");
    }
    out.inc("stack_windows");
    Some(())
}

/// one case of the layer-stack family: `sidx` < N_SYSTEMATIC is the seed-independent systematic part
pub(super) fn run_case(out: &mut CaseOut, seed: u64, sidx: u64, idx: u64, n_windows: usize, verbose: bool) {
    let cfg = if sidx < N_SYSTEMATIC {
        systematic_cfg(sidx)
    } else {
        let mut rng = Rng::for_case(seed, "C14", "stack-cfg", idx);
        random_cfg(&mut rng)
    };
    if verbose {
        eprintln!("{}", cfg.text);
    }
    if let Err(e) = Sim::new(&cfg.text) {
        out.inc("stack_configs_rejected");
        if verbose {
            eprintln!("rejected: {e}");
        }
        return;
    }
    out.inc("stack_configs_accepted");
    out.inc(&format!("stack_configs_with_{}_layers", cfg.n_layers));
    if sidx < N_SYSTEMATIC {
        out.inc("stack_systematic_configs");
        for p in systematic_plans() {
            run_plan(out, &cfg, &p);
        }
    } else {
        let mut hrng = Rng::for_case(seed, "C14", "stack-hist", idx);
        for _ in 0..n_windows {
            let v0 = out.violations.len();
            let p = random_plan(&mut hrng, &cfg);
            run_plan(out, &cfg, &p);
            if out.violations.len() > v0 + 3 {
                break;
            }
        }
    }
    let mut seen = BTreeSet::new();
    out.violations.retain(|v| seen.insert(v.sig.clone()));
    if idx % 1000 < 2 {
        out.sample = Some(json!({"idx": idx, "family": "layer-stack", "config": cfg.text}));
    }
}

pub(super) fn describe(seed: u64, sidx: u64, idx: u64) -> Value {
    let cfg = if sidx < N_SYSTEMATIC {
        systematic_cfg(sidx)
    } else {
        let mut rng = Rng::for_case(seed, "C14", "stack-cfg", idx);
        random_cfg(&mut rng)
    };
    json!({"family": "layer-stack", "config": cfg.text})
}
