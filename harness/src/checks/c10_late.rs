//! C10 end-to-end, "late evaluation" family: the switch is evaluated at a moment at which key
//! events have ARRIVED that kanata has not processed yet (or will never process through the normal
//! path), and its `input-history` / `input` / key / layer conditions are judged against the order
//! in which the inputs arrived.
//!
//! `(input-history <real|virtual> <key> <recency>)` is specified over the most recently pressed
//! inputs. What "pressed" means does not depend on how far kanata's own processing of the press
//! has come: an input that was pressed before the switch is evaluated is in the history, in the
//! order of arrival. The scenarios make the evaluation late relative to the arrival of presses:
//!
//! * the switch is the tap action of a `tap-hold` / `tap-hold-release` and other keys are pressed
//!   while the tap-hold is undecided (they wait in the queue behind it);
//! * the switch is the hold action of a `tap-hold` (reached by timeout), of a `tap-hold-press`
//!   (reached by another key's press) or of a `tap-hold-release` (another key's press + release);
//! * the switch is the first action of a `tap-dance` that is ended by a different key's press;
//! * the switch is the action of a v1 chord (`defchords`) of two or three keys - all members but
//!   the first are taken straight out of the queue when the chord is recognised;
//! * the switch key is pressed after such a chord has been typed earlier;
//! * the switch key is part of a burst of events that arrive without a tick in between (events
//!   before it delay its processing, presses behind it have arrived when it is evaluated).
//!
//! What makes a scenario decidable without modelling kanata's timing: after the last press of the
//! scenario nothing but releases and time follows until the switch has produced its output, so the
//! set and the order of the inputs pressed before the evaluation are fixed. The reference state is
//! the list of press events of the history in arrival order; `input` and bare key items only name
//! keys that are not touched while anything is unprocessed (bare keys are read from the OS model).

use super::model::*;
use super::WITNESS;
use crate::core::rng::Rng;
use crate::core::sim::{code_name, osc, render_hist, Ev, OutKind, Sim};
use crate::core::{CaseOut, Ctx};
use serde_json::{json, Value};
use std::collections::BTreeSet;

#[derive(Clone, Copy, Debug, PartialEq, Eq)]
pub(super) enum Kind {
    ThTap,
    ThHoldTimeout,
    ThPressHold,
    ThReleaseHold,
    ThReleaseTap,
    TdInterrupt,
    Chord2,
    Chord3,
    Burst,
    Plain,
    ChordV2Action,
    ChordV2HeldBack,
}
const KINDS: &[Kind] = &[
    Kind::ThTap,
    Kind::ThHoldTimeout,
    Kind::ThPressHold,
    Kind::ThReleaseHold,
    Kind::ThReleaseTap,
    Kind::TdInterrupt,
    Kind::Chord2,
    Kind::Chord3,
    Kind::Burst,
    Kind::Plain,
    Kind::ChordV2Action,
    Kind::ChordV2HeldBack,
    // the two mechanisms through which most delayed presses go get a double share
    Kind::ThTap,
    Kind::Burst,
];

impl Kind {
    fn class(self) -> &'static str {
        match self {
            Kind::ThTap | Kind::ThReleaseTap => "tap-action-of-tap-hold",
            Kind::ThHoldTimeout | Kind::ThPressHold | Kind::ThReleaseHold => "hold-action-of-tap-hold",
            Kind::TdInterrupt => "tap-dance-action",
            Kind::Chord2 | Kind::Chord3 => "chord-action",
            Kind::Burst => "key-in-burst",
            Kind::Plain => "key",
            Kind::ChordV2Action => "chordv2-action",
            Kind::ChordV2HeldBack => "key-after-held-back-chordv2-participant",
        }
    }
    fn counter(self) -> &'static str {
        match self {
            Kind::ThTap => "late_judged_tap_hold_tap",
            Kind::ThReleaseTap => "late_judged_tap_hold_release_tap",
            Kind::ThHoldTimeout => "late_judged_tap_hold_hold_by_timeout",
            Kind::ThPressHold => "late_judged_tap_hold_press_hold",
            Kind::ThReleaseHold => "late_judged_tap_hold_release_hold",
            Kind::TdInterrupt => "late_judged_tap_dance_interrupted",
            Kind::Chord2 => "late_judged_chord_action_2_keys",
            Kind::Chord3 => "late_judged_chord_action_3_keys",
            Kind::Burst => "late_judged_switch_key_in_burst",
            Kind::Plain => "late_judged_switch_key_after_chord",
            Kind::ChordV2Action => "late_judged_chordv2_action",
            Kind::ChordV2HeldBack => "late_judged_switch_key_after_held_back_chordv2_participant",
        }
    }
}

// universe indices
const I_A: usize = 0;
const I_B: usize = 1;
const I_S: usize = 5;
const I_W: usize = 6;
const I_J: usize = 7;
const I_K: usize = 8;
const I_L: usize = 9;
const I_O: usize = 10;
const I_Z: usize = 11;
const EP_KEYS: [usize; 3] = [2, 3, 4]; // c d e

fn universe() -> U {
    let keys = ["a", "b", "c", "d", "e", "s", "w", "j", "k", "l", "o", "z"].iter().map(|n| (n.to_string(), osc(n))).collect();
    U { keys, vkeys: vec!["vk0".into(), "vk1".into(), "vk2".into()], layers: vec!["l0".into(), "l1".into()] }
}

pub(super) struct Sc {
    pub cfg: String,
    pub u: U,
    /// condition, witness index, break
    pub cases: Vec<(Vec<E>, usize, bool)>,
    pub evs: Vec<Ev>,
    /// index into evs of the first event of the episode (everything before is processed and settled)
    pub episode: usize,
    /// index into evs of the last press of the scenario
    pub last_press: usize,
    pub kind: Kind,
    pub prelude_chord: bool,
    /// presses (as Inp) of the whole scenario in arrival order
    pub presses: Vec<Inp>,
    /// how many of them arrive while something is unprocessed (from the episode start on)
    pub episode_presses: usize,
    /// how many presses are members of a v1 chord (prelude chord or chord action)
    pub chord_presses: usize,
    /// events that arrive without a tick after the previous event
    pub zero_gap_events: usize,
    /// prelude state: held a / b / o / vk0
    pub held_a: bool,
    pub held_b: bool,
    pub held_o: bool,
    pub held_vk0: bool,
}

fn inp_of_code(u: &U, c: u16) -> Option<Inp> {
    u.keys.iter().position(|k| k.1 == c).map(Inp::Real)
}

fn build_cfg(u: &U, kind: Kind, h: u32, ct: u32, cases: &[(Vec<E>, usize, bool)]) -> String {
    let v2 = matches!(kind, Kind::ChordV2Action | Kind::ChordV2HeldBack);
    let mut s = format!(
        "(defcfg process-unmapped-keys yes{})\n(defvirtualkeys vk0 nop0 vk1 nop1 vk2 nop2)\n(defsrc a b c d e s w j k l o)\n",
        if v2 { " concurrent-tap-hold yes" } else { "" }
    );
    if v2 {
        s.push_str(&format!("(defchordsv2 (c d) {} {ct} all-released ())\n", if kind == Kind::ChordV2Action { "@sw" } else { "x" }));
    }
    let (jk, kl, jkl) = match kind {
        Kind::Chord2 => ("@sw", "y", "v"),
        Kind::Chord3 => ("x", "y", "@sw"),
        _ => ("x", "y", "v"),
    };
    s.push_str(&format!("(defchords g {ct} (j) j (k) k (l) l (j k) {jk} (k l) {kl} (j k l) {jkl})\n"));
    let w = match kind {
        Kind::ThTap => format!("(tap-hold {h} {h} @sw lctl)"),
        Kind::ThHoldTimeout => format!("(tap-hold {h} {h} lctl @sw)"),
        Kind::ThPressHold => format!("(tap-hold-press {h} {h} lctl @sw)"),
        Kind::ThReleaseHold => format!("(tap-hold-release {h} {h} lctl @sw)"),
        Kind::ThReleaseTap => format!("(tap-hold-release {h} {h} @sw lctl)"),
        Kind::TdInterrupt => format!("(tap-dance {h} (@sw lctl))"),
        _ => "lctl".to_string(),
    };
    for l in ["l0", "l1"] {
        s.push_str(&format!("(deflayer {l} a b c d e @sw {w} (chord g j) (chord g k) (chord g l) (layer-while-held l1))\n"));
    }
    s.push_str("(defalias\n sw (switch\n");
    for (items, wi, brk) in cases {
        s.push_str("  ");
        s.push_str(&render_top(items, u));
        s.push(' ');
        s.push_str(WITNESS[*wi]);
        s.push_str(if *brk { " break\n" } else { " fallthrough\n" });
    }
    s.push_str(" )\n)\n");
    s
}

/// bring the leaves into the judged sub-language of this family
fn restrict(e: &mut E, rng: &mut Rng, hist: &[Inp]) {
    match e {
        E::Or(v) | E::And(v) | E::Not(v) => v.iter_mut().for_each(|x| restrict(x, rng, hist)),
        // bare keys: a, b (only touched in the settled prelude) and z (never pressed)
        E::Key(k) => *k = *rng.pick(&[I_A, I_B, I_A, I_B, I_Z]),
        // no key-history / key-timing here: the order of kanata's own key outputs is what is late
        E::KeyHist(..) | E::Timing(..) => *e = hist_leaf(rng, hist),
        E::Input(i) => {
            *i = match rng.usize(5) {
                0 => Inp::Real(I_A),
                1 => Inp::Real(I_B),
                2 => Inp::Real(I_O),
                3 => Inp::Virt(0),
                _ => Inp::Real(I_Z),
            }
        }
        E::InputHist(..) => *e = hist_leaf(rng, hist),
        _ => {}
    }
}

/// an input-history leaf: mostly aimed at (or next to) what the arrival order says
fn hist_leaf(rng: &mut Rng, hist: &[Inp]) -> E {
    let n = hist.len().min(8);
    if n > 0 && rng.chance(3, 4) {
        let r = 1 + rng.usize(n);
        let who = hist[r - 1];
        let rr = match rng.usize(6) {
            0 if r > 1 => r - 1,
            1 if r < 8 => r + 1,
            _ => r,
        };
        E::InputHist(who, rr as u8)
    } else {
        let who = if rng.chance(1, 4) { Inp::Virt(rng.usize(3)) } else { Inp::Real(rng.usize(11)) };
        E::InputHist(who, rng.range(1, 8) as u8)
    }
}

pub(super) fn make(ctx: &Ctx, r: u64) -> Sc {
    let mut rng = Rng::for_case(ctx.seed, "C10", "late", r);
    let u = universe();
    let kind = KINDS[(r % KINDS.len() as u64) as usize];
    let h = *rng.pick(&[150u32, 200, 300]);
    let ct = *rng.pick(&[40u32, 60, 100]);
    let prelude_chord = kind == Kind::Plain || rng.chance(1, 3);
    let code = |i: usize| u.keys[i].1;
    // keys that may be pressed while something is unprocessed; with a v2 chord on (c d) those two are
    // held back by the chord machinery whenever they are pressed, so only the chord episode uses them
    let v2 = matches!(kind, Kind::ChordV2Action | Kind::ChordV2HeldBack);
    let epk: &[usize] = if v2 { &EP_KEYS[2..] } else { &EP_KEYS };

    let mut evs: Vec<Ev> = vec![];
    let mut held: Vec<usize> = vec![]; // universe indices of physical keys held
    let mut vheld: Vec<usize> = vec![];
    let small: &[u32] = &[1, 1, 2, 3, 5, 8];
    let mut chord_presses = 0usize;

    // ---- settled prelude: events at least one tick apart, nothing waiting
    let nsteps = rng.range(0, 8);
    for _ in 0..nsteps {
        match rng.usize(10) {
            0..=3 => {
                let k = if rng.coin() { I_A } else { I_B };
                if held.contains(&k) {
                    held.retain(|x| *x != k);
                    evs.push(Ev::R(code(k)));
                } else {
                    held.push(k);
                    evs.push(Ev::P(code(k)));
                }
            }
            4 => {
                if vheld.contains(&0) {
                    vheld.retain(|x| *x != 0);
                    evs.push(Ev::Fk("vk0".into(), 'r'));
                } else {
                    vheld.push(0);
                    evs.push(Ev::Fk("vk0".into(), 'p'));
                }
            }
            5 => {
                if held.contains(&I_O) {
                    held.retain(|x| *x != I_O);
                    evs.push(Ev::R(code(I_O)));
                } else {
                    held.push(I_O);
                    evs.push(Ev::P(code(I_O)));
                }
            }
            6..=8 => {
                let k = *rng.pick(epk);
                if held.contains(&k) {
                    held.retain(|x| *x != k);
                    evs.push(Ev::R(code(k)));
                } else {
                    held.push(k);
                    evs.push(Ev::P(code(k)));
                }
            }
            _ => {
                let v = 1 + rng.usize(2);
                if vheld.contains(&v) {
                    vheld.retain(|x| *x != v);
                    evs.push(Ev::Fk(format!("vk{v}"), 'r'));
                } else {
                    vheld.push(v);
                    evs.push(Ev::Fk(format!("vk{v}"), 'p'));
                }
            }
        }
        evs.push(Ev::T(*rng.pick(small)));
    }
    if prelude_chord {
        // a chord typed earlier whose action is not the switch
        let combos: &[&[usize]] = match kind {
            Kind::Chord2 => &[&[I_K, I_L]],
            Kind::Chord3 => &[&[I_J, I_K], &[I_K, I_L]],
            _ => &[&[I_J, I_K], &[I_K, I_L], &[I_J, I_K, I_L]],
        };
        let mut m: Vec<usize> = rng.pick(combos).to_vec();
        rng.shuffle(&mut m);
        let step = (ct / 5).min(8) as u64;
        for (i, k) in m.iter().enumerate() {
            if i > 0 {
                let g = rng.range(0, step) as u32;
                if g > 0 {
                    evs.push(Ev::T(g));
                }
            }
            evs.push(Ev::P(code(*k)));
            chord_presses += 1;
        }
        evs.push(Ev::T(ct + 25));
        for k in &m {
            evs.push(Ev::R(code(*k)));
            evs.push(Ev::T(1 + rng.below(3) as u32));
        }
        evs.push(Ev::T(10));
    }
    evs.push(Ev::T(3 + rng.below(28) as u32));
    let (held_a, held_b, held_o, held_vk0) = (held.contains(&I_A), held.contains(&I_B), held.contains(&I_O), vheld.contains(&0));

    // ---- the episode
    let episode = evs.len();
    // a press of an episode key / virtual key that is up; None if all are down
    fn ep_press(rng: &mut Rng, u: &U, held: &mut Vec<usize>, vheld: &mut Vec<usize>, keys: &[usize]) -> Option<Ev> {
        let mut c: Vec<(bool, usize)> = keys.iter().filter(|k| !held.contains(k)).map(|k| (false, *k)).collect();
        for v in 1..3 {
            if !vheld.contains(&v) {
                c.push((true, v));
            }
        }
        if c.is_empty() {
            return None;
        }
        let (virt, i) = *rng.pick(&c);
        if virt {
            vheld.push(i);
            Some(Ev::Fk(format!("vk{i}"), 'p'))
        } else {
            held.push(i);
            Some(Ev::P(u.keys[i].1))
        }
    }
    fn ep_release(rng: &mut Rng, u: &U, held: &mut Vec<usize>, vheld: &mut Vec<usize>, keys: &[usize]) -> Option<Ev> {
        let mut c: Vec<(bool, usize)> = keys.iter().filter(|k| held.contains(k)).map(|k| (false, *k)).collect();
        for v in 1..3 {
            if vheld.contains(&v) {
                c.push((true, v));
            }
        }
        if c.is_empty() {
            return None;
        }
        let (virt, i) = *rng.pick(&c);
        if virt {
            vheld.retain(|x| *x != i);
            Some(Ev::Fk(format!("vk{i}"), 'r'))
        } else {
            held.retain(|x| *x != i);
            Some(Ev::R(u.keys[i].1))
        }
    }
    let gaps: &[u32] = &[0, 0, 0, 1, 2, 5, 10, 20];
    let push_gap = |evs: &mut Vec<Ev>, g: u32| {
        if g > 0 {
            evs.push(Ev::T(g));
        }
    };
    match kind {
        Kind::ThTap | Kind::ThReleaseTap | Kind::ThHoldTimeout => {
            evs.push(Ev::P(code(I_W)));
            let n = rng.range(1, 4);
            let mut elapsed = 0u32;
            let mut pressed_any = false;
            for i in 0..n {
                let g = *rng.pick(gaps);
                if elapsed + g + 45 < h {
                    elapsed += g;
                    push_gap(&mut evs, g);
                }
                let want_release = kind != Kind::ThReleaseTap && rng.chance(1, 4) && !(i + 1 == n && !pressed_any);
                let e = if want_release { ep_release(&mut rng, &u, &mut held, &mut vheld, epk) } else { None };
                let e = match e {
                    Some(e) => Some(e),
                    None => {
                        let p = ep_press(&mut rng, &u, &mut held, &mut vheld, epk);
                        pressed_any |= p.is_some();
                        p
                    }
                };
                if let Some(e) = e {
                    evs.push(e);
                }
            }
            if kind == Kind::ThHoldTimeout {
                // releases (of keys pressed before the tap-hold key) may still follow; then the timeout
                if rng.chance(1, 3) {
                    push_gap(&mut evs, *rng.pick(&[0u32, 1, 5]));
                    elapsed += 5;
                    if let Some(e) = ep_release(&mut rng, &u, &mut held, &mut vheld, epk) {
                        evs.push(e);
                    }
                }
                evs.push(Ev::T(h - elapsed.min(h) + 20));
            } else {
                push_gap(&mut evs, *rng.pick(&[0u32, 0, 1, 3, 10]));
                evs.push(Ev::R(code(I_W)));
                if kind == Kind::ThTap && rng.chance(1, 4) {
                    // releases arriving together with the deciding release
                    if let Some(e) = ep_release(&mut rng, &u, &mut held, &mut vheld, epk) {
                        evs.push(e);
                    }
                }
            }
        }
        Kind::ThPressHold | Kind::TdInterrupt => {
            evs.push(Ev::P(code(I_W)));
            let mut elapsed = 0u32;
            if rng.chance(1, 3) {
                let g = 1 + rng.below(20) as u32;
                elapsed += g;
                evs.push(Ev::T(g));
                if kind == Kind::TdInterrupt {
                    evs.push(Ev::R(code(I_W)));
                } else if let Some(e) = ep_release(&mut rng, &u, &mut held, &mut vheld, epk) {
                    evs.push(e);
                }
            }
            let g = if rng.chance(1, 5) { 0 } else { 1 + rng.below(40) as u32 };
            let _ = elapsed;
            push_gap(&mut evs, g);
            // the deciding press, and presses arriving together with it
            for _ in 0..rng.range(1, 3) {
                if let Some(e) = ep_press(&mut rng, &u, &mut held, &mut vheld, epk) {
                    evs.push(e);
                }
            }
            if !matches!(evs.last(), Some(Ev::P(_)) | Some(Ev::Fk(_, 'p'))) {
                // all episode keys were down already: free one in the settled part is not possible any more,
                // press-release-press of the same key is still a press
                let k = EP_KEYS[rng.usize(3)];
                evs.push(Ev::R(code(k)));
                evs.push(Ev::P(code(k)));
            }
        }
        Kind::ThReleaseHold => {
            evs.push(Ev::P(code(I_W)));
            let mut mine: Vec<Ev> = vec![];
            for _ in 0..rng.range(1, 3) {
                push_gap(&mut evs, *rng.pick(&[0u32, 0, 1, 3, 10]));
                if let Some(e) = ep_press(&mut rng, &u, &mut held, &mut vheld, epk) {
                    mine.push(e.clone());
                    evs.push(e);
                }
            }
            // only a real key's press + release decides a tap-hold-release
            let reals: Vec<u16> = mine.iter().filter_map(|e| if let Ev::P(c) = e { Some(*c) } else { None }).collect();
            let c = if reals.is_empty() {
                let k = *EP_KEYS.iter().find(|k| !held.contains(k)).unwrap_or(&EP_KEYS[0]);
                if !held.contains(&k) {
                    held.push(k);
                    evs.push(Ev::P(code(k)));
                }
                code(k)
            } else {
                *rng.pick(&reals)
            };
            push_gap(&mut evs, *rng.pick(&[0u32, 1, 3, 10]));
            evs.push(Ev::R(c));
            held.retain(|k| u.keys[*k].1 != c);
        }
        Kind::Chord2 | Kind::Chord3 => {
            let mut m: Vec<usize> = if kind == Kind::Chord2 { vec![I_J, I_K] } else { vec![I_J, I_K, I_L] };
            rng.shuffle(&mut m);
            let step = (ct / 5).min(10) as u64;
            for (i, k) in m.iter().enumerate() {
                if i > 0 {
                    push_gap(&mut evs, rng.range(0, step) as u32);
                }
                evs.push(Ev::P(code(*k)));
                held.push(*k);
                chord_presses += 1;
            }
            evs.push(Ev::T(ct + 25));
        }
        Kind::Burst => {
            for _ in 0..rng.range(1, 5) {
                let e = if rng.chance(1, 3) { ep_release(&mut rng, &u, &mut held, &mut vheld, epk) } else { ep_press(&mut rng, &u, &mut held, &mut vheld, epk) };
                if let Some(e) = e {
                    evs.push(e);
                }
            }
            push_gap(&mut evs, *rng.pick(&[0u32, 0, 0, 1, 2, 3]));
            evs.push(Ev::P(code(I_S)));
            held.push(I_S);
            if rng.coin() {
                for _ in 0..rng.range(1, 2) {
                    let e = if rng.chance(1, 4) { ep_release(&mut rng, &u, &mut held, &mut vheld, epk) } else { ep_press(&mut rng, &u, &mut held, &mut vheld, epk) };
                    if let Some(e) = e {
                        evs.push(e);
                    }
                }
            }
        }
        Kind::Plain => {
            evs.push(Ev::P(code(I_S)));
            held.push(I_S);
        }
        Kind::ChordV2Action => {
            let mut m = vec![EP_KEYS[0], EP_KEYS[1]];
            rng.shuffle(&mut m);
            evs.push(Ev::P(code(m[0])));
            push_gap(&mut evs, rng.range(0, (ct / 4) as u64) as u32);
            evs.push(Ev::P(code(m[1])));
            held.extend(&m);
            chord_presses += 2;
            evs.push(Ev::T(ct + 25));
        }
        Kind::ChordV2HeldBack => {
            // a participant of the v2 chord is held back until the chord can no longer complete; other
            // keys pressed meanwhile arrive behind it
            let k = EP_KEYS[rng.usize(2)];
            evs.push(Ev::P(code(k)));
            held.push(k);
            chord_presses += 1;
            let mut left = ct.saturating_sub(15);
            for _ in 0..rng.range(0, 2) {
                let g = (*rng.pick(gaps)).min(left);
                left -= g;
                push_gap(&mut evs, g);
                if let Some(e) = ep_press(&mut rng, &u, &mut held, &mut vheld, epk) {
                    evs.push(e);
                }
            }
            push_gap(&mut evs, (*rng.pick(gaps)).min(left));
            evs.push(Ev::P(code(I_S)));
            held.push(I_S);
        }
    }
    let last_press = evs.iter().rposition(|e| matches!(e, Ev::P(_) | Ev::Fk(_, 'p'))).unwrap_or(0);
    // ---- tail: time and releases only
    evs.push(Ev::T(45));
    {
        // the tap-hold / tap-dance key if it is still down
        let mut w_down = false;
        for e in &evs {
            match e {
                Ev::P(c) if *c == code(I_W) => w_down = true,
                Ev::R(c) if *c == code(I_W) => w_down = false,
                _ => {}
            }
        }
        if w_down {
            evs.push(Ev::R(code(I_W)));
        }
    }
    let hs = held.clone();
    for k in hs {
        evs.push(Ev::R(code(k)));
        evs.push(Ev::T(1));
    }
    for v in vheld.clone() {
        evs.push(Ev::Fk(format!("vk{v}"), 'r'));
        evs.push(Ev::T(1));
    }
    evs.push(Ev::T(30));

    // ---- arrival order of the pressed inputs
    let mut presses = vec![];
    let mut episode_presses = 0;
    let mut zero_gap_events = 0;
    for (i, e) in evs.iter().enumerate() {
        let p = match e {
            Ev::P(c) => inp_of_code(&u, *c),
            Ev::Fk(n, 'p') => n[2..].parse().ok().map(Inp::Virt),
            _ => None,
        };
        if let Some(p) = p {
            presses.push(p);
            if i >= episode {
                episode_presses += 1;
            }
        }
        if i > episode && i <= last_press && !matches!(e, Ev::T(_)) && !matches!(evs[i - 1], Ev::T(_)) {
            zero_gap_events += 1;
        }
    }
    let hist: Vec<Inp> = presses.iter().rev().copied().collect();

    // ---- the switch
    let o = GenOpts { max_depth: 6, leaf_w: [2, 0, 0, 2, 12, 1, 1], timing_pool: vec![], max_arity: 3 };
    let ncases = rng.range(1, 6) as usize;
    let mut cases = vec![];
    for i in 0..ncases {
        let nitems = *rng.pick_weighted(&[(6u32, 1usize), (3, 2), (1, 3)]);
        let mut items = vec![];
        for _ in 0..nitems {
            let mut budget = *rng.pick(&[1i64, 3, 6, 12]);
            let mut e = gen_expr(&mut rng, &u, &o, 1, &mut budget);
            restrict(&mut e, &mut rng, &hist);
            items.push(e);
        }
        cases.push((items, i, rng.chance(1, 3)));
    }
    // a last case that always fires: the evaluation itself is always visible
    cases.push((vec![], ncases, true));
    let cfg = build_cfg(&u, kind, h, ct, &cases);
    Sc { cfg, u, cases, evs, episode, last_press, kind, prelude_chord, presses, episode_presses, chord_presses, zero_gap_events, held_a, held_b, held_o, held_vk0 }
}

pub fn describe(ctx: &Ctx, r: u64) -> Value {
    let sc = make(ctx, r);
    json!({"part": "e2e late evaluation", "kind": format!("{:?}", sc.kind), "config": sc.cfg, "history": render_hist(&sc.evs)})
}

fn has_hist_leaf(e: &E) -> bool {
    match e {
        E::Or(v) | E::And(v) | E::Not(v) => v.iter().any(has_hist_leaf),
        E::InputHist(..) => true,
        _ => false,
    }
}

pub fn run(out: &mut CaseOut, ctx: &Ctx, r: u64) {
    let sc = make(ctx, r);
    out.inc("late_scenarios");
    let mut sim = match Sim::new(&sc.cfg) {
        Ok(s) => s,
        Err(e) => {
            out.violate(
                "C10:rejected-valid-switch",
                format!("the parser rejected a switch that is valid by the guide: {}", e.lines().next().unwrap_or("")),
                json!({"config": sc.cfg, "history": render_hist(&sc.evs), "observed": e, "expected": "accepted"}),
            );
            return;
        }
    };
    let mut vk_idx = vec![];
    for i in 0..3 {
        match sim.k.virtual_keys.get(&format!("vk{i}")) {
            Some(x) => vk_idx.push(*x as u16),
            None => {
                out.inconclusive = Some("virtual key missing from Kanata.virtual_keys".into());
                return;
            }
        }
    }
    let mut mark = 0usize;
    let mut t_last_press = 0u64;
    for (i, e) in sc.evs.iter().enumerate() {
        if i == sc.episode {
            mark = sim.trace.len();
        }
        sim.apply(e);
        if i == sc.last_press {
            t_last_press = sim.now;
        }
    }
    if ctx.verbose {
        eprintln!("config:\n{}\nhistory: {}\ntrace: {:?}", sc.cfg, render_hist(&sc.evs), sim.trace_short());
    }
    let wnames: Vec<String> = WITNESS.iter().map(|w| code_name(osc(w))).collect();
    let mut observed: Vec<usize> = vec![];
    let mut first_at: Option<u64> = None;
    for o in &sim.trace[mark..] {
        if o.kind == OutKind::Down {
            if let Some(p) = wnames.iter().position(|w| *w == o.name) {
                observed.push(p);
                first_at.get_or_insert(o.at);
            }
        }
    }
    let Some(n_w) = first_at else {
        // the waiting action did not come out the way the scenario intends: nothing to judge
        out.inc("late_unjudged_no_evaluation");
        return;
    };
    if n_w <= t_last_press {
        out.inc("late_unjudged_evaluated_before_last_press");
        return;
    }
    // ---- reference state
    let mut st = St::default();
    // bare keys: what the OS model holds down when the first action of the switch comes out
    let mut down: BTreeSet<&str> = BTreeSet::new();
    for o in &sim.trace {
        if o.at >= n_w {
            break;
        }
        match o.kind {
            OutKind::Down => {
                down.insert(o.name.as_str());
            }
            OutKind::Up => {
                down.remove(o.name.as_str());
            }
            _ => {}
        }
    }
    for i in [I_A, I_B, I_Z] {
        if down.contains(code_name(sc.u.keys[i].1).as_str()) {
            st.active.push(sc.u.keys[i].1);
        }
    }
    if sc.held_a != st.active.contains(&sc.u.keys[I_A].1) || sc.held_b != st.active.contains(&sc.u.keys[I_B].1) {
        // not this property's business (a plain key held in the settled prelude is not down at the OS)
        out.inc("late_unjudged_os_model_differs_from_prelude");
        return;
    }
    for (h, i) in [(sc.held_a, I_A), (sc.held_b, I_B), (sc.held_o, I_O)] {
        if h {
            st.coords.push((0, sc.u.keys[i].1));
        }
    }
    if sc.held_vk0 {
        st.coords.push((1, vk_idx[0]));
    }
    st.hi = sc.presses.iter().rev().take(8).map(|p| (inp_coord(*p, &sc.u, &vk_idx), 0u16)).collect();
    st.layers = vec![if sc.held_o { 1 } else { 0 }];
    st.base = 0;

    let v2 = matches!(sc.kind, Kind::ChordV2Action | Kind::ChordV2HeldBack);
    let conds: Vec<(Vec<E>, bool)> = sc.cases.iter().map(|c| (c.0.clone(), c.2)).collect();
    let fire = firing(&conds, &sc.u, &vk_idx, &st);
    let want: Vec<usize> = fire.iter().map(|i| sc.cases[*i].1).collect();

    // ---- evidence
    out.inc("late_judged");
    out.inc(sc.kind.counter());
    out.tag(format!("late:{:?}:chord{}:ep{}:zero{}", sc.kind, sc.prelude_chord as u8, sc.episode_presses.min(4), sc.zero_gap_events.min(3)));
    if sc.prelude_chord {
        out.inc("late_judged_after_earlier_chord");
    }
    if sc.zero_gap_events > 0 {
        out.inc("late_judged_with_events_in_the_same_tick");
    }
    let activating = match sc.kind {
        Kind::Chord2 | Kind::Chord3 => None,
        Kind::ChordV2Action => None,
        Kind::Burst | Kind::Plain | Kind::ChordV2HeldBack => Some(Inp::Real(I_S)),
        _ => Some(Inp::Real(I_W)),
    };
    if activating.is_some() && sc.presses.last().copied() != activating {
        out.inc("late_judged_most_recent_input_is_not_the_activating_key");
    }
    let nh = sc.cases.iter().flat_map(|c| c.0.iter()).filter(|e| has_hist_leaf(e)).count();
    out.count("late_input_history_items", nh as u64);
    // does the evaluation depend on the presses that arrived late / through a chord? (the same switch
    // on the history without the inputs pressed from the episode start on, or without chord members)
    {
        let mut st2 = st.clone();
        let n = sc.presses.len() - sc.episode_presses;
        let mut older: Vec<Inp> = sc.presses[..n].to_vec();
        if let Some(a) = activating {
            older.push(a);
        }
        st2.hi = older.iter().rev().take(8).map(|p| (inp_coord(*p, &sc.u, &vk_idx), 0u16)).collect();
        if firing(&conds, &sc.u, &vk_idx, &st2) != fire {
            out.inc("late_result_depends_on_inputs_pressed_while_unprocessed");
        }
        if sc.chord_presses > 0 {
            let mut st3 = st.clone();
            let nochord: Vec<Inp> = sc.presses.iter().copied().filter(|p| !matches!(p, Inp::Real(i) if [I_J, I_K, I_L].contains(i) || (v2 && EP_KEYS[..2].contains(i)))).collect();
            st3.hi = nochord.iter().rev().take(8).map(|p| (inp_coord(*p, &sc.u, &vk_idx), 0u16)).collect();
            if firing(&conds, &sc.u, &vk_idx, &st3) != fire {
                out.inc("late_result_depends_on_chord_member_inputs");
            }
        }
    }
    if observed != want {
        let w = |v: &[usize]| v.iter().map(|i| WITNESS[*i]).collect::<Vec<_>>();
        out.violate(
            format!("C10:e2e:late-switch:{}{}", sc.kind.class(), if sc.prelude_chord { ":after-v1-chord" } else { "" }),
            format!(
                "switch evaluated as {} performed {:?}, expected {:?} (inputs pressed before the evaluation, most recent first: {})",
                sc.kind.class(),
                w(&observed),
                w(&want),
                sc.presses.iter().rev().take(8).map(|p| match p {
                    Inp::Real(i) => sc.u.keys[*i].0.clone(),
                    Inp::Virt(v) => format!("vk{v}"),
                }).collect::<Vec<_>>().join(" ")
            ),
            json!({
                "config": sc.cfg, "history": render_hist(&sc.evs), "observed": w(&observed), "expected": w(&want), "firing_cases": fire,
                "inputs_pressed_before_evaluation_most_recent_first": sc.presses.iter().rev().take(8).map(|p| format!("{p:?}")).collect::<Vec<_>>(),
                "first_action_of_the_switch_at_tick": n_w, "last_press_arrived_after_tick": t_last_press,
                "state": format!("{st:?}"), "trace": sim.trace_json(),
            }),
        );
    }
    if r % 300 == 7 && out.sample.is_none() {
        out.sample = Some(json!({"part": "e2e late evaluation", "kind": format!("{:?}", sc.kind), "config": sc.cfg, "history": render_hist(&sc.evs), "observed_witnesses": observed.iter().map(|i| WITNESS[*i]).collect::<Vec<_>>()}));
    }
}
