//! C03 — configuration parsing is total: every text yields a config or a diagnostic.
//!
//! Oracle: crash oracle (panic / stack overflow / watchdog) around both parser entry points, plus
//! a diagnostic monitor: the returned miette report must render, and every label must lie inside
//! the source text the report carries, which must be the text of the file it names.

use crate::core::rng::Rng;
use crate::core::{CaseOut, Check, Ctx};
use crate::gen::sexp::{self, Node};
use crate::gen::{self, Profile};
use miette::Diagnostic;
use serde_json::{json, Value};
use std::sync::OnceLock;

pub struct C03Check;
pub static C03: C03Check = C03Check;

const MAX_TEXT: usize = 64 * 1024;
const MAX_DEPTH: usize = 64;
const MUTANTS_PER_CASE: usize = 12;

struct Seed {
    name: String,
    text: String,
    files: Vec<(String, String)>,
}

fn read(p: &str) -> Option<String> {
    std::fs::read(p).ok().map(|b| String::from_utf8_lossy(&b).into_owned())
}

/// string literals in Rust test sources that look like configurations
fn extract_rust_literals(src: &str, out: &mut Vec<String>) {
    let bytes = src.as_bytes();
    let mut i = 0;
    while i < bytes.len() {
        // raw strings r#"..."# / r"..."
        if bytes[i] == b'r' && i + 1 < bytes.len() && (bytes[i + 1] == b'"' || bytes[i + 1] == b'#') {
            let mut j = i + 1;
            let mut hashes = 0;
            while j < bytes.len() && bytes[j] == b'#' {
                hashes += 1;
                j += 1;
            }
            if j < bytes.len() && bytes[j] == b'"' {
                let start = j + 1;
                let close: String = std::iter::once('"').chain(std::iter::repeat('#').take(hashes)).collect();
                if let Some(end) = src[start..].find(&close) {
                    let lit = &src[start..start + end];
                    if lit.contains('(') && lit.len() > 8 {
                        out.push(lit.to_string());
                    }
                    i = start + end + close.len();
                    continue;
                }
            }
        }
        if bytes[i] == b'"' {
            let start = i + 1;
            let mut j = start;
            while j < bytes.len() && bytes[j] != b'"' {
                if bytes[j] == b'\\' {
                    j += 1;
                }
                j += 1;
            }
            if j < bytes.len() && src.is_char_boundary(start) && src.is_char_boundary(j) {
                let lit = &src[start..j];
                if lit.contains("(def") {
                    out.push(lit.replace("\\n", "\n").replace("\\\"", "\""));
                }
            }
            i = j + 1;
            continue;
        }
        i += 1;
    }
}

fn list_files(dir: &str, ext: Option<&str>, out: &mut Vec<String>) {
    if let Ok(rd) = std::fs::read_dir(dir) {
        let mut v: Vec<_> = rd.filter_map(|e| e.ok()).map(|e| e.path()).collect();
        v.sort();
        for p in v {
            if p.is_dir() {
                list_files(&p.to_string_lossy(), ext, out);
            } else if ext.map(|e| p.extension().map(|x| x == e).unwrap_or(false)).unwrap_or(true) {
                out.push(p.to_string_lossy().into_owned());
            }
        }
    }
}

fn corpus() -> &'static Vec<Seed> {
    static C: OnceLock<Vec<Seed>> = OnceLock::new();
    C.get_or_init(|| {
        let mut seeds = vec![];
        let repo = std::env::var("KV_REPO").unwrap_or_else(|_| "/repo".into());
        // files that other configs include
        let aux: Vec<(String, String)> = [
            ("included-file.kbd", "cfg_samples/included-file.kbd"),
            ("included-good.kbd", "parser/test_cfgs/included-good.kbd"),
            ("included-bad.kbd", "parser/test_cfgs/included-bad.kbd"),
            ("included-bad2.kbd", "parser/test_cfgs/included-bad2.kbd"),
            ("utf8bom-included.kbd", "parser/test_cfgs/utf8bom-included.kbd"),
            ("test.zch", "parser/test_cfgs/test.zch"),
            ("chords.tsv", "cfg_samples/chords.tsv"),
        ]
        .iter()
        .filter_map(|(n, p)| read(&format!("{repo}/{p}")).map(|t| (n.to_string(), t)))
        .collect();
        let mut files = vec![];
        list_files(&format!("{repo}/cfg_samples"), Some("kbd"), &mut files);
        list_files(&format!("{repo}/parser/test_cfgs"), Some("kbd"), &mut files);
        for f in files {
            if let Some(t) = read(&f) {
                seeds.push(Seed { name: f.replace(&repo, ""), text: t, files: aux.clone() });
            }
        }
        // configuration guide: [source] blocks
        if let Some(doc) = read(&format!("{repo}/docs/config.adoc")) {
            let lines: Vec<&str> = doc.lines().collect();
            let mut i = 0;
            let mut n = 0;
            while i < lines.len() {
                if lines[i].trim() == "----" && i > 0 && lines[i - 1].trim().starts_with("[source") {
                    let mut j = i + 1;
                    let mut block = String::new();
                    while j < lines.len() && lines[j].trim() != "----" {
                        block.push_str(lines[j]);
                        block.push('\n');
                        j += 1;
                    }
                    if block.contains('(') {
                        let wrapped = if block.contains("(defsrc") {
                            block.clone()
                        } else {
                            format!("(defsrc a b c)\n(deflayer base a b c)\n(defvirtualkeys vk1 x)\n{block}")
                        };
                        seeds.push(Seed { name: format!("docs/config.adoc#block{n}"), text: wrapped, files: aux.clone() });
                        n += 1;
                    }
                    i = j;
                }
                i += 1;
            }
        }
        // configs embedded in the tests
        let mut rs = vec![];
        list_files(&format!("{repo}/src/tests"), Some("rs"), &mut rs);
        list_files(&format!("{repo}/parser/src/cfg"), Some("rs"), &mut rs);
        let mut lits = vec![];
        for f in rs {
            if f.contains("tests") {
                if let Some(t) = read(&f) {
                    extract_rust_literals(&t, &mut lits);
                }
            }
        }
        lits.sort();
        lits.dedup();
        for (i, l) in lits.into_iter().enumerate() {
            if l.len() < MAX_TEXT {
                seeds.push(Seed { name: format!("test-literal#{i}"), text: l, files: aux.clone() });
            }
        }
        seeds
    })
}

#[derive(Default)]
struct Judge {
    out: CaseOut,
}

fn short(s: &str, n: usize) -> String {
    if s.len() <= n {
        s.to_string()
    } else {
        let mut e = n;
        while !s.is_char_boundary(e) {
            e -= 1;
        }
        format!("{}…", &s[..e])
    }
}

impl Judge {
    /// Inspect a diagnostic: must render, labels must lie inside the named source.
    fn check_report(&mut self, e: &miette::Report, main_name: &str, main_text: &str, files: &[(String, String)], how: &str, text_for_witness: &str) {
        let rendered = format!("{e:?}");
        self.out.count("diag_rendered_bytes", rendered.len() as u64);
        let first_help = e.help().map(|h| h.to_string()).unwrap_or_default();
        let msg_class: String = first_help.lines().next().unwrap_or("").chars().filter(|c| !c.is_ascii_digit()).take(60).collect();
        self.out.tag(format!("err:{msg_class}"));
        let labels: Vec<miette::LabeledSpan> = e.labels().map(|l| l.collect()).unwrap_or_default();
        if labels.is_empty() {
            self.out.inc("errors_without_span");
            return;
        }
        self.out.inc("errors_with_span");
        let Some(sc) = e.source_code() else {
            self.out.violate("diag:label-without-source", "diagnostic has a label but no source text attached", json!({"how": how, "text": short(text_for_witness, 4000), "rendered": short(&rendered, 2000)}));
            return;
        };
        for l in labels {
            let off = l.offset();
            let len = l.len();
            match sc.read_span(l.inner(), 0, 0) {
                Err(err) => {
                    self.out.violate(
                        "diag:span-outside-source",
                        format!("diagnostic label {off}+{len} lies outside the source text it is attached to ({err})"),
                        json!({"how": how, "text": short(text_for_witness, 4000), "offset": off, "len": len, "rendered": short(&rendered, 2000)}),
                    );
                }
                Ok(contents) => {
                    let name = contents.name().unwrap_or("").to_string();
                    // which file does the report name?
                    let expected: Option<&str> = if name == main_name || name == "configuration" {
                        Some(main_text)
                    } else {
                        files.iter().find(|(n, _)| *n == name || name.ends_with(n.as_str())).map(|(_, t)| t.as_str())
                    };
                    match expected {
                        None => {
                            self.out.inc("diag_named_other_file");
                            self.out.violate(
                                "diag:names-unknown-file",
                                format!("diagnostic names file {name:?} which is neither the main file nor an included one"),
                                json!({"how": how, "text": short(text_for_witness, 4000), "name": name, "rendered": short(&rendered, 2000)}),
                            );
                        }
                        Some(t) => {
                            // BOM handling: the parser strips a leading BOM before lexing
                            let t2 = t.strip_prefix('\u{feff}').unwrap_or(t);
                            // "inside the file": a valid byte range of the named file whose bytes are what the
                            // report shows. (Ending inside a multi-byte character is tolerated: the
                            // lexer's unterminated-string span does that and it still lies inside.)
                            let ok = |t: &str| off + len <= t.len() && &t.as_bytes()[off..off + len] == contents.data();
                            if !(ok(t) || ok(t2)) {
                                self.out.violate(
                                    "diag:span-not-in-named-file",
                                    format!("diagnostic label {off}+{len} is not a valid range of the file {name:?} it names (file has {} bytes)", t.len()),
                                    json!({"how": how, "text": short(text_for_witness, 4000), "name": name, "offset": off, "len": len, "rendered": short(&rendered, 2000)}),
                                );
                            }
                        }
                    }
                }
            }
        }
    }

    fn parse_str(&mut self, text: &str, files: &[(String, String)]) -> bool {
        let mut fm = rustc_hash::FxHashMap::default();
        for (n, t) in files {
            fm.insert(n.clone(), t.clone());
        }
        self.out.inc("parses_from_str");
        match kanata_parser::cfg::new_from_str(text, fm) {
            Ok(_) => {
                self.out.inc("accepted");
                true
            }
            Err(e) => {
                self.out.inc("rejected");
                self.check_report(&e, "configuration", text, files, "new_from_str", text);
                false
            }
        }
    }

    fn parse_file(&mut self, text: &[u8], files: &[(String, Vec<u8>)], dir: &std::path::Path) -> bool {
        let _ = std::fs::remove_dir_all(dir);
        let _ = std::fs::create_dir_all(dir);
        let main = dir.join("main.kbd");
        std::fs::write(&main, text).expect("harness: write scratch file");
        let mut fl = vec![];
        for (n, t) in files {
            if n.contains('/') || n.contains("..") || n.is_empty() {
                continue;
            }
            if t.as_slice() == b"<DIR>" {
                let _ = std::fs::create_dir_all(dir.join(n));
            } else {
                let _ = std::fs::write(dir.join(n), t);
                fl.push((n.clone(), String::from_utf8_lossy(t).into_owned()));
            }
        }
        self.out.inc("parses_from_file");
        let r = kanata_parser::cfg::new_from_file(&main);
        let ok = match r {
            Ok(_) => {
                self.out.inc("accepted");
                true
            }
            Err(e) => {
                self.out.inc("rejected");
                let main_text = String::from_utf8_lossy(text).into_owned();
                if std::str::from_utf8(text).is_ok() {
                    self.check_report(&e, &main.to_string_lossy(), &main_text, &fl, "new_from_file", &main_text);
                } else {
                    let _ = format!("{e:?}");
                }
                false
            }
        };
        let _ = std::fs::remove_dir_all(dir);
        ok
    }
}

fn byte_mutate(rng: &mut Rng, text: &str) -> String {
    let mut b: Vec<u8> = text.as_bytes().to_vec();
    let n = 1 + rng.usize(4);
    const INS: &[&str] = &["(", ")", "\"", "#|", "|#", "r#\"", "\"#", ";;", "\n", " ", "\u{feff}", "é", "🔣", "\u{0}", "$", "@", "\\", "'", "((((((((", "))))))))", "\t", "\r\n"];
    for _ in 0..n {
        if b.is_empty() {
            b.extend_from_slice(b"(");
            continue;
        }
        let pos = rng.usize(b.len());
        match rng.usize(5) {
            0 => {
                let s = rng.pick(INS);
                for (k, x) in s.bytes().enumerate() {
                    b.insert((pos + k).min(b.len()), x);
                }
            }
            1 => {
                let l = 1 + rng.usize(8);
                let end = (pos + l).min(b.len());
                b.drain(pos..end);
            }
            2 => {
                b[pos] ^= 1 << rng.usize(7);
            }
            3 => {
                b.truncate(pos);
            }
            _ => {
                let l = 1 + rng.usize(40);
                let end = (pos + l).min(b.len());
                let chunk: Vec<u8> = b[pos..end].to_vec();
                let at = rng.usize(b.len());
                for (k, x) in chunk.into_iter().enumerate() {
                    b.insert((at + k).min(b.len()), x);
                }
            }
        }
    }
    // the property is about UTF-8 texts
    String::from_utf8_lossy(&b).into_owned()
}

fn top_depth(nodes: &[Node]) -> usize {
    nodes.iter().map(sexp::depth).max().unwrap_or(0)
}

/// mutations that can multiply the expansion work of templates are not applied inside these forms
fn is_template_form(n: &Node) -> bool {
    match n {
        Node::List(l) => matches!(l.first(), Some(Node::Atom(a)) if a == "deftemplate" || a == "template-expand" || a == "t!"),
        _ => false,
    }
}

fn struct_mutate(rng: &mut Rng, nodes: &mut Vec<Node>, donor: &[Node], kinds_used: &mut Vec<String>) {
    let n_mut = 1 + rng.usize(3);
    // mutate inside one top-level form
    if nodes.is_empty() {
        return;
    }
    let form = rng.usize(nodes.len());
    for _ in 0..n_mut {
        let paths: Vec<Vec<usize>> = sexp::all_paths(nodes).into_iter().filter(|p| p[0] == form || rng.chance(1, 50)).collect();
        if paths.is_empty() {
            return;
        }
        let path = rng.pick(&paths).clone();
        let mut kind = *rng.pick(sexp::MUTATION_KINDS);
        if (kind == "duplicate" || kind == "splice") && nodes.get(path[0]).map(is_template_form).unwrap_or(false) {
            kind = "name";
        }
        if sexp::mutate(nodes, &path, kind, rng, donor) {
            let head = match sexp::get(nodes, &path[..1]) {
                Some(Node::List(l)) => match l.first() {
                    Some(Node::Atom(a)) => a.clone(),
                    _ => "?".into(),
                },
                _ => "?".into(),
            };
            kinds_used.push(format!("{kind}@{head}"));
        }
    }
}

#[derive(Clone)]
struct Mutant {
    text: String,
    files: Vec<(String, String)>,
    via_file: bool,
    desc: String,
}

fn make_mutants(ctx: &Ctx, idx: u64) -> Vec<Mutant> {
    // the systematic hostile family comes first; it does not depend on the seed
    let nh = hostile_cases();
    if idx < nh {
        let all = systematic_hostile();
        let a = idx as usize * MUTANTS_PER_CASE;
        return all[a..(a + MUTANTS_PER_CASE).min(all.len())].to_vec();
    }
    let idx = idx - nh;
    let corp = corpus();
    // the first block of cases is the same for every seed
    let nsys = systematic_cases(corp.len());
    let seed = if idx < nsys { 0x5eed } else { ctx.seed };
    let mut rng = Rng::for_case(seed, "C03", "case", idx);
    let mut out = vec![];
    // choose the seed text
    let (name, text, files): (String, String, Vec<(String, String)>) = if idx < nsys {
        let s = &corp[(idx as usize) % corp.len()];
        (s.name.clone(), s.text.clone(), s.files.clone())
    } else if rng.chance(1, 2) || corp.is_empty() {
        let p = Profile::full();
        let g = gen::generate(&mut rng, &p);
        if rng.chance(1, 5) {
            // move a tail of the top-level forms into an included file
            if let Some(mut nodes) = sexp::parse(&g.text) {
                if nodes.len() > 3 {
                    let k = 1 + rng.usize(2);
                    let tail: Vec<Node> = nodes.split_off(nodes.len() - k);
                    let main = format!("{}(include inc.kbd)\n", sexp::print(&nodes));
                    ("gen+include".into(), main, vec![("inc.kbd".into(), sexp::print(&tail))])
                } else {
                    ("gen".into(), g.text, vec![])
                }
            } else {
                ("gen".into(), g.text, vec![])
            }
        } else {
            ("gen".into(), g.text, vec![])
        }
    } else {
        let s = rng.pick(corp);
        (s.name.clone(), s.text.clone(), s.files.clone())
    };
    let donor_text = if corp.is_empty() { text.clone() } else { rng.pick(corp).text.clone() };
    let donor = sexp::parse(&donor_text).unwrap_or_default();
    let parsed = sexp::parse(&text);
    if idx % 16 == 5 {
        // a case of template/variable-hostile texts instead of mutants
        for m in 0..MUTANTS_PER_CASE {
            out.push(Mutant { text: template_hostile(&mut rng), files: vec![], via_file: m % 5 == 0, desc: "template-hostile".into() });
        }
        return out;
    }
    for m in 0..MUTANTS_PER_CASE {
        let via_file = rng.chance(1, 6);
        let mut files2 = files.clone();
        let mut desc;
        let t = if m == 0 && idx < nsys {
            desc = format!("{name}: unmodified");
            text.clone()
        } else if parsed.is_none() || rng.chance(1, 6) {
            desc = format!("{name}: byte-level");
            byte_mutate(&mut rng, &text)
        } else {
            let mut nodes = parsed.clone().unwrap();
            let mut kinds = vec![];
            struct_mutate(&mut rng, &mut nodes, &donor, &mut kinds);
            desc = format!("{name}: {}", kinds.join("+"));
            if top_depth(&nodes) > MAX_DEPTH {
                continue;
            }
            sexp::print(&nodes)
        };
        if t.len() > MAX_TEXT {
            continue;
        }
        // sometimes damage an included file instead / as well
        if !files2.is_empty() && rng.chance(1, 8) {
            let fi = rng.usize(files2.len());
            match rng.usize(4) {
                0 => files2[fi].1 = byte_mutate(&mut rng, &files2[fi].1.clone()),
                1 => files2[fi].1 = String::new(),
                2 => {
                    files2.remove(fi);
                }
                _ => files2[fi].1 = "<DIR>".into(),
            }
            desc.push_str(" +file-fault");
        }
        out.push(Mutant { text: t, files: files2, via_file, desc });
    }
    out
}

/// Hostile uses of deftemplate / template-expand / defvar: expansion heads and names supplied
/// through parameters, self reference, concat-built names, conditionals on odd values.
fn template_hostile(rng: &mut Rng) -> String {
    const ARGS: &[&str] = &["t!", "template-expand", "a", "b", "$x", "$y", "()", "(t! a 1)", "(t! b t!)", "(concat t !)", "(concat \"t\" \"!\")", "1", "\"\"", "if-equal", "(if-equal a a x)", "deftemplate", "$a", "@a", "x", "y", "(x)", "((x))"];
    const BODIES: &[&str] = &[
        "($x a $x)", "($x b $y)", "$x", "($x)", "(t! $x $y)", "(template-expand $x $y)", "((concat t !) a $x)", "(if-equal $x $y (t! a $x))", "(if-not-equal $x $y $x)",
        "(if-in-list $x ($y a b) ($x a $x))", "(defalias $x $y)", "(defvar $x $y)", "(deflayer $x $y)", "($x $y $x $y)", "(t! b $x $x)", "(if-equal $x t! ($x a $x))",
        // reproductions wrapped in a list: every expansion nests one level deeper
        "(($x a $x))", "(($x a $x) ($x a $x))", "(a ($x a $x))", "((($x b $y $x)))", "((t! a $x))", "(multi ($x a $x))", "(if-equal $x t! (($x a $x)))",
    ];
    let mut s = String::from("(defsrc a)\n(deflayer base a)\n");
    let nt = 1 + rng.usize(3);
    let names = ["a", "b", "c"];
    for i in 0..nt {
        let nb = 1 + rng.usize(2);
        let bodies: Vec<&str> = (0..nb).map(|_| *rng.pick(BODIES)).collect();
        let params = *rng.pick(&["(x)", "(x y)", "(x x)", "()", "(x y z)"]);
        s.push_str(&format!("(deftemplate {} {} {})\n", names[i], params, bodies.join(" ")));
    }
    for _ in 0..(1 + rng.usize(3)) {
        let n = *rng.pick(&names[..nt]);
        let na = rng.usize(4);
        let args: Vec<&str> = (0..na).map(|_| *rng.pick(ARGS)).collect();
        let head = *rng.pick(&["t!", "template-expand"]);
        if rng.chance(1, 4) {
            s.push_str(&format!("(deflayer l2 ({head} {n} {}))\n", args.join(" ")));
        } else {
            s.push_str(&format!("({head} {n} {})\n", args.join(" ")));
        }
    }
    if rng.chance(1, 3) {
        s.push_str(&format!("(defvar x {} y {})\n", rng.pick(ARGS), rng.pick(ARGS)));
    }
    s
}


// ------------------------------------------------------------------------------------------------
// systematic hostile family (identical for every seed): every keyword of the language in every
// arity with every argument kind, every defcfg option with boundary values, reference graphs of
// defvar, slot mutations of one valid instance of every top-level form, lexical endings at EOF.

fn keywords_from(path: &str, pat_prefix: &str) -> Vec<String> {
    // string literals following `pat_prefix` on a line, e.g. `pub const X: &str = "` or `"` + `=>`
    let mut v = vec![];
    if let Some(t) = read(path) {
        for line in t.lines() {
            let l = line.trim();
            if pat_prefix == "const" {
                if l.starts_with("pub const ") && l.contains(": &str = \"") {
                    if let Some(a) = l.find('"') {
                        if let Some(b) = l[a + 1..].find('"') {
                            v.push(l[a + 1..a + 1 + b].to_string());
                        }
                    }
                }
            } else if l.starts_with('"') && l.contains("=>") {
                // "key" | "alias" => ...
                let head = l.split("=>").next().unwrap_or("");
                for part in head.split('|') {
                    let p = part.trim();
                    if p.len() > 2 && p.starts_with('"') && p.ends_with('"') {
                        v.push(p[1..p.len() - 1].to_string());
                    }
                }
            }
        }
    }
    v.sort();
    v.dedup();
    v
}

fn systematic_hostile() -> &'static Vec<Mutant> {
    static C: OnceLock<Vec<Mutant>> = OnceLock::new();
    C.get_or_init(|| {
        let repo = std::env::var("KV_REPO").unwrap_or_else(|_| "/repo".into());
        let mut out: Vec<Mutant> = vec![];
        let mut n = 0usize;
        let mut push = |out: &mut Vec<Mutant>, desc: &str, text: String, files: Vec<(String, String)>| {
            n += 1;
            out.push(Mutant { text, files, via_file: n % 7 == 0, desc: format!("systematic: {desc}") });
        };
        const ARGS: &[&str] = &["a", "1", "0", "65536", "()", "\"\"", "(a)", "lctl", "@x", "$x", "-1", "(a b) (c)"];
        const BAD: &[&str] = &["()", "65536", "\"\"", "(())", "$nope", "@nope"];
        let base = ["1", "1", "a", "b", "(a)", "a"];
        // (1) list actions: every keyword x arity 0..=5 x every argument kind; one odd slot in a plausible call
        let mut kws = keywords_from(&format!("{repo}/parser/src/cfg/list_actions.rs"), "const");
        for extra in ["macro", "multi", "tap-hold", "switch", "fork", "unmod", "one-shot", "tap-dance", "chord", "layer-while-held", "on-press", "on-release", "on-idle", "hold-for-duration", "sequence", "arbitrary-code", "dynamic-macro-record", "caps-word", "mwheel-up", "movemouse-up", "movemouse-accel-up", "setmouse", "push-msg", "clipboard-set", "cmd", "lrld-num", "unicode", "release-key", "release-layer"] {
            if !kws.iter().any(|k| k == extra) {
                kws.push(extra.to_string());
            }
        }
        let pre = "(defsrc a b)\n(defvirtualkeys v a)\n(defchords g 50 (a) a (b) b (a b) c)\n(defalias x a)\n(defvar x a)\n";
        for k in &kws {
            for ar in 0..=5usize {
                for a in ARGS {
                    let args = vec![*a; ar].join(" ");
                    push(&mut out, &format!("({k}) arity {ar} all {a}"), format!("{pre}(deflayer base ({k} {args}) b)\n"), vec![]);
                    if ar == 0 {
                        break;
                    }
                }
                for pos in 0..ar {
                    for b in BAD {
                        let mut args: Vec<&str> = base[..ar].to_vec();
                        args[pos] = b;
                        push(&mut out, &format!("({k}) arity {ar} slot {pos} = {b}"), format!("{pre}(deflayer base (multi ({k} {}) a) b)\n", args.join(" ")), vec![]);
                    }
                }
            }
        }
        // (2) defcfg: every option x boundary values
        let opts = keywords_from(&format!("{repo}/parser/src/cfg/defcfg.rs"), "arm");
        // the option's value must reach its consumer, so the rest of the configuration uses the
        // features the options configure (chords v2, sequences, overrides, virtual keys, zippychord,
        // dynamic macros, mouse keys)
        let rich = "(defsrc a b c d)\n(defvirtualkeys v1 x)\n(deflayer base (tap-hold 100 100 a lsft) sldr (dynamic-macro-record 1) (movemouse-up 5 5))\n(defchordsv2 (a b) c 50 all-released ())\n(defseq v1 (a b))\n(defoverrides (lsft a) (lsft 9))\n(defzippy z)\n";
        for o in &opts {
            for v in ["yes", "no", "0", "1", "2", "3", "4", "5", "6", "65535", "65536", "-1", "()", "\"x\"", "(a b)", "abc", "", "(all-except)", "(all-except a ())", "(all-except d a c)", "visible-backspaced", "hidden-suppressed", "hidden-delay-type", "recorded", "constant", "to-base-layer", "layer-stack"] {
                push(&mut out, &format!("defcfg {o} {v}"), format!("(defcfg {o} {v})\n(defsrc a)\n(deflayer base a)\n"), vec![]);
                // concurrent-tap-hold is a precondition of defchordsv2; keep it on unless it is the option under test
                let pre = if o == "concurrent-tap-hold" { String::new() } else { "concurrent-tap-hold yes ".to_string() };
                push(&mut out, &format!("defcfg {o} {v} (rich)"), format!("(defcfg {pre}{o} {v})\n{rich}"), vec![("z".into(), "ab\tx\n".into())]);
            }
        }
        // (3) top-level forms with degenerate bodies
        let tops = [
            "defcfg", "defsrc", "deflayer", "deflayermap", "defalias", "defaliasenvcond", "defvar", "deftemplate", "defvirtualkeys", "deffakekeys", "defchords", "defchordsv2", "defchordsv2-experimental", "defseq", "defoverrides", "defzippy",
            "defzippy-experimental", "deflocalkeys-linux", "deflocalkeys-win", "deflocalkeys-macos", "include", "platform", "environment", "template-expand", "t!", "if-equal", "concat",
        ];
        for t in tops {
            for body in ["", "()", "a", "a a", "a ()", "() a", "(a)", "(a) (b)", "a (a ())", "1", "1 2 3", "\"\"", "(()) (())", "a 1 a 1 a", "(a) a (a) a", "x (include)", "(linux) ()", "(a b) a 50 all-released ()", "(a) ()"] {
                push(&mut out, &format!("({t} {body})"), format!("(defsrc a b)\n(deflayer base a b)\n({t} {body})\n"), vec![("a".into(), "a\tb\n".into())]);
            }
        }
        // (3b) every top-level form written twice and three times, under each of its spellings and in
        // both orders (the "only one allowed" diagnostics look the second block up again)
        {
            let valid: &[(&[&str], &str)] = &[
                (&["defcfg"], "process-unmapped-keys yes"),
                (&["defsrc"], "a b"),
                (&["deflayer"], "base a b"),
                (&["deflayermap"], "(base) a b"),
                (&["defalias"], "q a"),
                (&["defvar"], "q a"),
                (&["deftemplate"], "q () a"),
                (&["defvirtualkeys", "deffakekeys"], "q a"),
                (&["defchords"], "q 50 (a) a"),
                (&["defchordsv2", "defchordsv2-experimental"], "(a b) c 50 all-released ()"),
                (&["defseq"], "q (a b)"),
                (&["defoverrides"], "(lsft a) (lsft 9)"),
                (&["defzippy", "defzippy-experimental"], "a"),
                (&["deflocalkeys-linux", "deflocalkeys-win", "deflocalkeys-winiov2", "deflocalkeys-wintercept", "deflocalkeys-macos"], "q 300"),
                (&["defaliasenvcond"], "(E v) q a"),
                (&["include"], "a"),
            ];
            let base = "(defcfg concurrent-tap-hold yes)\n(defsrc a b)\n(deflayer base a b)\n(defvirtualkeys q0 a)\n";
            for (names, body) in valid {
                for n1 in names.iter() {
                    for n2 in names.iter() {
                        let pre = if *n1 == "defcfg" || *n1 == "defsrc" || *n1 == "deflayer" { "(defcfg concurrent-tap-hold yes)\n(defsrc a b)\n(deflayer base a b)\n".replace(&format!("({n1} "), "(ignored ") } else { base.to_string() };
                        let body2 = body.replace("q ", "q2 ").replace("(base)", "(base2)").replace("base a", "base2 a");
                        for text in [
                            format!("{pre}({n1} {body})\n({n2} {body})\n"),
                            format!("{pre}({n1} {body})\n({n2} {body2})\n"),
                            format!("{pre}({n1} {body})\n({n2} {body2})\n({n1} {body})\n"),
                            format!("({n1} {body})\n{pre}({n2} {body2})\n"),
                        ] {
                            push(&mut out, &format!("{n1} + {n2} repeated"), text, vec![("a".into(), "ab\tx\n".into())]);
                        }
                    }
                }
            }
        }
        // (3c) templates that reproduce their own call, at the same level and wrapped in 1-3 lists
        for body in ["($x a $x)", "(($x a $x))", "((($x a $x)))", "(multi ($x a $x))", "(a b ($x a $x) c)", "(($x a $x) ($x a $x))", "((t! a $x))", "(if-equal $x t! (($x a $x)))"] {
            for site in ["(deflayer base (t! a t!))", "(deflayer base a)\n(t! a t!)", "(deflayer base a)\n(defalias q (t! a t!))", "(deflayer base (t! a template-expand))", "(deflayer base a)\n(defvar v t!)\n(defalias q (t! a $v))"] {
                push(&mut out, &format!("self-reproducing template {body} at {}", &site[..site.len().min(30)]), format!("(defsrc a)\n(deftemplate a (x) {body})\n{site}\n"), vec![]);
            }
        }
        // (4) defvar reference graphs over three variables, with use sites
        let vals = ["$a", "$b", "$c", "1", "($a)", "(concat $b)", "(multi $c)", "(concat $a $b)", "($b $c)"];
        for va in vals {
            for vb in vals {
                for vc in ["$a", "$b", "1", "(concat $a)"] {
                    for use_ in ["$a", "(multi $b a)", "a"] {
                        push(&mut out, &format!("defvar a={va} b={vb} c={vc} use {use_}"), format!("(defvar a {va} b {vb} c {vc})\n(defsrc a)\n(deflayer base {use_})\n"), vec![]);
                    }
                }
            }
        }
        // (5) one valid instance of every top-level form, each token replaced / deleted / doubled
        let skeletons: &[&str] = &[
            "(defchordsv2 (a b) c 50 all-released (base))",
            "(defchords g 50 (a) a (b) b (a b) c)",
            "(defseq s1 (a b) s2 (O-(a b) S-c))",
            "(defvirtualkeys w1 a w2 b)",
            "(defoverrides (lsft a) (lsft 9) (a) (b))",
            "(deflocalkeys-linux yen 124 won 130)",
            "(defzippy a on-first-press-chord-deadline 500 idle-reactivate-time 500 smart-space-punctuation (? ! . , ; :) output-character-mappings (! S-1 ? S-/ % S-5 \"(\" S-9 \")\" S-0 : S-; + (no-erase `) * (single-output S-AG-v)))",
            "(defzippy a smart-space add-space-only)",
            "(deflayermap (l2) a b c (tap-hold 1 1 a b) _ c)",
            "(deftemplate t1 (p q) (defalias $p $q)) (t! t1 al a)",
            "(deftemplate t2 (p) (if-equal $p a (defalias al2 b)) (if-in-list $p (a b) (defalias al3 b)))",
            "(defaliasenvcond (E v) al4 a)",
            "(platform (linux) (defalias al5 a))",
            "(environment (E v) (defalias al6 a))",
            "(include a)",
            "(defalias al7 (switch ((and a (or b (not c)) (key-history a 1) (key-timing 1 lt 100) (input real a) (input-history virtual s1 1) (layer base) (base-layer base))) a break () b fallthrough))",
            "(defalias al8 (macro a 10 S-(a b) (unicode x) C-a))",
            "(defalias al9 (fork a b (lsft rsft)))",
            "(defalias al10 (unmod (lsft) a b))",
            "(defalias al11 (caps-word-custom 100 (a b) (c)))",
            "(defalias al12 (tap-hold-release-keys 1 1 a b (a b)))",
        ];
        let swaps = ["", "()", "(())", "\"\"", "65536", "0", "-1", "zz", "$nope", "@nope", "🔣", "(a (b (c)))", "S-", "O-()", "C-S-()", "S-()", "255", "256", "766", "767", "768", "65535", "O-(a)", "O-(a b c d e f g)"];
        for sk in skeletons {
            let toks: Vec<&str> = sk.split(' ').collect();
            for i in 1..toks.len() {
                let strip = |t: &str| t.trim_matches(|c| c == '(' || c == ')').to_string();
                for sw in swaps {
                    let mut t2: Vec<String> = toks.iter().map(|x| x.to_string()).collect();
                    // keep the parentheses attached to the token so that the text stays balanced
                    let core = strip(toks[i]);
                    if core.is_empty() {
                        continue;
                    }
                    t2[i] = toks[i].replacen(&core, sw, 1);
                    push(&mut out, &format!("{}: token {i} -> {sw}", toks[0]), format!("(defsrc a b c)\n(deflayer base a b c)\n(deflayer l2 a b c)\n(defvirtualkeys s1 a s2 b)\n{}\n", t2.join(" ")), vec![("a".into(), "ab\tx\nab c\ty\n".into())]);
                }
                // delete / double the token (only tokens without parentheses)
                if !toks[i].contains('(') && !toks[i].contains(')') {
                    let mut t2: Vec<&str> = toks.clone();
                    t2.remove(i);
                    push(&mut out, &format!("{}: token {i} deleted", toks[0]), format!("(defsrc a b c)\n(deflayer base a b c)\n(deflayer l2 a b c)\n(defvirtualkeys s1 a s2 b)\n{}\n", t2.join(" ")), vec![("a".into(), "ab\tx\n".into())]);
                    let mut t3: Vec<&str> = toks.clone();
                    t3.insert(i, toks[i]);
                    push(&mut out, &format!("{}: token {i} doubled", toks[0]), format!("(defsrc a b c)\n(deflayer base a b c)\n(deflayer l2 a b c)\n(defvirtualkeys s1 a s2 b)\n{}\n", t3.join(" ")), vec![("a".into(), "ab\tx\n".into())]);
                }
            }
        }
        // (5c) span provenance: the same skeleton forms, built by a template whose definition and
        // call site are in different files, with each sub-expression in turn supplied by the call
        // (valid and hostile arguments). Sibling expressions of one form then carry positions of
        // different files, which every diagnostic that combines positions has to cope with.
        {
            fn replace_at(n: &Node, path: &[usize], with: &Node) -> Node {
                if path.is_empty() {
                    return with.clone();
                }
                match n {
                    Node::List(l) => Node::List(l.iter().enumerate().map(|(i, x)| if i == path[0] { replace_at(x, &path[1..], with) } else { x.clone() }).collect()),
                    a => a.clone(),
                }
            }
            let prelude = "(defsrc a b c)\n(deflayer base a b c)\n(deflayer l2 a b c)\n(defvirtualkeys s1 a s2 b)\n";
            let hostile_args = ["()", "(lsft)", "(a b)", "(lsft rsft a b)", "zz", "\"\"", "65536", "🔣", "(a (b (c)))"];
            for sk in skeletons {
                if sk.starts_with("(deftemplate") || sk.starts_with("(include") {
                    continue;
                }
                let Some(nodes) = sexp::parse(sk) else { continue };
                for path in sexp::all_paths(&nodes) {
                    let Some(orig) = sexp::get(&nodes, &path) else { continue };
                    let orig_txt = sexp::print(std::slice::from_ref(orig)).trim().to_string();
                    let body: Vec<Node> = nodes.iter().enumerate().map(|(i, n)| if i == path[0] { replace_at(n, &path[1..], &Node::Atom("$p".into())) } else { n.clone() }).collect();
                    let def = format!("(deftemplate xt (p) {})\n", sexp::print(&body).trim().replace('\n', " "));
                    for (ai, arg) in std::iter::once(orig_txt.as_str()).chain(hostile_args.iter().copied()).enumerate() {
                        if ai > 0 && arg == orig_txt {
                            continue;
                        }
                        let call = format!("(t! xt {arg})\n");
                        let zf = ("a".to_string(), "ab\tx\n".to_string());
                        let head = match &nodes[path[0]] {
                            Node::List(l) => match l.first() {
                                Some(Node::Atom(a)) => a.clone(),
                                _ => "?".into(),
                            },
                            Node::Atom(a) => a.clone(),
                        };
                        let d = format!("{head}: node {path:?} supplied across files as {arg}");
                        push(&mut out, &format!("{d} (template in included file)"), format!("{prelude}(include t.kbd)\n{call}"), vec![("t.kbd".into(), def.clone()), zf.clone()]);
                        push(&mut out, &format!("{d} (call in included file)"), format!("{prelude}{def}(include u.kbd)\n"), vec![("u.kbd".into(), call.clone()), zf.clone()]);
                        if ai < 3 {
                            push(&mut out, &format!("{d} (both included)"), format!("{prelude}(include t.kbd)\n(include u.kbd)\n"), vec![("t.kbd".into(), def.clone()), ("u.kbd".into(), call.clone()), zf.clone()]);
                        }
                    }
                }
            }
        }
        // (4b) string shapes at every place that takes free text (incl. text built by concat / raw strings)
        let shapes = ["\"\"", "\"a\"", "\"a b\"", "r#\"\"\"#", "r#\"a\"b\"#", "r#\"\"#", "r#\"\"\"\"#", "(concat r#\"\"\"#)", "(concat r#\"\"\"# r#\"\"\"#)", "(concat \"a\" r#\"\"\"#)", "(concat r#\"\"\"# a)", "(concat \"\" \"\")", "(concat)", "(concat (concat r#\"\"\"#))", "\"🔣\"", "r#\"🔣\"\"#"];
        for sh in shapes {
            for site in [
                "(deflayer base (unicode $q))",
                "(deflayer base (push-msg $q))",
                "(deflayer base (layer-switch $q))",
                "(deflayer base (cmd $q))",
                "(deflayer base (clipboard-set $q))",
                "(deflayer base (concat $q $q))",
                "(deflayer base $q)",
                "(deflayer base (macro $q))",
                "(deflayer base a)\n(include $q)",
                "(deflayer base a)\n(defzippy $q)",
                "(deflayer base a)\n(defalias $q a)",
                "(deflayer base a)\n(deflayer $q a)",
                "(deflayer (base icon $q) a)",
                "(deflayer base a)\n(deftemplate t (x) (defalias y (unicode $x)))\n(t! t $q)",
                "(deflayer base a)\n(defvar w (concat $q $q))\n(defalias y (unicode $w))",
            ] {
                push(&mut out, &format!("string shape {sh} at {}", &site[..site.len().min(40)]), format!("(defvar q {sh})\n(defsrc a)\n{site}\n"), vec![]);
                // and written in place instead of through a variable
                push(&mut out, &format!("string shape {sh} in place at {}", &site[..site.len().min(40)]), format!("(defsrc a)\n{}\n", site.replace("$q", sh)), vec![]);
            }
        }
        // (5a) local keys at the edges of the code space, used in defsrc / deflayermap / actions
        for form in ["deflocalkeys-linux", "deflocalkeys-win", "deflocalkeys-winiov2", "deflocalkeys-wintercept", "deflocalkeys-macos"] {
            for code in ["0", "1", "255", "256", "700", "765", "766", "767", "768", "1000", "65535", "65536", "-1", "a", "()"] {
                push(&mut out, &format!("{form} k {code} in defsrc"), format!("({form} k {code})\n(defsrc k a)\n(deflayer base k a)\n"), vec![]);
                push(&mut out, &format!("{form} k {code} in deflayermap/action"), format!("({form} k {code})\n(defsrc a)\n(deflayermap (base) k a a (multi k (fork k a (k)) (switch (k) k break)))\n(defoverrides (k) (a))\n"), vec![]);
            }
        }
        // (5b) chord files of defchordsv2 (include ...): present, absent, empty, malformed
        for (inc, file) in [
            ("(include c.tsv)", Some("ab\tx\n")),
            ("(include c.tsv)", None),
            ("(include c.tsv)", Some("")),
            ("(include c.tsv)", Some("ab")),
            ("(include c.tsv)", Some("ab\t")),
            ("(include c.tsv)", Some("\tx")),
            ("(include c.tsv)", Some("ab\tx\ty")),
            ("(include c.tsv)", Some("ab\t(")),
            ("(include c.tsv)", Some("ab\t)")),
            ("(include c.tsv)", Some("ab\t(multi")),
            ("(include c.tsv)", Some("a\tx")),
            ("(include c.tsv)", Some("ab\tx\nab\ty")),
            ("(include c.tsv)", Some("ab\tx\n\n\n")),
            ("(include c.tsv)", Some("🔣b\tx")),
            ("(include c.tsv)", Some("ab\t🔣")),
            ("(include c.tsv)", Some("<DIR>")),
            ("(include)", Some("ab\tx\n")),
            ("(include c.tsv c.tsv)", Some("ab\tx\n")),
            ("(include ())", Some("ab\tx\n")),
            ("(include \"\")", Some("ab\tx\n")),
            ("(include c.tsv) (a b) c 50 all-released ()", Some("ab\tx\n")),
            ("(a b) c 50 all-released () (include c.tsv)", Some("cd\tx\n")),
        ] {
            let files: Vec<(String, String)> = file.map(|f| vec![("c.tsv".to_string(), f.to_string())]).unwrap_or_default();
            push(&mut out, &format!("defchordsv2 {inc} file {file:?}"), format!("(defcfg concurrent-tap-hold yes)\n(defsrc a b c d)\n(deflayer base a b c d)\n(defchordsv2 {inc})\n"), files);
        }
        // (6) zippychord dictionary files
        for dict in ["", "\n", "ab", "ab\t", "\tx", "ab\tx\nab\ty", "a b\tx", "ab  c\tx", "ab\tx\n\n\nzz", "🔣\tx", "ab\t🔣", "ab\tx y z\nab c\tq\nab c d\tr", " \t ", "a\tb\tc", "ab\t\\", "AB\tX"] {
            push(&mut out, &format!("defzippy dictionary {dict:?}"), "(defsrc a b c)\n(deflayer base a b c)\n(defzippy z)\n".into(), vec![("z".into(), dict.into())]);
        }
        // (7) lexical endings at end of file, in the main and in an included file
        for open in ["\"abc", "r#\"abc", "#|abc", ";; abc", "(", "(a", ")", "(defalias q \"", "(defalias q r#\"x", "#", "r#", "r", "\\", "|#"] {
            for tail in ["", "x", "é", "✗", "🔣", " é", "\né", "é\n"] {
                let main = format!("(defsrc a)\n(deflayer base a)\n{open}{tail}");
                push(&mut out, &format!("eof main {open:?}+{tail:?}"), main, vec![]);
                push(&mut out, &format!("eof included {open:?}+{tail:?}"), "(defsrc a)\n(deflayer base a)\n(include inc.kbd)\n".into(), vec![("inc.kbd".into(), format!("(defalias w a)\n{open}{tail}"))]);
            }
        }
        out
    })
}

fn hostile_cases() -> u64 {
    (systematic_hostile().len() as u64).div_ceil(MUTANTS_PER_CASE as u64)
}

fn systematic_cases(corpus_len: usize) -> u64 {
    (corpus_len as u64) * 6
}

impl Check for C03Check {
    fn id(&self) -> &'static str {
        "C03"
    }
    fn n_cases(&self, ctx: &Ctx) -> u64 {
        hostile_cases() + systematic_cases(corpus().len()) + ctx.tier.sel(4_000, 200_000)
    }
    fn describe(&self, ctx: &Ctx, idx: u64) -> Value {
        let ms = make_mutants(ctx, idx);
        json!(ms.iter().map(|m| json!({"desc": m.desc, "via_file": m.via_file, "text": m.text, "files": m.files})).collect::<Vec<_>>())
    }
    fn run_case(&self, ctx: &Ctx, idx: u64) -> CaseOut {
        let ms = make_mutants(ctx, idx);
        let mut j = Judge::default();
        let dir = std::path::PathBuf::from(format!("{}/.work/c03-{}", std::env::var("KV_ROOT").unwrap_or_else(|_| "/verif".into()), std::process::id()));
        for m in &ms {
            if ctx.verbose {
                eprintln!("--- mutant ({}) via_file={}\n{}", m.desc, m.via_file, m.text);
            }
            j.out.inc("texts");
            if m.desc.starts_with("systematic:") {
                j.out.inc("systematic_hostile_texts");
                if m.desc.contains("supplied across files") {
                    j.out.inc("cross_file_template_texts");
                }
            }
            j.out.tag(format!("mut:{}", m.desc.chars().take(80).collect::<String>()));
            if m.via_file {
                let files: Vec<(String, Vec<u8>)> = m.files.iter().map(|(n, t)| (n.clone(), t.as_bytes().to_vec())).collect();
                j.parse_file(m.text.as_bytes(), &files, &dir);
            } else {
                // in-memory entry point: directories cannot be represented
                let files: Vec<(String, String)> = m.files.iter().filter(|(_, t)| t != "<DIR>").cloned().collect();
                j.parse_str(&m.text, &files);
            }
        }
        if idx % 500 == 3 {
            if let Some(m) = ms.first() {
                j.out.sample = Some(json!({"idx": idx, "desc": m.desc, "text": short(&m.text, 1500)}));
            }
        }
        j.out
    }
    fn rule(&self) -> String {
        format!("first block (identical for every seed): the systematic hostile family - every list-action keyword of parser/src/cfg/list_actions.rs (read from /repo at run time) x arity 0..5 x every argument kind and one odd slot in a plausible call; every defcfg option x boundary values (alone and in a configuration that uses the features the options configure); string shapes (empty, raw, lone quote built by concat, multi-byte) at every place that takes free text; every top-level form with degenerate bodies, and written two / three times under each of its spellings in both orders; defvar reference graphs over three variables (self, mutual and longer cycles through atoms, lists, concat) with use sites; one valid instance of every top-level form / rich action with each token replaced by hostile atoms, deleted or doubled; the same forms built by a template whose definition and call are in different files (main/included in both directions, and two included files), each sub-expression in turn supplied by the call with valid and hostile arguments, so that sibling expressions carry positions of different files; zippychord dictionary files; lexical endings (unterminated string / raw string / block comment / parenthesis) at end of file followed by 1-4-byte characters, in the main and in an included file. Then: case = {MUTANTS_PER_CASE} texts derived from one seed text: every shipped sample config, every parser test config, every [source] block of docs/config.adoc (fragments wrapped with a minimal defsrc/deflayer), every config string literal in the test sources (all read from /repo at run time; this block of cases is identical for every VERIF_SEED), and grammar-generated valid configs (random part). Texts are produced by structure-aware mutation inside one top-level form (delete/duplicate/swap/splice sub-expressions, () for atoms, atoms for lists, boundary numbers, unknown and self-referential names, dropped/extra arguments, wrap/unwrap) and by byte-level mutation (insert/delete/flip/truncate, multi-byte characters, unterminated strings/comments); included files are damaged, emptied, removed or replaced by a directory. Bounds: <= 64 KiB, parenthesis depth <= 64. Both entry points (new_from_str with a file map, new_from_file on a scratch directory). Non-trivial/distinct = distinct (seed, mutation kinds, head of mutated form) descriptions and distinct diagnostic messages.")
    }
    fn assumptions(&self) -> Vec<String> {
        vec![
            "termination is judged by a wall-clock watchdog (20 s per case of 12 texts); duplicate/splice mutations are not applied inside deftemplate/template-expand forms, whose expansion is exponential by design".into(),
            "accept/reject decisions are not judged here, only crashes and diagnostics".into(),
            "non-UTF-8 main files are only checked for crashes (the property is about UTF-8 texts)".into(),
        ]
    }
    fn floors(&self, _ctx: &Ctx) -> Vec<(&'static str, u64)> {
        vec![("accepted", 500), ("errors_with_span", 2000), ("parses_from_file", 500), ("systematic_hostile_texts", 10_000), ("cross_file_template_texts", 3_000)]
    }
    fn hang_is_violation(&self) -> bool {
        true
    }
    fn watchdog_s(&self, _ctx: &Ctx) -> u64 {
        20
    }
}
