//! C18 — not implemented yet (stub so that the registry compiles).

use crate::core::{CaseOut, Check, Ctx};

pub struct C18Check;
pub static C18: C18Check = C18Check;

impl Check for C18Check {
    fn id(&self) -> &'static str {
        "C18"
    }
    fn n_cases(&self, _ctx: &Ctx) -> u64 {
        0
    }
    fn run_case(&self, _ctx: &Ctx, _idx: u64) -> CaseOut {
        CaseOut::new()
    }
    fn rule(&self) -> String {
        "not implemented".into()
    }
    fn assumptions(&self) -> Vec<String> {
        vec![]
    }
}
